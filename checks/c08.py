"""C08 -- the adjoint gradient equals the derivative of the objective.

The objective Z = <target, rho_N> is linear in every half-step propagator, so its partial
derivative with respect to entry (a, b) of a propagator equals Z evaluated with that
propagator replaced by the unit matrix E_ab.  The oracle evaluates this with the explicit
index-sum forward contraction (`lib.oracle_pt_dynamics`: system half step, environments in
list order, system half step); it never looks at the back-propagation code.

H1  real `state_gradient` (-> `compute_gradient_and_dynamics`: forward pass,
    back-propagation, `_apply_derivative_pt_mpos`, `_get_pt_mpos_backprop`; real
    `_chain_rule`/`combine_derivs`) on symbolic process tensors, symbolic half-step
    propagators, initial state and linear target.  The "parameters" are the 16 entries of
    a half-step propagator (user-supplied propagator derivative of parameter (a,b) = E_ab),
    so row 2n / 2n+1 of the returned gradient must be dZ/dP1[n] / dZ/dP2[n].
H2  real `_chain_rule` and the real `ParameterizedSystem.get_propagator_derivatives`
    closure on arbitrary symbolic adjoint tensors, propagators and user-supplied
    propagator derivatives that depend on the (symbolic) parameter rows: row 2n uses
    parameters[2n] and the derivative of the FIRST half step, row 2n+1 parameters[2n+1]
    and the second.
H3  the dynamics/final state reported by `state_gradient` equal `compute_dynamics` of the
    same propagators (incl. controls), times included.
H4  a callable target derivative is called with the final state and its return value is
    used as the target.
"""
import numpy as np
import z3

import oqupy
import oqupy.gradient as gr
import oqupy.process_tensor as ptm
import oqupy.system_dynamics as sd
from oqupy.control import Control

from vf.core import Case, Ob
from vf import lib, sym
from vf.sym import S
from vf.poly import ob_eq_poly
from vf.pointcheck import Guard

ASSUMPTIONS = [
    "exact real/complex arithmetic (floating-point rounding of tensor arithmetic outside the claim)",
    "conjugation-free contraction code is a polynomial map: identity over real symbols implies identity over complex values",
    "the cap tensor of the last step is the scalar 1 (what SimpleProcessTensor.compute_caps produces; the "
    "back-propagation starts from the bare target and never applies the last cap)",
]

NP_PROXY = ("oqupy.gradient",)


# --------------------------------------------------------------------------
# building blocks
# --------------------------------------------------------------------------
def build_pt(inp, name, d, N, bond, rank, dt=0.1):
    """symbolic process tensor; last cap concrete 1.  Returns (pt, rank-4 MPOs, caps)."""
    D = d * d
    pt = ptm.SimpleProcessTensor(hilbert_space_dimension=d, dt=dt)
    Meff, caps = [], []
    for k in range(N):
        bl = 1 if k == 0 else bond
        br = 1 if k == N - 1 else bond
        if rank == 3:
            M = inp.arr("%sM%d" % (name, k), (bl, br, D))
            full = inp.const(np.zeros((bl, br, D, D)))
            for a in range(bl):
                for b in range(br):
                    for i in range(D):
                        full[a, b, i, i] = M[a, b, i]
        else:
            M = inp.arr("%sM%d" % (name, k), (bl, br, D, D))
            full = M
        pt.set_mpo_tensor(k, M)
        Meff.append(full)
    for k in range(N + 1):
        if k == N:
            c = inp.const(np.ones((1,)))
        else:
            c = inp.arr("%sc%d" % (name, k), (1 if k == 0 else bond,))
        caps.append(c)
        pt.set_cap_tensor(k, c)
    return pt, Meff, caps


def unit(inp, D, a, b):
    E = inp.const(np.zeros((D, D)))
    E[a, b] = inp.one()
    return E


class EntrySystem(lib.FakeParamSystem):
    """ParameterizedSystem whose half-step propagators are handed in (expm is outside the
    claim) and whose D*D parameters are the entries of a half-step propagator: the
    derivative of either half-step propagator w.r.t. parameter j=(a,b) is E_ab."""

    def __init__(self, inp, d, P1, P2):
        super().__init__(d, P1, P2)
        D = d * d
        self._units = [unit(inp, D, a, b) for a in range(D) for b in range(D)]

    def get_propagator_derivatives(self, dt, parameters):
        return lambda step: (self._units, self._units)


def make_controls(inp, d, spec, n_run, sparse=False):
    """spec: list of (step, is_post).  Returns Control, pre{step: C}, post{step: C}"""
    D = d * d
    pre, post = {}, {}
    if not spec:
        return None, pre, post
    control = Control(d)
    for ci, (step, is_post) in enumerate(spec):
        if step > n_run:
            continue
        if sparse:
            # generalised permutation + one concrete entry: keeps polynomial sizes in reach, still
            # detects a missing, transposed, swapped or misplaced control
            C = inp.const(np.zeros((D, D)))
            v = inp.arr("C%d" % ci, (D,))
            for i in range(D):
                C[i, (i + 1 + ci) % D] = v[i]
            C[0, 0] = inp.one()
        else:
            C = inp.arr("C%d" % ci, (D, D))
        control.add_single(step, C, post=is_post)
        tgt = post if is_post else pre
        tgt[step] = C if step not in tgt else C @ tgt[step]
    return control, pre, post


CONTROL_SPECS = {
    "none": lambda N: [],
    # pre and post at an inner step, post at step 0
    "inner": lambda N: [(1, False), (1, True), (0, True)],
    # pre and post at step 0, pre at the last step (the state after the last propagator)
    "ends": lambda N: [(0, False), (0, True), (N, False)],
    "inner_sparse": lambda N: [(1, False), (1, True), (0, True)],
    "ends_sparse": lambda N: [(0, False), (0, True), (1, True), (N, False)],
}


def vdot(x, y):
    """sum_i x_i y_i without conjugation (object arrays and complex arrays alike)"""
    return np.dot(np.asarray(x).reshape(-1), np.asarray(y).reshape(-1))


def oracle_derivs(inp, rho0, envs, P1, P2, target, N, pre, post, steps):
    """{(n, half): D x D matrix of dZ/dP_half[n][a,b]} by the explicit forward contraction"""
    D = rho0.size
    out = {}
    for n in steps:
        for half in (0, 1):
            G = inp.const(np.zeros((D, D)))
            for a in range(D):
                for b in range(D):
                    Q1, Q2 = list(P1), list(P2)
                    (Q1 if half == 0 else Q2)[n] = unit(inp, D, a, b)
                    G[a, b] = vdot(target, lib.oracle_pt_dynamics(rho0, envs, Q1, Q2, N, pre, post))
            out[(n, half)] = G
    return out


# --------------------------------------------------------------------------
# H1
# --------------------------------------------------------------------------
class H1(Case):
    functions = ("gradient.state_gradient", "gradient.compute_gradient_and_dynamics", "gradient._chain_rule",
                 "system_dynamics._apply_derivative_pt_mpos", "system_dynamics._get_pt_mpos_backprop",
                 "system_dynamics._apply_pt_mpos", "system_dynamics._apply_system_superoperator",
                 "system_dynamics._apply_caps", "system_dynamics._get_caps", "system_dynamics._get_pt_mpos",
                 "system_dynamics._compute_dynamics_input_parse", "SimpleProcessTensor.get_mpo_tensor",
                 "Control.get_controls")
    stubs = ("ParameterizedSystem.get_propagators -> symbolic half-step propagators (expm outside the claim)",
             "ParameterizedSystem.get_propagator_derivatives -> unit matrices E_ab (parameters = propagator entries)",
             "numpy zeros(dtype='complex128') in oqupy.gradient -> object array (NpProxy)")
    env = {"noconj": True, "np_proxy_modules": NP_PROXY}

    def __init__(self, nenv, N, bond, rank=4, controls="none", part="all", d=2, timeout_s=300, som=False, cplx=False, tlayout="C"):
        """part: 'all' | 'final' (last step only) | 'nonfinal' (all other steps)
        som: put the difference into sum-of-monomials normal form with z3's rewriter before the query
        (vf/poly.py); needed for the larger identities, slower than the plain query for the small ones"""
        self.nenv, self.N, self.bond, self.rank, self.controls, self.part, self.d = nenv, N, bond, rank, controls, part, d
        self.som = som
        # cplx: complex-valued initial state and linear target (non-Hermitian in general), so that the
        # objective and every gradient entry have an imaginary part that is an obligation of its own
        self.cplx = cplx
        # tlayout "F": the (non-symmetric) target derivative is handed over column-major (what target.T views,
        # np.asfortranarray or a callable returning 2*rho.T produce): same logical matrix
        self.tlayout = tlayout
        tag = "env%d_N%d_b%d_r%d_%s%s%s%s" % (nenv, N, bond, rank, controls, "" if d == 2 else "_d%d" % d, "_cplx" if cplx else "",
                                            "" if tlayout == "C" else "_targetF")
        if part == "nonfinal" and nenv >= 2 and rank == 4:
            # defect class: several environments whose MPO tensors do not commute on the
            # system leg, derivative w.r.t. a propagator of a step before the last one
            self.id = "H1/multienv_r4_nonfinal/" + tag
        elif part == "all":
            self.id = "H1/" + tag
        else:
            self.id = "H1/%s_%s" % (tag, part)
        self.bounds = {"d": d, "envs": nenv, "N": N, "bond": bond, "rank": rank, "controls": controls, "steps": part,
                       "complex_state_and_target": cplx}
        self.timeout_s = timeout_s

    def steps(self):
        N = self.N
        return {"all": list(range(N)), "final": [N - 1], "nonfinal": list(range(N - 1))}[self.part]

    def run(self, inp):
        d, N = self.d, self.N
        D = d * d
        envs, pts = [], []
        for e in range(self.nenv):
            pt, Meff, caps = build_pt(inp, "e%d" % e, d, N, self.bond, self.rank)
            pts.append(pt)
            envs.append((Meff, caps))
        P1 = [lib.gen_prop(inp, "p%d" % k, d) for k in range(N)]
        P2 = [lib.gen_prop(inp, "q%d" % k, d) for k in range(N)]
        rho0 = inp.arr("r", (d, d), cplx=self.cplx)
        target = inp.arr("t", (d, d), cplx=self.cplx)
        control, pre, post = make_controls(inp, d, CONTROL_SPECS[self.controls](N), N, sparse=self.controls.endswith('sparse'))
        system = EntrySystem(inp, d, P1, P2)
        params = np.zeros((2 * N, D * D))
        tgt_arg = np.asfortranarray(target.copy()) if self.tlayout == "F" else target.copy()
        if control is None:
            res = gr.state_gradient(system, rho0, tgt_arg, pts, params, progress_type="silent")
            grad = res["gradient"]
        else:
            # state_gradient has no `control` argument: the two calls it makes
            gp, dyn = gr.compute_gradient_and_dynamics(system=system, initial_state=rho0, target_derivative=tgt_arg,
                                                       process_tensors=pts, parameters=params, control=control,
                                                       progress_type="silent")
            grad = gr._chain_rule(adjoint_tensor=gp, dprop_dparam=system.get_propagator_derivatives(0.1, params),
                                  propagators=system.get_propagators(0.1, params), num_steps=N, num_parameters=D * D,
                                  progress_type="silent")
        obs = [Ob.holds("gradient shape", tuple(grad.shape) == (2 * N, D * D))]
        exp = oracle_derivs(inp, rho0, envs, P1, P2, target, N, pre, post, self.steps())
        guard = Guard(inp)
        for n in self.steps():
            for half in (0, 1):
                got = np.asarray(grad[2 * n + half]).reshape(D, D)
                # row 2n+half of the gradient vs derivative of the forward contraction w.r.t. the
                # first/second half-step propagator of step n (polynomial identity: normal form by z3's
                # sum-of-monomials rewriter, see vf/poly.py)
                # exact evaluation at rational points first (vf/pointcheck.py); only an obligation that
                # survives it is normalised / handed to the solver
                label = "dZ/dP%d[%d]" % (half + 1, n)
                ob = guard.refute(Ob.eq(label, got, exp[(n, half)]))
                if self.som and type(ob) is Ob:
                    ob = ob_eq_poly(inp, label, got, exp[(n, half)])
                obs.append(ob)
        return obs


# --------------------------------------------------------------------------
# H2
# --------------------------------------------------------------------------
class ParamDerivSystem(oqupy.ParameterizedSystem):
    """real ParameterizedSystem (real get_propagator_derivatives closure) with user-supplied
    propagator derivatives; only the expm-based get_propagators is replaced"""

    def __init__(self, d, M, P1, P2, user_pd):
        ham = {1: (lambda x: np.zeros((d, d)) + 0 * x), 2: (lambda x, y: np.zeros((d, d)) + 0 * x)}[M]
        super().__init__(ham, propagator_derivatives=user_pd)
        self._P1, self._P2 = P1, P2

    def get_propagators(self, dt, parameters):
        return lambda step: (self._P1[step], self._P2[step])


class H2(Case):
    functions = ("gradient._chain_rule", "ParameterizedSystem.get_propagator_derivatives")
    stubs = ("ParameterizedSystem.get_propagators -> symbolic half-step propagators (expm outside the claim)",
             "numpy zeros(dtype='complex128') in oqupy.gradient -> object array (NpProxy)")
    env = {"noconj": True, "np_proxy_modules": NP_PROXY}

    def __init__(self, N, M, d=2, cplx=False):
        self.N, self.M, self.d, self.cplx = N, M, d, cplx
        self.id = "H2/chain_rule_N%d_M%d%s" % (N, M, "_cplx" if cplx else "")
        self.bounds = {"d": d, "N": N, "M": M, "complex_adjoint_and_derivatives": cplx}

    def run(self, inp):
        d, N, M = self.d, self.N, self.M
        D = d * d
        A = [inp.arr("A%d" % n, (D, D, D, D), cplx=self.cplx) for n in range(N)]
        P1 = [lib.gen_prop(inp, "p%d" % k, d) for k in range(N)]
        P2 = [lib.gen_prop(inp, "q%d" % k, d) for k in range(N)]
        params = inp.arr("u", (2 * N, M))
        dt = inp.real("dt", lo=0.01, hi=1)
        # user-supplied derivative of the half-step propagator w.r.t. parameter j at the
        # parameter values x: an arbitrary (here: affine in x and dt, symbolic coefficients) map
        K0 = [inp.arr("K0_%d" % j, (D, D), cplx=self.cplx) for j in range(M)]
        K1 = [[inp.arr("K1_%d_%d" % (j, i), (D, D)) for i in range(M)] for j in range(M)]
        K2 = [inp.arr("K2_%d" % j, (D, D)) for j in range(M)]
        calls = []

        def user_pd(dt_, x):
            calls.append((dt_, x))
            out = []
            for j in range(M):
                m = K0[j] + dt_ * K2[j]
                for i in range(M):
                    m = m + x[i] * K1[j][i]
                out.append(m)
            return out
        system = ParamDerivSystem(d, M, P1, P2, user_pd)
        grad = gr._chain_rule(adjoint_tensor=A, dprop_dparam=system.get_propagator_derivatives(dt, params),
                              propagators=system.get_propagators(dt, params), num_steps=N, num_parameters=M,
                              progress_type="silent")
        obs = [Ob.holds("gradient shape", tuple(grad.shape) == (2 * N, M))]
        for n in range(N):
            for half in (0, 1):
                x = params[2 * n + half]
                for j in range(M):
                    dP = K0[j] + dt * K2[j]
                    for i in range(M):
                        dP = dP + x[i] * K1[j][i]
                    # documented axes of the adjoint tensor: [0] input / [1] output of the first
                    # half-step propagator, [2] input / [3] output of the second one
                    X1, X2 = (dP, P2[n]) if half == 0 else (P1[n], dP)
                    e = lib.einsum("abcd,ba,dc->", A[n], X1, X2)
                    obs.append(Ob.eq("row %d param %d" % (2 * n + half, j), grad[2 * n + half][j], e))
        return Guard(inp).all(obs)


# --------------------------------------------------------------------------
# H3 / H4
# --------------------------------------------------------------------------
class H3(Case):
    functions = ("gradient.state_gradient", "gradient.compute_gradient_and_dynamics", "system_dynamics.compute_dynamics",
                 "Dynamics.__init__", "Dynamics.add")
    stubs = H1.stubs + ("System.get_propagators -> the same symbolic half-step propagators",)
    env = {"noconj": True, "np_proxy_modules": NP_PROXY}

    def __init__(self, nenv, N, bond, rank, controls, d=2):
        self.nenv, self.N, self.bond, self.rank, self.controls, self.d = nenv, N, bond, rank, controls, d
        self.id = "H3/dynamics_env%d_N%d_b%d_r%d_%s" % (nenv, N, bond, rank, controls)
        self.bounds = {"d": d, "envs": nenv, "N": N, "bond": bond, "rank": rank, "controls": controls}

    def run(self, inp):
        d, N = self.d, self.N
        D = d * d
        pts = [build_pt(inp, "e%d" % e, d, N, self.bond, self.rank)[0] for e in range(self.nenv)]
        P1 = [lib.gen_prop(inp, "p%d" % k, d) for k in range(N)]
        P2 = [lib.gen_prop(inp, "q%d" % k, d) for k in range(N)]
        rho0 = inp.arr("r", (d, d))
        target = inp.arr("t", (d, d))
        control, pre, post = make_controls(inp, d, CONTROL_SPECS[self.controls](N), N, sparse=self.controls.endswith('sparse'))
        system = EntrySystem(inp, d, P1, P2)
        params = np.zeros((2 * N, D * D))
        if control is None:
            res = gr.state_gradient(system, rho0, target.copy(), pts, params, start_time=0.5, progress_type="silent")
            dyn, final = res["dynamics"], res["final_state"]
        else:
            gp, dyn = gr.compute_gradient_and_dynamics(system=system, initial_state=rho0, target_derivative=target.copy(),
                                                       process_tensors=pts, parameters=params, control=control,
                                                       start_time=0.5, progress_type="silent")
            final = dyn.states[-1]
        ref = sd.compute_dynamics(lib.FakeSystem(d, P1, P2), initial_state=rho0, process_tensor=pts, control=control,
                                  start_time=0.5, progress_type="silent")
        a, b = lib.dynamics_states(dyn), lib.dynamics_states(ref)
        obs = [Ob.holds("number of states", len(a) == N + 1 and len(b) == N + 1),
               Ob.holds("times", [float(t) for t in dyn._times] == [float(t) for t in ref._times]
                        and [float(t) for t in ref._times] == [0.5 + 0.1 * k for k in range(N + 1)])]
        for n in range(min(len(a), len(b))):
            obs.append(Ob.eq("state %d" % n, a[n], b[n]))
        obs.append(Ob.eq("final_state", final, b[-1]))
        return Guard(inp).all(obs)


class H4(Case):
    functions = ("gradient.compute_gradient_and_dynamics",)
    stubs = H1.stubs
    env = {"noconj": True, "np_proxy_modules": NP_PROXY}

    def __init__(self, nenv, N, bond, d=2, tlayout="C"):
        self.nenv, self.N, self.bond, self.d, self.tlayout = nenv, N, bond, d, tlayout
        self.id = "H4/callable_target_env%d_N%d_b%d%s" % (nenv, N, bond, "" if tlayout == "C" else "_targetF")
        self.bounds = {"d": d, "envs": nenv, "N": N, "bond": bond, "returned_target_memory_layout": tlayout}

    def run(self, inp):
        d, N = self.d, self.N
        D = d * d
        envs, pts = [], []
        for e in range(self.nenv):
            pt, Meff, caps = build_pt(inp, "e%d" % e, d, N, self.bond, 4)
            pts.append(pt)
            envs.append((Meff, caps))
        P1 = [lib.gen_prop(inp, "p%d" % k, d) for k in range(N)]
        P2 = [lib.gen_prop(inp, "q%d" % k, d) for k in range(N)]
        rho0 = inp.arr("r", (d, d))
        target = inp.arr("t", (d, d))
        seen = []

        def target_fn(state):
            seen.append(np.array(state))
            return np.asfortranarray(target.copy()) if self.tlayout == "F" else target.copy()
        system = EntrySystem(inp, d, P1, P2)
        params = np.zeros((2 * N, D * D))
        res = gr.state_gradient(system, rho0, target_fn, pts, params, progress_type="silent")
        ref = gr.state_gradient(EntrySystem(inp, d, P1, P2), rho0, target.copy(), pts, params, progress_type="silent")
        final = lib.oracle_pt_dynamics(rho0, envs, P1, P2, N).reshape(d, d)
        obs = [Ob.holds("callable called exactly once", len(seen) == 1)]
        if seen:
            obs.append(Ob.eq("callable receives the final state", seen[0], final))
        obs.append(Ob.eq("return value used as target", res["gradient"], ref["gradient"]))
        return Guard(inp).all(obs)


# --------------------------------------------------------------------------
# H5: one ParameterizedSystem object used in two computations with different dt
# --------------------------------------------------------------------------
class ExpmAtoms:
    """stand-in for scipy.linalg.expm that is a FUNCTION of its argument: in the symbolic run every
    argument that is new (after z3's simplifier) gets a matrix of fresh real variables, equal arguments
    share it (Ackermannised uninterpreted function); in the concrete runs the truncated series
    1 + A + A^2/2.  Every call is recorded."""

    def __init__(self, inp):
        self.inp = inp
        self.atoms = {}
        self.args = []

    def __call__(self, m):
        m = np.array(m)
        self.args.append(m)
        if not self.inp.symbolic:
            return np.identity(m.shape[0]) + m + (m @ m) / 2
        key = []
        keep = []
        for idx in np.ndindex(*m.shape):
            x = S.of(m[idx])
            for part in (x.re, x.im):
                t = z3.simplify(sym.zr(part))
                keep.append(t)
                key.append(t.get_id())
        key = tuple(key)
        if key not in self.atoms:
            k = len(self.atoms)
            out = np.empty(m.shape, dtype=object)
            for idx in np.ndindex(*m.shape):
                out[idx] = S(z3.Real("expm%d_%s" % (k, "_".join(map(str, idx)))))
            self.atoms[key] = (keep, out)
        return self.atoms[key][1].copy()


def commutator_oracle(inp, H):
    """-i (H rho - rho H) in the row-major vectorisation, entry by entry"""
    d = H.shape[0]
    L = np.empty((d * d, d * d), dtype=complex if inp.mode == "real" else object)
    for i in range(d):
        for j in range(d):
            for k in range(d):
                for l in range(d):
                    v = inp.zero()
                    if j == l:
                        v = v + H[i, k]
                    if i == k:
                        v = v - H[l, j]
                    L[i * d + j, k * d + l] = v * (-1j)
    return L


class H5(Case):
    """history: the SAME ParameterizedSystem object (real class, real get_propagators / liouvillian /
    get_propagator_derivatives) serves a computation with dt1 and then one with dt2 and repeated parameter
    rows; the second result must be that of a freshly built equal object"""
    functions = ("ParameterizedSystem.__init__", "ParameterizedSystem.get_propagators", "ParameterizedSystem.liouvillian",
                 "ParameterizedSystem.get_propagator_derivatives", "system._liouvillian", "gradient.state_gradient",
                 "gradient.compute_gradient_and_dynamics", "gradient._chain_rule")
    stubs = ("scipy.linalg.expm -> Ackermannised uninterpreted matrix function of its argument (truncated series in the concrete runs), calls recorded",
             "user Hamiltonian H(x) = H0 + x H1 with symbolic matrices; user-supplied propagator derivatives affine in (x, dt)",
             "numpy zeros(dtype='complex128') in oqupy.gradient -> object array (NpProxy)")
    env = {"np_proxy_modules": NP_PROXY}
    timeout_s = 300

    def __init__(self, N=2, bond=1, dts=(0.2, 0.1)):
        self.N, self.bond, self.dts = N, bond, dts
        self.id = "H5/system_reused_dt%s_then_dt%s_N%d_b%d" % (dts[0], dts[1], N, bond)
        self.bounds = {"d": 2, "N": N, "bond": bond, "dt": list(dts), "M": 1}

    def run(self, inp):
        d, N = 2, self.N
        D = d * d
        dt1, dt2 = self.dts
        H0, H1 = inp.arr("H0", (d, d)), inp.arr("H1", (d, d))
        K0, K1, K2 = inp.arr("K0", (D, D)), inp.arr("K1", (D, D)), inp.arr("K2", (D, D))

        def ham(x):
            return H0 + x * H1

        def user_pd(dt_, x):
            return [K0 + dt_ * K2 + x[0] * K1]

        # repeated parameter rows: rows 2.. reuse the objects of rows 0, 1
        base = inp.arr("u", (2, 1))
        params = np.empty((2 * N, 1), dtype=base.dtype)
        for r in range(2 * N):
            params[r, 0] = base[r % 2, 0]
        rho0 = inp.arr("r", (d, d))
        target = inp.arr("t", (d, d))
        pt1 = build_pt(inp, "a", d, N, self.bond, 4, dt=dt1)[0]
        pt2 = build_pt(inp, "b", d, N, self.bond, 4, dt=dt2)[0]
        ex = ExpmAtoms(inp)
        from vf.env import patched
        with patched({"oqupy.system.expm": ex}):
            used = oqupy.ParameterizedSystem(ham, propagator_derivatives=user_pd)
            gr.state_gradient(used, rho0, target.copy(), [pt1], params, progress_type="silent")      # history
            del ex.args[:]
            second = gr.state_gradient(used, rho0, target.copy(), [pt2], params, progress_type="silent")
            args_second = list(ex.args)
            fresh = oqupy.ParameterizedSystem(ham, propagator_derivatives=user_pd)
            ref = gr.state_gradient(fresh, rho0, target.copy(), [pt2], params, progress_type="silent")
            obs = []
            # every generator exponentiated in the second computation is L(parameter row) * dt2 / 2
            gens = [commutator_oracle(inp, ham(base[r, 0])) * (dt2 / 2.0) for r in range(2)]
            for k, a in enumerate(args_second):
                alts = [Ob.eq("x", a, g) for g in gens]
                if inp.symbolic:
                    cond = sym.SB(z3.Or(*[z3.Not(o.violation_formula()) for o in alts]))
                else:
                    cond = any(not o.violated_concrete(1e-9)[0] for o in alts)
                obs.append(Ob.holds("second computation: expm argument %d is L(row)*dt2/2" % k, cond))
            # propagators handed out by the used object for dt2
            props = used.get_propagators(dt2, params)
            for step in range(N):
                p1, p2 = props(step)
                obs.append(Ob.eq("used object, dt2, step %d: first half-step propagator" % step, p1, ex(gens[0])))
                obs.append(Ob.eq("used object, dt2, step %d: second half-step propagator" % step, p2, ex(gens[1])))
            # propagator derivatives handed out by the used object for dt2
            pd = used.get_propagator_derivatives(dt2, params)
            for step in range(N):
                a, b = pd(step)
                obs.append(Ob.eq("used object, dt2, step %d: first half-step derivative" % step, a[0], K0 + dt2 * K2 + base[0, 0] * K1))
                obs.append(Ob.eq("used object, dt2, step %d: second half-step derivative" % step, b[0], K0 + dt2 * K2 + base[1, 0] * K1))
        a, b = lib.dynamics_states(second["dynamics"]), lib.dynamics_states(ref["dynamics"])
        obs.append(Ob.holds("number of states", len(a) == N + 1 and len(b) == N + 1))
        for n in range(min(len(a), len(b))):
            obs.append(Ob.eq("second computation, state %d == fresh object" % n, a[n], b[n]))
        obs.append(Ob.eq("second computation, gradient == fresh object", second["gradient"], ref["gradient"]))
        return Guard(inp).all(obs)


# --------------------------------------------------------------------------
# H6: numerically differentiated propagators -- the Python layer around numdifftools
# --------------------------------------------------------------------------
class SymArr(np.ndarray):
    """object array of S whose .real / .imag are element-wise (numpy returns the array itself / zeros for
    object arrays, which would hide the real-imaginary split of the code under test)"""

    @property
    def real(self):
        out = np.empty(self.shape, dtype=object)
        for idx in np.ndindex(*self.shape):
            out[idx] = S.of(self[idx]).real
        return out

    @property
    def imag(self):
        out = np.empty(self.shape, dtype=object)
        for idx in np.ndindex(*self.shape):
            out[idx] = S.of(self[idx]).imag
        return out


def expm_series(m):
    """stand-in for expm: 1 + A + A^2/2 (differentiable in closed form; quadratic in the parameters when
    the Liouvillian is affine in them)"""
    m = np.asarray(m)
    out = np.identity(m.shape[0]) + m + (m @ m) / 2
    if out.dtype == object:
        return out.view(SymArr)
    return out


class ExactJacobian:
    """stand-in for numdifftools.Jacobian with its contract J(f)(x)[:, i, :] = d f / d x_i for a matrix
    valued f: central difference with step 1, EXACT for the (at most quadratic) functions used here"""

    def __init__(self, f):
        self.f = f

    def __call__(self, x):
        x = list(x)
        cols = []
        for i in range(len(x)):
            xp, xm = list(x), list(x)
            xp[i] = x[i] + 1
            xm[i] = x[i] - 1
            cols.append((np.asarray(self.f(xp)) - np.asarray(self.f(xm))) / 2)
        D = cols[0].shape[0]
        out = np.empty((D, len(x), cols[0].shape[1]), dtype=cols[0].dtype)
        for i, c in enumerate(cols):
            out[:, i, :] = c
        return out


def dissipator_oracle(inp, g, A):
    """g (A rho A^T - 1/2 A^T A rho - 1/2 rho A^T A), real A, row-major vectorisation, entry by entry"""
    d = A.shape[0]
    AtA = A.T @ A
    L = np.empty((d * d, d * d), dtype=complex if inp.mode == "real" else object)
    for i in range(d):
        for j in range(d):
            for k in range(d):
                for l in range(d):
                    v = A[i, k] * A[j, l]
                    if j == l:
                        v = v - AtA[i, k] / 2
                    if i == k:
                        v = v - AtA[l, j] / 2
                    L[i * d + j, k * d + l] = g * v
    return L


class H6(Case):
    """numerically differentiated propagator derivatives (no user-supplied derivative): real
    ParameterizedSystem.get_propagator_derivatives -> halfstep_propagator_derivative -> jacfun.  The finite
    differences themselves are outside the claim (numdifftools -> exact stand-in); what is checked is the
    Python layer: real and imaginary part differentiated and recombined, parameter row 2n / 2n+1, index of the
    parameter -- in particular at parameter values where the half-step propagator is REAL (amplitude exactly
    0) while its derivative is complex."""
    functions = ("ParameterizedSystem.get_propagator_derivatives", "ParameterizedSystem.halfstep_propagator_derivative",
                 "ParameterizedSystem.liouvillian", "system._liouvillian")
    stubs = ("numdifftools.Jacobian -> exact central difference (exact for quadratic functions), layout [:, i, :] = d/dx_i",
             "scipy.linalg.expm -> 1 + A + A^2/2",
             "H(x) = sum_i x_i H_i (real symmetric-free symbolic matrices), one dissipator with symbolic constant rate and real operator")
    timeout_s = 120

    def __init__(self, M, N=2, d=2, zero=False):
        """zero: every parameter row is exactly 0 (the all-zero initial guess of an optimal-control run);
        otherwise every row is symbolic.  Two separate cases: code that (wrongly) branches on the value of
        the propagator forks on symbolic rows, which the solver may not decide; the all-zero case has no
        symbolic branch."""
        self.M, self.N, self.d, self.zero = M, N, d, zero
        self.id = "H6/numdiff_derivatives_M%d_N%d_%s" % (M, N, "zero_amplitude" if zero else "symbolic_rows")
        self.bounds = {"d": d, "M": M, "N": N, "dt": 0.2, "parameter_rows": "all exactly 0" if zero else "symbolic"}
        from vf.env import BUILTIN_SHADOWS
        self.env = {"extra": {"oqupy.system.float": BUILTIN_SHADOWS["float"]}}

    def run(self, inp):
        d, M, N = self.d, self.M, self.N
        dt = 0.2
        Hs = [inp.arr("H%d" % i, (d, d)) for i in range(M)]
        gam = inp.real("gam", lo=0, hi=2)
        A = inp.arr("A", (d, d))
        if M == 1:
            ham = lambda x: x * Hs[0]
            gf, af = (lambda x: gam), (lambda x: A)
        else:
            ham = lambda x, y: x * Hs[0] + y * Hs[1]
            gf, af = (lambda x, y: gam), (lambda x, y: A)
        params = inp.arr("u", (2 * N, M))
        if self.zero:
            # control amplitude exactly 0 -> real Liouvillian, real half-step propagator, complex derivative
            params = inp.const(np.zeros((2 * N, M)))
        from vf.env import patched
        obs = []
        with patched({"oqupy.system.expm": expm_series, "oqupy.system.Jacobian": ExactJacobian}):
            system = oqupy.ParameterizedSystem(ham, gammas=[gf], lindblad_operators=[af])
            pd = system.get_propagator_derivatives(dt, params)
            L0 = dissipator_oracle(inp, gam, A)
            L1 = [commutator_oracle(inp, Hs[i]) for i in range(M)]
            for step in range(N):
                derivs = pd(step)
                for half in (0, 1):
                    row = params[2 * step + half]
                    Ax = L0 * (dt / 2)
                    for i in range(M):
                        Ax = Ax + (row[i] * (dt / 2)) * L1[i]
                    obs.append(Ob.holds("step %d half %d: one derivative per parameter" % (step, half), len(derivs[half]) == M))
                    for i in range(min(M, len(derivs[half]))):
                        dA = L1[i] * (dt / 2)
                        exact = dA + (dA @ Ax + Ax @ dA) / 2          # d/dx_i [1 + A + A^2/2]
                        obs.append(Ob.eq("step %d half %d: d propagator / d parameter %d (row %d%s)"
                                         % (step, half, i, 2 * step + half, ", amplitude 0" if self.zero else ""),
                                         np.asarray(derivs[half][i]), exact))
            if inp.mode == "real":
                # layout of the stand-in == layout of the real numdifftools.Jacobian
                from numdifftools import Jacobian as RealJacobian
                f = lambda x: np.real(expm_series(system.liouvillian(*x) * dt / 2.0))
                x0 = [0.3 + 0.1 * i for i in range(M)]
                obs.append(Ob.eq("Jacobian stand-in has numdifftools' layout", ExactJacobian(f)(x0), RealJacobian(f)(x0)))
        return Guard(inp).all(obs)


# --------------------------------------------------------------------------
def cases(tier):
    cs = [
        H1(1, 2, 2, som=True),
        H1(1, 2, 2, controls="inner_sparse", som=True),
        H1(2, 2, 1, part="final", som=True),
        H1(2, 2, 1, part="nonfinal", som=True),          # expected: known finding
        H1(2, 2, 2, rank=3, som=True),                   # commuting (diagonal) MPO tensors: holds at every step
        H2(2, 1), H2(2, 2),
        H3(1, 2, 2, 4, "inner"), H3(2, 2, 2, 4, "none"),
        H4(1, 2, 2),
        H5(2, 1),
        H1(1, 2, 1, som=True, cplx=True), H2(2, 1, cplx=True),
        H1(1, 2, 1, som=True, cplx=True, tlayout="F"), H4(1, 2, 1, tlayout="F"),
        H6(1, zero=True), H6(2, zero=True), H6(1), H6(2),
    ]
    if tier == "thorough":
        # two/three environments with rank-4 tensors and N = 3 (4^13 monomials per entry) are out of reach
        cs += [
            H1(1, 3, 2, timeout_s=900, som=True),
            H1(1, 2, 2, controls="inner", timeout_s=900, som=True),
            H1(1, 3, 1, controls="ends_sparse", timeout_s=900, som=True),
            H1(2, 2, 2, part="final", timeout_s=900, som=True),
            H1(2, 2, 2, part="nonfinal", timeout_s=900, som=True),          # expected: known finding
            H1(3, 2, 1, part="final", timeout_s=900, som=True),
            H1(2, 3, 2, rank=3, timeout_s=900, som=True),
            H2(3, 2), H3(2, 3, 2, 3, "ends"), H3(1, 3, 2, 4, "ends"), H4(2, 2, 1), H5(2, 2, dts=(0.1, 0.25)),
            H1(1, 2, 2, som=True, cplx=True), H1(2, 2, 1, part="final", som=True, cplx=True), H2(2, 2, cplx=True), H6(2, N=3), H6(2, N=3, zero=True), H1(2, 2, 1, part="final", som=True, tlayout="F"), H4(2, 2, 1, tlayout="F"),
        ]
    return cs
