"""C19 -- no computation leaves background activity behind, whether it returns or fails.

Engine E3 (vf/thx.py): the transition system is lowered at run time from the REAL code
(bytecode of the progress classes' methods, cross-checked against an independent AST lowering;
AST of every function that creates a progress object) and unrolled by z3.

H1  schedules: caller = enter; update^u; exit -- all interleavings with the timer callbacks
    (symbolic thread choice per step, <= T timer objects, B steps).  Two schedule classes:
      A  a callback is running while the caller executes exit()        (key .../cancel-rearm-race)
      B  no such overlap                                               (key .../concurrent-update-orphan)
    for ProgressBar; ProgressSilent / ProgressSimple are lowered the same way (no timer events).
H1w caller = the real `with obj as p: p.update()^u` statement, its body may fail at a symbolic point; the
    class' own __enter__/__exit__ bodies are lowered and inlined (exceptional/normal arguments), all
    interleavings with the callbacks.  Key .../H1w/<type>/exit-on-exception-leaves-timer.
H1f calls without protocol meaning inside the progress methods (print, format, write, flush, ...) may
    raise: caller = enter(); try: update()^u finally: exit(); assertion after the exception has left.
    Key .../H1f/<type>/output-failure-leaves-timer.
H2  fault points: every API function that creates a progress object, straight-line program with a
    symbolic fault index over all call expressions (loops unrolled twice), exception edges of
    `with` / `try`; composed with the timer model (timers do not fire in H2: interleavings are H1's).
H3  executors: every function that constructs a concurrent.futures executor + its call chain up to the
    outermost caller, one inlined program with a symbolic fault index; every executor constructed during
    the API call must be shut down when the call returns or raises.
Assertion (H1/H1f/H2): in every state after the caller has left the library call and no callback is
RUNNING, no timer is WAITING.
Every model is replayed on the real code with real threads (vf/thx_replay.py) and reported only if
threading.enumerate() shows the surviving timer.
"""
import hashlib
import json
import multiprocessing as mp
import os
import sys
import time
import traceback
import warnings

from threading import Event, Lock, RLock, Timer

import z3

from vf import core, thx
from vf.core import Case, Ob

PROP = "C19"
ASSUMPTIONS = [
    "threading.Timer is modelled by its documented contract (start/cancel/fire/run-target-in-own-thread); "
    "threading.Lock/RLock by mutual exclusion; CPython executes attribute loads/stores and calls atomically (GIL)",
    "formatting / printing / clock code has no effect on timers or locks other than by raising: H1 and H2 treat these calls as "
    "no-ops (sliced away: only instructions that can influence a Timer or lock operation are kept); H1f lets every such call "
    "expression of the progress methods raise at every execution (caller shaped like `with progress(..)`: exit() runs while the "
    "exception propagates)",
    "H1: at most T timer objects are created and at most B scheduler steps are taken (bounds in each case); "
    "the caller calls update() u times",
    "H2: each loop of an API function runs at most twice; the injected failure is an Exception subclass raised by a "
    "call expression (or assert/raise statement) of the API function; `except Exception`/bare handlers catch it, "
    "handlers for specific classes do not; timers do not fire during H2 (interleavings are covered by H1)",
    "H3: concurrent.futures executors by their documented contract (no thread at construction; map/submit start workers that live "
    "until shutdown() / the end of the with block); call chain resolved by class for self-calls and by package-unique method name "
    "otherwise; loops of the API function unrolled once (quick) / twice (thorough), loops of callees once",
    "outside the claim: threads created by numpy/BLAS; worker processes of the 'multiprocess' mode are modelled, not replayed",
]
STUBS = ["threading.Timer -> contract model (replay: real Timer subclass with a fake clock)",
         "output formatting -> no-op"]

PTYPES = {"bar": "ProgressBar", "simple": "ProgressSimple", "silent": "ProgressSilent"}
H1_KEYS = {"A": "cancel-rearm-race", "B": "concurrent-update-orphan", "any": "timer-survives"}
METHODS = ("enter", "update", "exit", "__enter__", "__exit__")


# ---------------------------------------------------------------------------------------
# self-test classes (never part of the verdict on /repo): two repaired protocols that must be PROVED within
# the bound and one broken variant that must be REFUTED with a replaying schedule -- exercised through exactly
# the same lowering / BMC / replay path as oqupy.util.ProgressBar
# ---------------------------------------------------------------------------------------
class _SelfBase:
    def __init__(self, max_value, title=None):
        self._timer = None
        self._file = sys.stdout
        self.max_value = max_value
        self.title = title
        self._step = None

    def _print_status(self):
        self._file.write("\r%s of %s" % (self._step, self.max_value))


class RefBar(_SelfBase):
    """lock + closed flag"""

    def __init__(self, max_value, title=None):
        _SelfBase.__init__(self, max_value, title)
        self._lock = Lock()
        self._closed = False

    def enter(self):
        with self._lock:
            self._timer = Timer(1.0, self._print_status)
            self._timer.start()
        return self

    def exit(self):
        with self._lock:
            self._closed = True
            self._timer.cancel()
        self._print_status()

    def update(self, step=None):
        with self._lock:
            if self._closed:
                return
            self._timer.cancel()
            self._timer = Timer(1.0, self.update)
            self._timer.start()
        if step is not None:
            self._step = step
        self._print_status()


class RefBarEvent(_SelfBase):
    """RLock taken with acquire/try/finally/release + threading.Event as the closed flag"""

    def __init__(self, max_value, title=None):
        _SelfBase.__init__(self, max_value, title)
        self._lock = RLock()
        self._stop = Event()

    def enter(self):
        self._timer = Timer(1.0, self._print_status)
        self._timer.start()
        return self

    def exit(self):
        self._lock.acquire()
        try:
            self._stop.set()
            timer = self._timer
            if timer is not None:
                timer.cancel()
        finally:
            self._lock.release()

    def update(self, step=None):
        self._lock.acquire()
        try:
            if not self._stop.is_set():
                self._timer.cancel()
                self._timer = Timer(1.0, self.update)
                self._timer.start()
        finally:
            self._lock.release()
        self._print_status()


class MutNoFlag(RefBar):
    """broken: lock but update() re-arms although exit() has run"""

    def update(self, step=None):
        with self._lock:
            self._timer.cancel()
            self._timer = Timer(1.0, self.update)
            self._timer.start()
        self._print_status()


class MutPrintBeforeClose(RefBar):
    """broken: exit() prints the status inside the lock BEFORE closing and cancelling: a failing write skips the cancel"""

    def exit(self):
        with self._lock:
            self._print_status()
            self._closed = True
            self._timer.cancel()


SELFTESTS_F = [("faults-ref-lock-flag", "RefBar", "unsat"), ("faults-mutant-print-before-close", "MutPrintBeforeClose", "sat")]
SELFTESTS = [("ref-lock-flag", "RefBar", "unsat"), ("ref-rlock-event", "RefBarEvent", "unsat"), ("mutant-no-flag", "MutNoFlag", "sat")]


def _repo_rel(fn):
    f = fn.__code__.co_filename
    if f.startswith(core.REPO + "/"):
        f = f[len(core.REPO) + 1:]
    return "%s:%s" % (f, fn.__qualname__)


# ---------------------------------------------------------------------------------------
# lowering of a progress class (bytecode primary, AST cross-check)
# ---------------------------------------------------------------------------------------
class Lowered:
    def __init__(self, util, clsname, faults=False):
        self.util = util
        self.cls = getattr(util, clsname)
        self.clsname = clsname
        self.faults = faults          # keep the fault sites (calls that may raise) of the methods?
        self.full = {}
        self.ci = thx.ClassInfo(self.cls)
        self.cache = {}
        self.functions = []
        self.ntraces = 0
        self.mismatch = []

    def resolver(self, name):
        if name not in self.cache:
            fn = self.ci.function(name)
            mb = thx.lower_bytecode(fn, self.ci)
            ma = thx.lower_ast_method(fn, self.ci)
            tb, ta = thx.traces(mb), thx.traces(ma)
            if tb != ta:
                self.mismatch.append("%s.%s: bytecode and AST lowerings differ (%d vs %d traces, %d only-bytecode, %d only-AST)"
                                     % (self.cls.__name__, name, len(tb), len(ta), len(tb - ta), len(ta - tb)))
            self.ntraces += len(tb)
            self.functions.append(_repo_rel(fn))
            self.full[name] = mb
            self.cache[name] = mb if self.faults else thx.strip_faults(mb)
        return self.cache[name]

    def codes(self):
        return {n: self.ci.function(n).__code__ for n in self.full}

    def programs(self, top):
        """link caller + every callback target reachable, slice jointly, compact"""
        main = thx.link("caller", top, self.resolver)
        cbs = {}
        todo = [i.b for i in main.code if i.op == "new"]
        while todo:
            t = todo.pop()
            if t in cbs:
                continue
            cbs[t] = thx.link(t, thx.toplevel_calls([(t, ())]), self.resolver)
            todo += [i.b for i in cbs[t].code if i.op == "new"]
        names = sorted(cbs)
        progs = [main] + [cbs[n] for n in names]
        attrs = thx.slice_programs(progs)
        main = thx.compact(main)
        cbs = {n: thx.compact(cbs[n]) for n in names}
        if self.faults:
            main = thx.merge_faults(main)
            cbs = {n: thx.merge_faults(cbs[n]) for n in names}
        finit = {a: self.ci.init.get(a, thx.OTHER) for a in attrs}
        return main, cbs, finit, sorted(attrs)

    def returns_self(self, name, depth=0):
        """does method `name` return self (directly or through return self.other())?"""
        m = self.resolver(name)
        if m.returns_self:
            return True
        fn = self.ci.function(name)
        import ast as _ast
        node, _, _ = thx._fn_ast(fn)
        rets = [n for n in _ast.walk(node) if isinstance(n, _ast.Return)]
        if not rets or depth > 3:
            return False
        for r in rets:
            v = r.value
            if isinstance(v, _ast.Call) and isinstance(v.func, _ast.Attribute) and isinstance(v.func.value, _ast.Name) \
                    and v.func.value.id == fn.__code__.co_varnames[0] and self.ci.is_method(v.func.attr):
                if not self.returns_self(v.func.attr, depth + 1):
                    return False
            elif isinstance(v, _ast.Name) and v.id == fn.__code__.co_varnames[0]:
                continue
            else:
                return False
        return True


def _new_result(case_id, bounds):
    return {"case": case_id, "bounds": bounds, "queries": [], "violations": [], "inconclusive": [], "errors": [],
            "paths": 0, "functions": [], "twins": [], "validated": 0, "solver_s": 0.0, "stubs": list(STUBS),
            "assumptions": [], "samples": [], "states": 0, "transitions": 0, "lowering_traces": 0, "replays": 0}


def _check(s, extra, timeout_s):
    s.push()
    s.add(*extra)
    t = time.time()
    r = s.check()
    dt = time.time() - t
    m = s.model() if r == z3.sat else None
    s.pop()
    return str(r), m, dt


def _check_split(s, bm, main, extra, timeout_s):
    """the fault-class query decided fault instruction by fault instruction (fault index restricted to the sites of one
    instruction at a time): the disjunction of the sub-queries is the full query; far easier for the SAT core.
    -> (verdict, model, seconds, number of sub-queries)"""
    total, n = 0.0, 0
    unknown = False
    for ins in main.code:
        if ins.op != "fault":
            continue
        ids = [e[0] for e in ins.a]
        lo, hi = min(ids), max(ids)
        rng = z3.And(z3.UGE(bm.fk, z3.BitVecVal(lo, bm.fb)), z3.ULE(bm.fk, z3.BitVecVal(hi, bm.fb)))
        r, m, dt = _check(s, list(extra) + [rng], timeout_s)
        total += dt
        n += 1
        if r == "sat":
            return r, m, total, n
        if r == "unknown":
            unknown = True
    return ("unknown" if unknown else "unsat"), None, total, n


def _qhash(*parts):
    return hashlib.sha1(repr(parts).encode()).hexdigest()[:12]


def _normal_flow(prog):
    """pcs reachable without taking an exception edge"""
    seen, work = set(), [getattr(prog, "entry", 0)]
    while work:
        p = work.pop()
        if p in (thx.END, thx.ABORT) or p is None or p in seen or p >= len(prog.code):
            continue
        seen.add(p)
        i = prog.code[p]
        if i.op == "jmp":
            work.append(i.c)
        elif i.op in ("cj", "nd"):
            work += [i.c, p + 1]
        else:
            work.append(p + 1)
    return seen


def _prog_digest(main, cbs):
    def txt(prog):
        nf = _normal_flow(prog)

        def one(i):
            if i.op == "read":
                return "read(%s)" % i.b
            if i.op in ("write", "acq", "rel"):
                return "%s(%s)" % (i.op, i.a)
            if i.op == "new":
                return "new Timer->%s" % i.b
            return i.op
        a = " ; ".join(one(i) for k, i in enumerate(prog.code) if k in nf and i.op in thx.EVENT_OPS and i.op != "fault")
        b = " ; ".join(one(i) for k, i in enumerate(prog.code) if k not in nf and i.op in thx.EVENT_OPS and i.op != "fault")
        return a + ((" || exception handlers: " + b) if b else "")
    return ["caller: " + txt(main)] + ["callback %s: %s" % (n, txt(p)) for n, p in sorted(cbs.items())]


# ---------------------------------------------------------------------------------------
# H1
# ---------------------------------------------------------------------------------------
def h1_bounds(tier, ptype):
    if ptype != "bar":
        return [dict(u=2, T=2, Bcap=24)]
    if tier == "quick":
        return [dict(u=1, T=4, Bcap=64), dict(u=2, T=4, Bcap=56)]
    return [dict(u=1, T=5, Bcap=80), dict(u=2, T=4, Bcap=80), dict(u=3, T=4, Bcap=72)]


def h1_case_id(ptype, u, klass):
    return "H1/%s/u%d/%s" % (ptype, u, klass)


def h1_calls(u):
    return [("enter", ())] + [("update", (j,)) for j in range(u)] + [("exit", ())]


def run_h1(job):
    from vf import thx_replay
    ptype, u, T, Bcap, klass = job["ptype"], job["u"], job["T"], job["Bcap"], job["klass"]
    res = _new_result(job["id"], {})
    t0 = time.time()
    try:
        faults = job.get("faults")
        firing = job.get("firing", True)
        if job["kind"] == "S":
            util = sys.modules[__name__]
            low = Lowered(util, job["cls"], bool(faults))
        else:
            import oqupy.util as util
            low = Lowered(util, PTYPES[ptype], bool(faults))
        top = thx.toplevel_calls([("enter", ())] + [("update", (thx.OTHER,))] * u + [("exit", ())])
        body_raises = bool(job.get("body_raises"))
        use_with = (bool(faults) or body_raises) and low.ci.is_method("__enter__") and low.ci.is_method("__exit__")
        shape = "with" if use_with else (True if faults else False)
        if use_with:
            # `with obj as p: [fail?] p.update() [fail?] ...`: the class' REAL __enter__/__exit__ bodies are lowered and inlined;
            # __exit__ gets (None, None, None) on the normal path and non-None arguments on the exceptional path; where the body
            # fails is a free Boolean per step (nd jump to the handler), besides exceptions escaping from update() itself
            NN = ("const", True)          # stands for "some non-None object"
            code = [thx.Ins("call", "__enter__", ())]
            for _ in range(u):
                if body_raises:
                    code.append(thx.Ins("nd", c="H"))
                code.append(thx.Ins("call", "update", (thx.OTHER,), err="H"))
            if body_raises:
                code.append(thx.Ins("nd", c="H"))
            code += [thx.Ins("call", "__exit__", (("const", None),) * 3), thx.Ins("ret")]
            h = len(code)
            code += [thx.Ins("call", "__exit__", (NN, NN, NN)), thx.Ins("raise")]
            for i_ in code:
                if i_.c == "H":
                    i_.c = h
                if i_.err == "H":
                    i_.err = h
            top = thx.MethodIR("<with caller>", [], {}, code)
        elif faults:
            # classes without __enter__/__exit__ (self-tests): enter(); try: update()^u finally: exit()
            h = u + 3
            code = [thx.Ins("call", "enter", ())] + [thx.Ins("call", "update", (thx.OTHER,), err=h) for _ in range(u)] + \
                   [thx.Ins("call", "exit", ()), thx.Ins("ret"), thx.Ins("call", "exit", ()), thx.Ins("raise")]
            top = thx.MethodIR("<guarded caller>", [], {}, code)
        main, cbs, finit, attrs = low.programs(top)
        for nm in ("__enter__", "__exit__", "_print_status"):
            if low.ci.is_method(nm):
                low.resolver(nm)
        res["functions"] = sorted(set(low.functions))
        res["lowering_traces"] = low.ntraces
        res["errors"] += low.mismatch
        nnew = sum(1 for i in main.code if i.op == "new") + sum(1 for p in cbs.values() for i in p.code if i.op == "new")
        if not nnew:
            T = 0
        elif ptype != "bar":
            T, Bcap = max(T, 4), max(Bcap, 40)
        complete = thx.longest_path(main, 10 ** 6) + sum([T * (1 + max([thx.longest_path(p, 10 ** 6) for p in cbs.values()] + [0]))])
        B = min(Bcap, complete) if T else max(1, min(Bcap, thx.longest_path(main, 10 ** 6)))
        if not firing:
            B = max(1, min(Bcap, thx.longest_path(main, 10 ** 6)))
            complete = B
        res["bounds"] = {"progress_type": ptype, "updates_u": u, "timer_objects_T": T, "steps_B": B,
                         "B_covers_all_schedules_with_T_timers": bool(B >= complete), "schedule_class": klass,
                         "tracked_attributes": attrs, "locks": dict(low.ci.locks), "caller_events": len(main.events()),
                         "callback_events": {n: len(p.events()) for n, p in cbs.items()}}
        res["samples"].append({"case": res["case"], "lowered_event_programs": _prog_digest(main, cbs)})
        res["bounds"]["timer_construction_sites"] = nnew
        if low.mismatch:
            return res
        res["bounds"].update({"timers_fire": firing, "calls_that_may_raise": faults or "none", "fault_events_of_the_caller": sum(1 for i in main.code if i.op == "fault"),
                              "caller_shape": ("with obj as p: p.update()^u  (real __enter__/__exit__ bodies; body may fail: %s)" % body_raises) if use_with
                              else ("enter(); try: update()^u finally: exit()" if faults else "enter(); update()^u; exit()")})
        bm = thx.Bmc(main, cbs, finit, low.ci.locks, T, B, firing=firing, fault_any=faults)
        s = bm.build(job["timeout_s"])
        res["states"] = B + 1
        res["transitions"] = bm.transitions
        res["paths"] = 1
        seg = [x for x in main.segs if x[0] in ("exit", "__exit__")]
        # reachability twin: the caller can finish, and (bar) a re-arming callback can run to completion before that
        tw = [bm.reach_end()]
        nfs = sum(1 for i in main.code if i.op == "fault")
        if body_raises:
            tw.append(z3.Or(*[z3.And(bm.S[k]["mpc"] == bm.P(thx.ABORT), (bm.S[k]["nxt"] > 1) if T else z3.BoolVal(True)) for k in range(B + 1)]))
        elif faults and nfs:
            tw.append(z3.Or(*[z3.And(bm.S[k]["flt"], bm.S[k]["mpc"] == bm.P(thx.ABORT), (bm.S[k]["nxt"] > 1) if T else z3.BoolVal(True)) for k in range(B + 1)]))
        elif T:
            tw.append(z3.Or(*[z3.And(bm.S[k]["ts"][i] == thx.DONE, bm.S[k]["nxt"] > (2 if ptype == "bar" else 0)) for k in range(B + 1) for i in range(T)]))
        r, _, dt = _check(s, tw, job["timeout_s"])
        res["solver_s"] += dt
        res["twins"].append({"twin": "the with-body fails after two timers were created and the exception leaves the caller through __exit__" if body_raises else
                             ("a call inside update()/exit() raises after two timers were created and the exception leaves the caller"
                                      if faults else "caller completes" + (" and a callback thread ran to its end after re-arming" if T else "")), "result": r})
        if r != "sat":
            res["errors"].append("reachability twin not sat (%s): bound too small or model wrong" % r)
        side = [bm.any_violation(True if faults else None)]
        if body_raises:
            # the exceptional path: the caller left by the exception (the normal path is H1's)
            side = [z3.Or(*[z3.And(bm.violation(k), bm.S[k]["mpc"] == bm.P(thx.ABORT)) for k in range(B + 1)])]
        if klass == "A":
            side.append(bm.overlap(seg[0]))
        elif klass == "B":
            side.append(z3.Not(bm.overlap(seg[0])))
        r, m, dt = _check(s, side, job["timeout_s"])
        res["solver_s"] += dt
        if body_raises:
            qlabel = "no WAITING timer once `with progress(..) as p:` has been left by an exception raised in its body (symbolic point; real __exit__ body) [%s]" % klass
        elif faults:
            qlabel = "no WAITING timer once an exception raised by a print/format/write call of the progress methods has left the caller [%s]" % klass
        else:
            qlabel = "no WAITING timer once the caller has left and no callback runs [%s]" % klass
        q = {"label": qlabel, "result": r, "s": round(dt, 2),
             "trivial": False, "hash": _qhash("H1", ptype, u, T, B, klass, faults, firing, body_raises, [repr(i) for i in main.code])}
        res["queries"].append(q)
        if r == "unknown":
            res["inconclusive"].append({"label": q["label"], "why": "solver unknown/timeout"})
        if r == "sat":
            sched, final = bm.schedule(m)
            raise_at = None
            if body_raises:
                # where did the body fail?  = number of update() calls the caller had entered before the taken nd jump
                upd_segs = [x for x in main.segs if x[0] == "update" and x[1] is not None]
                entered = set()
                for st in sched:
                    if st["thread"] != "main":
                        continue
                    if st["op"] == "nd" and st.get("taken") and raise_at is None and not any(lo <= st["pc"] < hi for _, lo, hi in upd_segs):
                        raise_at = len(entered)
                    for n_, (_, lo, hi) in enumerate(upd_segs):
                        if lo <= st["pc"] < hi:
                            entered.add(n_)
            rr = thx_replay.replay_schedule(util, low.cls, attrs, list(low.ci.locks), h1_calls(u), sched, event_attrs=list(low.ci.events),
                                            fault_codes=low.codes() if faults else None, guarded=shape, raise_at=raise_at)
            res["replays"] += 1
            info = {"model_final": final, "replay": {k: rr[k] for k in ("leaked", "threads", "bytes_after_exit", "rearmed", "desync", "thread_exceptions", "caller_exception")},
                    "schedule": ["%s:%s%s" % (x["thread"], x["op"], ("!RAISES(%s in %s)" % (x.get("what"), (x.get("site") or ["?"])[0])) if x.get("raises") else "")
                                 for x in sched if not (x["op"] == "fault" and not x.get("raises"))]}
            values = {"kind": "H1", "ptype": ptype, "u": u, "schedule": sched, "attrs": attrs, "locks": list(low.ci.locks),
                      "events": list(low.ci.events), "cls": low.clsname, "selftest": job["kind"] == "S", "guarded": shape, "raise_at": raise_at, "faults": bool(faults)}
            if rr["leaked"] and not rr["desync"]:
                q["replayed"] = True
                vkey = "%s/H1f/%s/output-failure-leaves-timer" % (PROP, ptype) if faults else "%s/H1/%s/%s" % (PROP, ptype, H1_KEYS[klass])
                if body_raises:
                    vkey = "%s/H1w/%s/exit-on-exception-leaves-timer" % (PROP, ptype)
                res["violations"].append({"label": q["label"], "key": vkey, "magnitude": float(len(rr["leaked"])),
                                          "values": values, "found_by": "z3 model of the unrolled schedule, replayed with real threads: "
                                          "threading.enumerate() shows the surviving Timer (it wrote %d bytes after exit() and re-armed=%s)"
                                          % (rr["bytes_after_exit"], rr["rearmed"]), "info": info})
            else:
                q["replayed"] = False
                res["inconclusive"].append({"label": q["label"], "why": "model schedule does not reproduce on the real class", "info": info})
            res["samples"].append({"case": res["case"], "verdict": "sat", "schedule": info["schedule"], "final": final})
        else:
            res["samples"].append({"case": res["case"], "verdict": r, "query": q["label"], "B": B, "T": T})
    except thx.LoweringError as e:
        res["errors"].append("lowering: %s" % e)
    except Exception as e:  # noqa
        res["errors"].append("%s: %s\n%s" % (type(e).__name__, e, traceback.format_exc()[-1500:]))
    if job["kind"] == "S":
        # self-test: not a statement about /repo; the expectation must be met, otherwise the machinery is broken
        got = res["queries"][-1]["result"] if res["queries"] else "none"
        ok = got == job["expect"] and (got != "sat" or bool(res["violations"])) and not res["inconclusive"]
        if not ok:
            res["errors"].append("self-test %s: expected %s%s, got %s (replayed violations %d, inconclusive %d)"
                                 % (job["id"], job["expect"], " with a replaying schedule" if job["expect"] == "sat" else "", got,
                                    len(res["violations"]), len(res["inconclusive"])))
        res["samples"].append({"case": job["id"], "selftest": job["cls"], "expected": job["expect"], "got": got, "ok": ok})
        res["violations"] = []
        res["inconclusive"] = [] if ok else res["inconclusive"]
    res["wall_s"] = round(time.time() - t0, 2)
    return res


# ---------------------------------------------------------------------------------------
# H2
# ---------------------------------------------------------------------------------------
def api_short(qual):
    parts = qual.split(".")
    # oqupy.tempo.Tempo.compute -> Tempo.compute ; oqupy.system_dynamics.compute_dynamics -> compute_dynamics
    return ".".join(parts[2:]) if len(parts) > 3 else parts[-1]


def h2_case_id(qual, target, nprog):
    return "H2/%s%s" % (api_short(qual), "/bar%d" % (target + 1) if nprog > 1 else "")


def discover():
    import oqupy
    import oqupy.util as util
    out = []
    for qual, fn in thx.discover_apis(oqupy):
        if fn.__module__ == util.__name__:
            continue
        try:
            m0 = thx.lower_ast_api(fn, util, 0)
            n = m0.nprog
        except thx.LoweringError:
            n = 1
        for t in range(max(1, n)):
            out.append((qual, t, max(1, n)))
    return out


def _path_occurrence(mir, sched, fid):
    """dynamic occurrence (1-based) of the faulting site's call expression along the model's path"""
    by_id = {s.id: s for s in mir.sites}
    pos = by_id[fid].pos
    n = 0
    for st in sched:
        if st["op"] != "fault":
            continue
        for sid in st["sites"]:
            if by_id[sid].pos == pos:
                n += 1
            if sid == fid:
                return n
    return max(1, n)


def run_h2(job):
    import oqupy
    import oqupy.util as util
    from vf import thx_replay
    qual, target, nprog = job["api"], job["target"], job["nprog"]
    cid = h2_case_id(qual, target, nprog)
    res = _new_result(cid, {})
    t0 = time.time()
    try:
        fn = dict(thx.discover_apis(oqupy))[qual]
        low = Lowered(util, "ProgressBar")
        ers = low.returns_self("__enter__") if low.ci.is_method("__enter__") else True
        mir = thx.lower_ast_api(fn, util, target, unroll=2, enter_returns_self=ers)
        ncalls = sum(1 for i in mir.code if i.op == "call")
        if not ncalls:
            res["errors"].append("no progress call found for progress object %d of %s" % (target + 1, qual))
            return res
        main, cbs, finit, attrs = low.programs(mir)
        res["functions"] = sorted(set(low.functions + [_repo_rel(fn)]))
        res["lowering_traces"] = low.ntraces
        res["errors"] += low.mismatch
        if low.mismatch:
            return res
        T = sum(1 for i in main.code if i.op == "new")
        B = thx.longest_path(main)
        res["bounds"] = {"api": qual, "progress_object": target + 1, "progress_type": "bar", "loop_unroll": 2, "fault_sites": len(mir.sites),
                         "distinct_call_expressions": len({s.pos for s in mir.sites}), "timer_objects_T": T, "steps_B": B,
                         "caller_events": len(main.events()), "timers_fire": False}
        bm = thx.Bmc(main, cbs, finit, low.ci.locks, T, B, firing=False, nfault=len(mir.sites))
        s = bm.build(job["timeout_s"])
        res["states"] = B + 1
        res["transitions"] = bm.transitions
        res["paths"] = 1
        endpc, abortpc = bm.P(thx.END), bm.P(thx.ABORT)
        r1, _, dt1 = _check(s, [z3.Or(*[bm.S[k]["mpc"] == endpc for k in range(B + 1)]), bm.fk == bm.NOFAULT,
                                z3.Or(*[bm.S[B]["ts"][i] == thx.CANCELLED for i in range(T)]) if T else z3.BoolVal(True)], job["timeout_s"])
        r2, _, dt2 = _check(s, [z3.Or(*[z3.And(bm.S[k]["mpc"] == abortpc, z3.Or(*[x != thx.UNBORN for x in bm.S[k]["ts"]]) if T else z3.BoolVal(True))
                                        for k in range(B + 1)]), bm.fk != bm.NOFAULT], job["timeout_s"])
        res["solver_s"] += dt1 + dt2
        res["twins"] += [{"twin": "function returns normally, a timer was armed and cancelled", "result": r1},
                         {"twin": "an injected fault escapes the function after the progress object was entered", "result": r2}]
        if r1 != "sat" or r2 != "sat":
            res["errors"].append("reachability twin not sat (%s/%s)" % (r1, r2))
        # validation of the AST lowering against the implementation: the call sequence of a real fault-free run
        # must be a path of the lowered control-flow graph (lowered once more with real loops)
        dry = None
        driver = thx_replay.DRIVERS.get(qual)
        if driver is not None:
            dry = thx_replay.run_api(driver, fn, "record", None, "silent")
            if dry["exception"]:
                res["errors"].append("replay driver for %s fails without fault: %s" % (qual, dry["exception"]))
            else:
                mloop = thx.lower_ast_api(fn, util, target, unroll=None, enter_returns_self=ers)
                ok, nm, nig = thx.accepts(mloop, dry["seq"])
                res["bounds"]["real_run_calls_matched"] = nm
                if ok:
                    res["validated"] += 1
                else:
                    res["errors"].append("AST lowering of %s does not accept the call sequence of a real run (matched %d of %d calls, %d ignored)"
                                         % (qual, nm, len(dry["seq"]), nig))
        for klass in ("fault", "nofault"):
            side = [bm.any_violation(True)] if klass == "fault" else [bm.any_violation(False), bm.fk == bm.NOFAULT]
            label = "no WAITING timer after the call has %s" % ("raised (fault index symbolic over %d sites)" % len(mir.sites) if klass == "fault" else "returned")
            r, m, dt = _check(s, side, job["timeout_s"])
            res["solver_s"] += dt
            q = {"label": label, "result": r, "s": round(dt, 2), "trivial": False,
                 "hash": _qhash("H2", qual, target, klass, [repr(i) for i in main.code])}
            res["queries"].append(q)
            if r == "unknown":
                res["inconclusive"].append({"label": label, "why": "solver unknown/timeout"})
                continue
            if r != "sat":
                res["samples"].append({"case": cid, "verdict": r, "query": label, "fault_sites": len(mir.sites), "B": B})
                continue
            if driver is None or dry is None or dry["exception"]:
                res["inconclusive"].append({"label": label, "why": "no working replay driver for %s" % qual})
                continue
            key = "%s/%s/%s" % (PROP, cid, "no-finally" if klass == "fault" else "exit-skipped-on-normal-path")
            if klass == "nofault":
                sched, final = bm.schedule(m)
                hit = None
                for variant in thx_replay.VARIANTS.get(qual, [{}]):
                    rr = thx_replay.run_api(driver, fn, "record", None, "bar", variant)
                    res["replays"] += 1
                    info = {"model_final": final, "variant": variant, "replay": {k: rr[k] for k in ("exception", "timers_alive", "threads", "returned")}}
                    if rr["returned"] and rr["timers_alive"]:
                        hit = rr
                        break
                if hit:
                    q["replayed"] = True
                    res["violations"].append({"label": label, "key": key, "magnitude": float(len(rr["timers_alive"])),
                                              "values": {"kind": "H2", "api": qual, "target": target, "mode": "nofault", "variant": variant},
                                              "found_by": "z3 model (path without fault), replayed through the public API %s: timer alive after a normal return: %s"
                                              % (variant or "", rr["timers_alive"]), "info": info})
                    res["samples"].append({"case": cid, "verdict": "sat", "path": ["%s" % x["op"] for x in sched], "timers_alive": rr["timers_alive"]})
                else:
                    q["replayed"] = False
                    res["inconclusive"].append({"label": label, "why": "model (a path through the function on which exit() is skipped) was not "
                                                "reproduced by the replay driver's argument variants", "info": info})
                continue
            # fault class: prefer a site underneath which a user callable runs (dry run with progress 'silent')
            by_id = {x.id: x for x in mir.sites}

            def skey(site):
                return (site.pos[2], site.pos[3])
            user_keys = {k for (k, n) in dry["reach"]}
            tiers_ = [[x.id for x in mir.sites if skey(x) in user_keys],
                      [x.id for x in mir.sites if skey(x) in dry["counts"]], None]
            done = False
            excluded = []
            for allowed in tiers_:
                if done:
                    break
                for _try in range(6):
                    cons = list(side) + [bm.fk != e for e in excluded]
                    if allowed is not None:
                        ok = [i for i in allowed if i not in excluded]
                        if not ok:
                            break
                        cons.append(z3.Or(*[bm.fk == i for i in ok]))
                    r_, m_, dt_ = _check(s, cons, job["timeout_s"])
                    res["solver_s"] += dt_
                    if r_ != "sat":
                        break
                    sched, final = bm.schedule(m_)
                    fid = m_.eval(bm.fk, model_completion=True).as_long()
                    site = by_id[fid]
                    occ = _path_occurrence(mir, sched, fid)
                    k_ = skey(site)
                    if allowed is not None and dry["counts"].get(k_, 0) < occ:
                        excluded.append(fid)
                        continue
                    mode = "user" if (k_, occ) in dry["reach"] else "direct"
                    rr = thx_replay.run_api(driver, fn, mode, (k_, occ), "bar")
                    res["replays"] += 1
                    info = {"fault_site": site.as_dict(), "occurrence": occ, "injection": rr["fired"], "model_final": final,
                            "replay": {k: rr[k] for k in ("exception", "timers_alive", "threads", "cleanup_ok")},
                            "path": ["%s%s" % (x["op"], "!" if x.get("raises") else "") for x in sched]}
                    if rr["fired"] and rr["exception"] and rr["exception"].startswith("FaultInjected") and rr["timers_alive"]:
                        q["replayed"] = True
                        res["violations"].append({"label": label, "key": key, "magnitude": float(len(rr["timers_alive"])),
                                                  "values": {"kind": "H2", "api": qual, "target": target, "mode": mode, "site_key": list(k_), "occurrence": occ},
                                                  "found_by": "z3 model (fault index + path), replayed through the public API with progress_type='bar': "
                                                  "%s raised at `%s` (line %d), threading.enumerate() shows %s" % (rr["fired"], site.label, site.line, rr["timers_alive"]),
                                                  "info": info})
                        res["samples"].append({"case": cid, "verdict": "sat", "fault_site": site.label, "line": site.line, "occurrence": occ,
                                               "injection": rr["fired"], "timers_alive": rr["timers_alive"]})
                        done = True
                        break
                    excluded.append(fid)
                    last_info = info
            if not done:
                q["replayed"] = False
                res["inconclusive"].append({"label": label, "why": "no model reproduced on the real code", "info": locals().get("last_info")})
    except thx.LoweringError as e:
        res["errors"].append("lowering: %s" % e)
    except Exception as e:  # noqa
        res["errors"].append("%s: %s\n%s" % (type(e).__name__, e, traceback.format_exc()[-1500:]))
    res["wall_s"] = round(time.time() - t0, 2)
    return res


# ---------------------------------------------------------------------------------------
# H3: concurrent.futures executors must be shut down when the API call is left
# ---------------------------------------------------------------------------------------
def discover_exec():
    import oqupy
    return thx.discover_executor_chains(oqupy)


def h3_case_id(ch):
    return "H3/%s/%s" % (api_short(ch["top"]), api_short(ch["site"]))


def run_h3(job):
    import oqupy
    import oqupy.util as util
    from vf import thx_replay
    res = _new_result(job["id"], {})
    t0 = time.time()
    try:
        ch = [c for c in discover_exec() if h3_case_id(c) == job["id"].replace("/unroll2", "")][0]
        chain = ch["chain"]
        cache, pathcls, mirs = {}, {"self": ch["top_cls"]}, {}

        def resolver(key):
            path, name = key.split("|")
            if key not in cache:
                f, cls, q = chain[name]
                pathcls[path] = cls
                cache[key] = thx.lower_ast_exec(f, cls, util, chain, path, 1)
                mirs[cache[key].name] = (cache[key], f)
            return cache[key]
        top = thx.lower_ast_exec(ch["top_fn"], ch["top_cls"], util, chain, "self", job.get("unroll", 1))
        mirs[top.name] = (top, ch["top_fn"])
        main = thx.link(ch["top"], top, resolver, renumber=True)
        sites = list(main.sites)
        attrs = thx.slice_programs([main])
        main = thx.merge_faults(thx.compact(main))
        res["functions"] = sorted({_repo_rel(v[1]) for v in mirs.values()})
        finit = {}
        for a in attrs:
            path, nm = a.split("::")
            finit[a] = thx.init_consts(pathcls.get(path)).get(nm, thx.OTHER)
        T = thx.max_news(main)
        B = thx.longest_path(main)
        res["bounds"] = {"executor_site": ch["site"], "api": ch["top"], "call_chain": sorted(chain), "loop_unroll": "%d in the API function, 1 in callees" % job.get("unroll", 1),
                         "fault_sites": len(sites), "executor_objects_T": T, "steps_B": B, "tracked_attributes": sorted(attrs)}
        empty = thx.Program("<executor>")
        empty.entry = thx.END
        bm = thx.Bmc(main, {"<executor>": empty}, finit, {}, T, B, firing=False, nfault=len(sites))
        s = bm.build(job["timeout_s"])
        res["states"], res["transitions"], res["paths"] = B + 1, bm.transitions, 1
        r1, _, dt1 = _check(s, [bm.S[B]["mpc"] == bm.P(thx.END), bm.fk == bm.NOFAULT, z3.Or(*[bm.S[B]["ts"][i] == thx.CANCELLED for i in range(T)])], job["timeout_s"])
        r2, _, dt2 = _check(s, [bm.S[B]["mpc"] == bm.P(thx.ABORT), bm.S[B]["flt"], z3.Or(*[bm.S[B]["ts"][i] == thx.CANCELLED for i in range(T)])], job["timeout_s"])
        res["solver_s"] += dt1 + dt2
        res["twins"] += [{"twin": "the API call returns after an executor was used and shut down", "result": r1},
                         {"twin": "an injected fault leaves the API call after an executor was used", "result": r2}]
        if r1 != "sat" or r2 != "sat":
            res["errors"].append("reachability twin not sat (%s/%s)" % (r1, r2))
        driver = thx_replay.EXEC_DRIVERS.get(ch["top"])
        dries = {}

        def dry(fn):
            if fn not in dries:
                dries[fn] = thx_replay.run_api(driver, fn, "record", None, "silent")
            return dries[fn]
        site_by_id = {x[0]: x for x in sites}

        def site_obj(nid):
            _, _, _, origin, oid = site_by_id[nid]
            mir, fn = mirs[origin]
            return [x for x in mir.sites if x.id == oid][0], fn
        for klass in ("fault", "nofault"):
            # sequential system: once the caller has left nothing changes any more, so the last state decides
            side = [bm.violation(B), bm.S[B]["flt"]] if klass == "fault" else [bm.violation(B), z3.Not(bm.S[B]["flt"]), bm.fk == bm.NOFAULT]
            label = "every executor constructed during the call is shut down when the call %s" % (
                "raises (fault index symbolic over %d call sites of the chain)" % len(sites) if klass == "fault" else "returns")
            key = "%s/%s/%s" % (PROP, job["id"], "executor-left-running-on-exception" if klass == "fault" else "executor-left-running")
            if klass == "fault":
                r, m, dt, nsub = _check_split(s, bm, main, side, job["timeout_s"])
            else:
                r, m, dt = _check(s, side, job["timeout_s"])
                nsub = 1
            res["solver_s"] += dt
            q = {"label": label, "result": r, "s": round(dt, 2), "trivial": False, "sub_queries": nsub,
                 "hash": _qhash("H3", job["id"], klass, [repr(i) for i in main.code])}
            res["queries"].append(q)
            if r == "unknown":
                res["inconclusive"].append({"label": label, "why": "solver unknown/timeout"})
                continue
            if r != "sat":
                res["samples"].append({"case": job["id"], "verdict": r, "query": label, "B": B, "executor_objects": T})
                continue
            if driver is None:
                res["inconclusive"].append({"label": label, "why": "no replay driver for %s" % ch["top"]})
                continue
            if klass == "nofault":
                sched, final = bm.schedule(m)
                rr = thx_replay.run_api(driver, ch["top_fn"], "record", None, "bar")
                res["replays"] += 1
                info = {"model_final": final, "replay": {k: rr[k] for k in ("exception", "other_threads_alive", "threads", "returned")},
                        "path": [x["op"] for x in sched if x["op"] != "fault"]}
                if rr["returned"] and rr["other_threads_alive"]:
                    q["replayed"] = True
                    res["violations"].append({"label": label, "key": key, "magnitude": float(len(rr["other_threads_alive"])),
                                              "values": {"kind": "H3", "top": ch["top"], "mode": "nofault"},
                                              "found_by": "z3 model (path through %s), replayed: real PtTebd run with backend_config={'parallel': 'multithread'}; "
                                              "threading.enumerate() after the return shows %s" % (" -> ".join(sorted(chain)), rr["other_threads_alive"][:3]),
                                              "info": info})
                    res["samples"].append({"case": job["id"], "verdict": "sat", "path": info["path"], "threads_alive": rr["other_threads_alive"]})
                else:
                    q["replayed"] = False
                    res["inconclusive"].append({"label": label, "why": "model does not reproduce on the real code", "info": info})
                continue
            done, excluded, last = False, [], None
            for prefer in (True, False):
                if done:
                    break
                for _try in range(8):
                    cons = list(side) + [bm.fk != e for e in excluded]
                    r_, m_, dt_ = _check(s, cons, job["timeout_s"])
                    res["solver_s"] += dt_
                    if r_ != "sat":
                        break
                    sched, final = bm.schedule(m_)
                    fid = m_.eval(bm.fk, model_completion=True).as_long()
                    site, fn = site_obj(fid)
                    k_ = (site.pos[2], site.pos[3])
                    occ = 0
                    for st in sched:
                        if st["op"] == "fault":
                            for sid in st["sites"]:
                                so, f2 = site_obj(sid)
                                if f2 is fn and so.pos == site.pos:
                                    occ += 1
                                if sid == fid:
                                    break
                            if fid in st["sites"]:
                                break
                    occ = max(1, occ)
                    d = dry(fn)
                    if prefer and d["counts"].get(k_, 0) < occ:
                        excluded.append(fid)
                        continue
                    rr = thx_replay.run_api(driver, fn, "direct", (k_, occ), "bar")
                    res["replays"] += 1
                    last = {"fault_site": site.as_dict(), "in": fn.__qualname__, "occurrence": occ, "model_final": final,
                            "replay": {k: rr[k] for k in ("exception", "other_threads_alive", "threads", "fired")}}
                    if rr["fired"] and rr["exception"] and rr["other_threads_alive"]:
                        q["replayed"] = True
                        res["violations"].append({"label": label, "key": key, "magnitude": float(len(rr["other_threads_alive"])),
                                                  "values": {"kind": "H3", "top": ch["top"], "mode": "direct", "fn": fn.__qualname__, "site_key": list(k_), "occurrence": occ},
                                                  "found_by": "z3 model (fault index + path), replayed: real multithread PtTebd run, `%s` (line %d of %s) raises; "
                                                  "threading.enumerate() after the exception shows %s" % (site.label, site.line, fn.__qualname__, rr["other_threads_alive"][:3]),
                                                  "info": last})
                        res["samples"].append({"case": job["id"], "verdict": "sat", "fault_site": site.label, "in": fn.__qualname__, "threads_alive": rr["other_threads_alive"]})
                        done = True
                        break
                    excluded.append(fid)
            if not done:
                q["replayed"] = False
                res["inconclusive"].append({"label": label, "why": "no model reproduced on the real code", "info": last})
    except thx.LoweringError as e:
        res["errors"].append("lowering: %s" % e)
    except Exception as e:  # noqa
        res["errors"].append("%s: %s\n%s" % (type(e).__name__, e, traceback.format_exc()[-1500:]))
    res["wall_s"] = round(time.time() - t0, 2)
    return res


# ---------------------------------------------------------------------------------------
# driver
# ---------------------------------------------------------------------------------------
def jobs_for(tier):
    tmo = 150 if tier == "quick" else 1500
    jobs = []
    for ptype in ("bar", "simple", "silent"):
        for b in h1_bounds(tier, ptype):
            for klass in (("A", "B") if ptype == "bar" else ("any",)):
                jobs.append(dict(kind="H1", ptype=ptype, klass=klass, timeout_s=tmo, **b))
    # H1w: the caller is a real `with` statement whose body may fail at a symbolic point: the class' own __enter__/__exit__
    # bodies (lowered from the current source like every other method) run, interleaved with the timer callbacks
    for b in ([dict(u=1, T=4, Bcap=64)] if tier == "quick" else [dict(u=1, T=4, Bcap=80), dict(u=2, T=4, Bcap=72)]):
        jobs.append(dict(kind="H1w", ptype="bar", klass="any", body_raises=True, firing=True, timeout_s=tmo, **b))
    for ptype in ("simple", "silent"):
        jobs.append(dict(kind="H1w", ptype=ptype, klass="any", body_raises=True, firing=True, timeout_s=tmo, u=2, T=2, Bcap=24))
    # H1f: calls without protocol meaning inside the progress methods (print, str.format, file.write/flush, ...) may raise
    for ptype in ("bar", "simple", "silent"):
        jobs.append(dict(kind="H1f", ptype=ptype, klass="any", u=2, T=4, Bcap=200, faults="caller", firing=False, timeout_s=tmo, tag="seq"))
    # ... also interleaved with the timer callbacks (small bound: the search over "which call raises when" is expensive)
    jobs.append(dict(kind="H1f", ptype="bar", klass="any", u=1, T=2, Bcap=40, faults="caller", firing=True, timeout_s=tmo, tag="conc"))
    if tier != "quick":
        jobs.append(dict(kind="H1f", ptype="bar", klass="any", u=1, T=3, Bcap=50, faults="all", firing=True, timeout_s=tmo, tag="conc-T3"))
    for qual, t, n in discover():
        jobs.append(dict(kind="H2", api=qual, target=t, nprog=n, timeout_s=tmo))
    for ch in discover_exec():
        jobs.append(dict(kind="H3", id=h3_case_id(ch), timeout_s=tmo, unroll=1))
        if tier != "quick":
            jobs.append(dict(kind="H3", id=h3_case_id(ch) + "/unroll2", timeout_s=tmo, unroll=2))
    for name, cls, expect in SELFTESTS:
        jobs.append(dict(kind="S", ptype="bar", klass="any", cls=cls, expect=expect, u=1, T=3, Bcap=48, timeout_s=tmo, selftest=name))
    for name, cls, expect in SELFTESTS_F:
        jobs.append(dict(kind="S", ptype="bar", klass="any", cls=cls, expect=expect, u=1, T=3, Bcap=200, timeout_s=tmo, selftest=name,
                         faults="caller", firing=False))
    for j in jobs:
        if j["kind"] == "H1":
            j["id"] = h1_case_id(j["ptype"], j["u"], j["klass"])
        elif j["kind"] == "H1w":
            j["id"] = "H1w/%s/u%d" % (j["ptype"], j["u"])
        elif j["kind"] == "H1f":
            j["id"] = "H1f/%s/u%d/%s" % (j["ptype"], j["u"], j["tag"])
        elif j["kind"] == "S":
            j["id"] = "selftest/%s" % j["selftest"]
        elif j["kind"] == "H3":
            pass
        else:
            j["id"] = h2_case_id(j["api"], j["target"], j["nprog"])
    return jobs


def _run_job(job):
    warnings.simplefilter("ignore")
    if os.environ.get("VF_VERBOSE"):
        print("[start] %s" % job["id"], file=sys.stderr, flush=True)
    r = run_h1(job) if job["kind"] in ("H1", "H1f", "H1w", "S") else (run_h3(job) if job["kind"] == "H3" else run_h2(job))
    if os.environ.get("VF_VERBOSE"):
        print("[done ] %s %.1fs %s viol=%d err=%d inc=%d" % (job["id"], r.get("wall_s", 0), [q["result"] for q in r["queries"]],
              len(r["violations"]), len(r["errors"]), len(r["inconclusive"])), file=sys.stderr, flush=True)
    return r


def main(tier, seed, args):
    t0 = time.time()
    warnings.simplefilter("ignore")
    jobs = jobs_for(tier)
    only = getattr(args, "only", None)
    if only:
        jobs = [j for j in jobs if any(o in j["id"] for o in only)]
    # longest first
    jobs.sort(key=lambda j: (0 if j["kind"] == "H1" and j["ptype"] == "bar" else 1, j["id"]))
    nproc = getattr(args, "jobs", None) or min(16, max(1, len(jobs)))
    results = []
    if nproc == 1 or len(jobs) <= 1:
        for j in jobs:
            results.append(_run_job(j))
    else:
        ctx = mp.get_context("fork")
        with ctx.Pool(nproc, maxtasksperchild=1) as pool:
            for r in pool.imap_unordered(_run_job, jobs, chunksize=1):
                results.append(r)
    results.sort(key=lambda r: r["case"])
    mod = sys.modules[__name__]
    rc = core.finish(PROP, mod, tier, seed, results, time.time() - t0)
    # model-checking keys of the evidence file
    path = os.path.join(core.ROOT, "evidence", PROP + ".json")
    ev = json.load(open(path))
    cov = ev["coverage"]
    cov["states"] = int(sum(r["states"] for r in results))
    cov["transitions"] = int(sum(r["transitions"] for r in results))
    cov["traces_validated_against_impl"] = int(sum(r["replays"] + r["validated"] for r in results))
    cov["lowering_traces_cross_checked"] = int(sum(r["lowering_traces"] for r in results))
    cov["explanation"] = ("states = symbolic state vectors of all unrolled systems (sum over queries of B+1); transitions = guarded-command "
                          "instances in the unrollings (one per event instruction / timer firing per thread per step); "
                          "traces_validated_against_impl = solver models replayed on the real code with real threads + real fault-free runs of each API whose "
                          "executed call sequence (sys.monitoring) was checked to be a path of the lowered control-flow graph; "
                          "lowering_traces_cross_checked = event traces of the progress methods on which the bytecode lowering and the "
                          "independent AST lowering were compared")
    samples = [s for r in results for s in r["samples"]]
    sat = [s for s in samples if s.get("verdict") == "sat"]
    cov["samples"] = (sat[:4] + [s for s in samples if s.get("verdict") != "sat"][:6]) or cov["samples"]
    cov["cases"] = [dict(c, bounds=r["bounds"]) for c, r in zip(cov["cases"], results)]
    json.dump(ev, open(path, "w"), indent=1, default=str)
    return rc


# ---------------------------------------------------------------------------------------
# `./check C19 --replay file`
# ---------------------------------------------------------------------------------------
class ReplayCase(Case):
    validate = False

    def __init__(self, cid):
        self.id = cid

    def run(self, inp):
        import oqupy
        import oqupy.util as util
        from vf import thx_replay
        v = inp.values
        if v.get("kind") == "H1":
            mod = sys.modules[__name__] if v.get("selftest") else util
            cls = getattr(mod, v.get("cls") or PTYPES[v["ptype"]])
            codes = None
            if v.get("faults", v.get("guarded") is True):
                import inspect
                codes = {}
                for nm in dir(cls):
                    f = inspect.getattr_static(cls, nm, None)
                    if inspect.isfunction(f):
                        codes[nm] = f.__code__
            rr = thx_replay.replay_schedule(mod, cls, v["attrs"], v["locks"], h1_calls(int(v["u"])), v["schedule"], event_attrs=v.get("events", ()),
                                            fault_codes=codes, guarded=v.get("guarded"), raise_at=v.get("raise_at"))
            print("replay: leaked timers %s threads %s desync %s" % (rr["leaked"], rr["threads"], rr["desync"]))
            return [Ob.holds("no timer survives the schedule", not rr["leaked"])]
        if v.get("kind") == "H3":
            ch = [c for c in discover_exec() if c["top"] == v["top"]][0]
            driver = thx_replay.EXEC_DRIVERS[v["top"]]
            if v["mode"] == "nofault":
                rr = thx_replay.run_api(driver, ch["top_fn"], "record", None, "bar")
            else:
                fn = [f for f, c, q in ch["chain"].values() if f.__qualname__ == v["fn"]][0]
                rr = thx_replay.run_api(driver, fn, "direct", (tuple(v["site_key"]), int(v["occurrence"])), "bar")
            print("replay: exception %s threads alive %s" % (rr["exception"], rr["other_threads_alive"]))
            return [Ob.holds("no executor thread alive after the call", not rr["other_threads_alive"])]
        fn = dict(thx.discover_apis(oqupy))[v["api"]]
        driver = thx_replay.DRIVERS[v["api"]]
        if v.get("mode") == "nofault":
            rr = thx_replay.run_api(driver, fn, "record", None, "bar", v.get("variant") or {})
        else:
            rr = thx_replay.run_api(driver, fn, v["mode"], (tuple(v["site_key"]), int(v["occurrence"])), "bar")
        print("replay: exception %s timers alive %s" % (rr["exception"], rr["timers_alive"]))
        return [Ob.holds("no timer alive after the call", not rr["timers_alive"])]


def cases(tier):
    out = []
    for t in ("quick", "thorough"):
        for j in jobs_for(t):
            if j["id"] not in [c.id for c in out]:
                out.append(ReplayCase(j["id"]))
    return out
