"""C11 -- the Gibbs-state computation returns the exact reduced thermal state (partial).

Decided here (zero coupling / structure of the Python layer):
H1  orientation at zero coupling.  The real GibbsTempo (constructor, _prepare_backend,
    compute, get_dynamics, get_state) and the real TIBaseBackend (initialise,
    _influence_tensor, _contract, _truncate_left/right, compute_step, readout) run with
    a bath of coupling strength alpha = 0 (all Matsubara coefficients are then the
    concrete number 0), a symbolic complex Hermitian Hamiltonian H and
    scipy.linalg.expm replaced by a stub F whose value G = F(-H/(2 T n)) is a fresh
    symbolic complex Hermitian matrix.  Glue (mathematics, not checked):
    F(A)^(2n) = exp(2 n A).  Asserted: the argument handed to expm is -H/(2Tn) (not
    transposed), the final state equals (G.G)^n in the matrix orientation of
    exp(-H/T), and get_state() is that matrix divided by its trace.
H2  repeating compute() on the same object returns the same state.
H3  get_state() has unit trace whenever the trace is non-zero; the Matsubara
    coefficients handed to the back-end are real and are the documented cells
    (eta function uninterpreted); the state is Hermitian for Hermitian G and real
    coefficients at arbitrary (symbolic) coupling.
H4  degeneracy reduction: TIBaseBackend._unique on symbolic values (all coincidence
    patterns) returns first-occurrence representatives and the matching 0/1 projector; for
    coupling operators with repeated eigenvalues (d=3, d=4) and symbolic coefficients the
    back-end states equal those of the same network without reduction.
H5  truncation rule: TIBaseBackend._scipy_svd on symbolic singular values keeps the same
    rank for s and c*s (relative threshold) and keeps every value with s_i/s_max >= precision.
Outside: equality with the exact reduced thermal state at non-zero coupling,
independence of n_steps, weak-coupling limit, positivity.
"""
import numpy as np
import z3

import oqupy
import oqupy.tempo as tempo_mod
from oqupy.backends.tempo_backend import TIBaseBackend

from vf.core import Case, Ob
from vf import env, sym
from vf.sym import S

ASSUMPTIONS = [
    "exact real/complex arithmetic (floating-point rounding outside the claim)",
    "scipy.linalg.expm is a stub F: F(A) is a fresh symbolic matrix, Hermitian for Hermitian A; the group law "
    "F(A)^(2n) = exp(2nA) that links (G.G)^n to exp(-H/T) is mathematical glue",
    "scipy.linalg.svd contract: u.diag(s).vh = M with no singular value discarded (epsrel -> 0)",
]

TEMPERATURE = 0.5
STUB_EXPM = "oqupy.system.expm -> F(argument): fresh symbolic (Hermitian) matrix, argument recorded"
STUB_EIG = ("np.linalg.eigh in oqupy.system (only if the implementation diagonalises H) -> (w, V) of H = V diag(w) V^+ with a concrete "
            "rational unitary V; np.exp there -> uninterpreted per argument; nothing replaced on the real stack")
STUB_SVD = "oqupy.backends.tempo_backend.svd -> exact non-truncating factorisation with a fixed complex gauge: M = (M X^-1).1.X resp. X.1.(X^-1 M), X = 1 + iN"


def _amax(a, *args, **kw):
    """numpy.amax of the stub's singular values (all concretely 1) as a plain float, so that
    `singular_values / amax(singular_values) < precision` stays concrete"""
    a = np.asarray(a)
    if a.dtype != object:
        return np.amax(a, *args, **kw)
    vals = [S.of(v) for v in a.reshape(-1)]
    if not all(v.is_concrete() and v.im == 0 for v in vals):
        raise TypeError("amax of symbolic values")
    return float(max(v.re for v in vals))


def _gauge(n):
    """fixed concrete invertible COMPLEX matrix with an exact inverse: X = 1 + i N (N = ones
    on the first superdiagonal), X^-1 = sum_k (-i N)^k"""
    X, Xi = sym.obj_eye(n), sym.obj_eye(n)
    for j in range(n):
        for k in range(1, n - j):
            if k == 1:
                X[j, j + 1] = S(0, 1)
            Xi[j, j + k] = S.of((-1j) ** k)
    return X, Xi


def _adversarial_svd(theta, *a, **kw):
    """stand-in for scipy.linalg.svd inside the documented contract u.diag(s).vh = theta
    only: BOTH factors complex and non-trivial, theta = (theta X^-1).1.X for tall theta,
    X.1.(X^-1 theta) otherwise.  (Orthonormality of u, vh is not provided: the value of the
    network must not depend on the gauge.)  A dagger instead of a transpose, or a factor
    absorbed on the wrong side, changes the result."""
    L, R = theta.shape
    ones = np.array([S(1)] * min(L, R), dtype=object)
    if L >= R:
        X, Xi = _gauge(R)
        return theta.dot(Xi), ones, X
    X, Xi = _gauge(L)
    return X, ones, Xi.dot(theta)


SYM_EXTRA = {"oqupy.backends.tempo_backend.amax": _amax, "oqupy.backends.tempo_backend.svd": _adversarial_svd}


def _install_array_division():
    """engine extension (kept local to this check): `ndarray / S`.  numpy defers to
    S.__rtruediv__ because of S.__array_priority__; the shared class only accepts scalars
    there.  GibbsTempo.get_state() computes `state / state.trace()`."""
    if getattr(S, "_c11_rdiv", False):
        return
    scalar_rdiv = S.__rtruediv__

    def __rtruediv__(self, o):
        if isinstance(o, np.ndarray) and o.shape != ():
            out = np.empty(o.shape, dtype=object)
            for idx in np.ndindex(*o.shape):
                out[idx] = S.of(o[idx]) / self
            return out
        return scalar_rdiv(self, o)
    S.__rtruediv__ = __rtruediv__
    S._c11_rdiv = True


_install_array_division()


def herm(inp, name, cplx=True, genuinely_complex=False, d=2):
    """d x d Hermitian matrix by construction (real symmetric if not cplx).
    genuinely_complex: imaginary part of the first off-diagonal != 0 (used for H so that H
    and H^T are distinguishable arguments of the expm stub; real H has its own cases)"""
    real_mode = inp.mode == "real"
    m = np.zeros((d, d), dtype=complex) if real_mode else np.empty((d, d), dtype=object)
    for i in range(d):
        m[i, i] = inp.real("%s_d%d" % (name, i))
    first = True
    for i in range(d):
        for j in range(i + 1, d):
            tag = "" if d == 2 else "%d%d" % (i, j)
            b = inp.real("%s_b%s" % (name, tag))
            if cplx:
                cc = inp.real("%s_c%s" % (name, tag), nonzero=(genuinely_complex and first))
            first = False
            if real_mode:
                m[i, j] = complex(b, cc if cplx else 0.0)
                m[j, i] = complex(b, -cc if cplx else 0.0)
            else:
                m[i, j] = S(b.re, cc.re) if cplx else b
                m[j, i] = S(b.re, -cc.re) if cplx else b
    return m


def mpow(M, k, inp):
    out = inp.const(np.identity(M.shape[0]))
    for _ in range(k):
        out = out @ M
    return out


def make_bath(alpha=0.0, d=2, coupling=None):
    """concrete real Bath (built outside the symbolic environment: Bath diagonalises its
    coupling operator with LAPACK); coupling S_z of spin (d-1)/2 unless a diagonal is given"""
    corr = oqupy.PowerLawSD(alpha=alpha, zeta=1, cutoff=1.0, cutoff_type="exponential", temperature=TEMPERATURE)
    diag = [(d - 1) / 2.0 - k for k in range(d)] if coupling is None else list(coupling)
    return oqupy.Bath(np.diag(np.array(diag, dtype=float)), corr)


def _valid_eq(a, b):
    """entrywise equality that holds for ALL values of the symbols (python bool)"""
    a, b = np.asarray(a), np.asarray(b)
    if a.shape != b.shape:
        return False
    if a.dtype != object and b.dtype != object:
        return bool(np.allclose(a, b, rtol=1e-12, atol=1e-12))
    ds = sym.neq_terms(a, b)
    if not ds:
        return True
    s = z3.Solver()
    s.set("timeout", 5000)
    s.add(z3.Or(*ds))
    return s.check() == z3.unsat


def _eq_cond(inp, a, b):
    """entrywise equality as an obligation condition (SB in symbolic mode, bool otherwise)"""
    a, b = np.asarray(a), np.asarray(b)
    if inp.mode == "real":
        return bool(np.allclose(a, b, rtol=1e-10, atol=1e-10))
    ds = sym.neq_terms(a, b)
    from vf.sym import SB
    return SB(z3.Not(z3.Or(*ds))) if ds else True


class EigRoute(Exception):
    """the implementation obtains the propagator by diagonalising H (np.linalg.eig*) instead
    of scipy expm: the generic-G parametrisation (H and G independent symbols, linked only by
    the expm stub) cannot serve it; the case is re-run with the eigen-compatible one"""


class _RaisingLinalg:
    def __getattr__(self, name):
        if name in ("eigh", "eig", "eigvalsh", "eigvals"):
            def f(*a, **k):
                raise EigRoute(name)
            return f
        return getattr(np.linalg, name)


class ExpTable:
    """exp on symbolic REAL arguments: one positive-agnostic real constant per argument,
    arguments identified by equality that is valid for all values (solver check)"""

    def __init__(self):
        self.items = []

    def get(self, arg):
        arg = S.of(arg)
        if arg.is_concrete() or not sym._isz(arg.im):
            return sym.sym_exp(arg)
        for a0, g in self.items:
            if _valid_eq(np.array([arg], dtype=object), np.array([a0], dtype=object)):
                return g
        g = S(z3.Real("expE_%d" % len(self.items)))
        self.items.append((arg, g))
        return g

    def exp(self, x):
        if isinstance(x, np.ndarray):
            if x.dtype != object:
                return np.exp(x)
            out = np.empty(x.shape, dtype=object)
            for idx in np.ndindex(*x.shape):
                out[idx] = self.get(x[idx])
            return out
        if isinstance(x, S):
            return self.get(x)
        return np.exp(x)


_V2 = {0: (3, 4, 5), 1: (5, 12, 13)}


def _unitary(inp, d, cplx, vsel=0):
    """concrete unitary with rational entries (exact in every mode): [[p, iq], [iq, p]]/r
    (real orthogonal [[p, -q], [q, p]]/r if not cplx), embedded in rows/cols (0, d-1)"""
    p, q, r = _V2[vsel]
    V = np.zeros((d, d), dtype=complex)
    for k in range(1, d - 1):
        V[k, k] = 1.0
    lo, hi = 0, d - 1
    V[lo, lo] = V[hi, hi] = p / r
    if cplx:
        V[lo, hi] = V[hi, lo] = 1j * q / r
    else:
        V[lo, hi], V[hi, lo] = -q / r, q / r
    if inp.mode == "real":
        return V
    out = np.empty((d, d), dtype=object)
    from fractions import Fraction
    for i in range(d):
        for j in range(d):
            z = V[i, j]
            re = Fraction(round(z.real * r), r)
            im = Fraction(round(z.imag * r), r)
            out[i, j] = S(re, im)
    return out


def _vdv(V, diag):
    """V diag(diag) V^dagger"""
    Vd = _dagger(V)
    n = V.shape[0]
    M = np.array([[V[i, k] * diag[k] for k in range(n)] for i in range(n)], dtype=V.dtype if V.dtype != object else object)
    return M.dot(Vd)


class Pair:
    """(H, G) for one GibbsTempo object and the stubs that go with it.

    generic: H and G independent symbolic Hermitian matrices; expm stub F(A0) = G,
        F(A0^T) = G^T for A0 = -H/(2Tn); np.linalg.eig* in oqupy.system raise EigRoute.
    eigen:   H = V diag(w) V^+ and G = V diag(g) V^+ with a CONCRETE rational unitary V,
        symbolic ascending spectrum w and g_k = exp(-w_k/(2Tn)) (uninterpreted per argument
        in the symbolic run, evaluated in the concrete modes).  Serves both routes: expm
        stub as above; np.linalg.eigh(H) -> (w, V), eigh(H^T) -> (w, conj V); np.exp in
        oqupy.system -> the same table.  On the real stack NOTHING is replaced."""

    def __init__(self, inp, n_steps, tag="", cplx=True, d=2, eigen=False, vsel=0, table=None, rotate=None, base=None):
        self.inp, self.n, self.eigen, self.d = inp, n_steps, eigen, d
        scale = -1.0 / (2.0 * TEMPERATURE * n_steps)
        if not eigen:
            self.H = herm(inp, "H" + tag, cplx, genuinely_complex=cplx, d=d)
            self.G = herm(inp, "G" + tag, cplx, genuinely_complex=cplx, d=d)
        else:
            self.table = table if table is not None else ExpTable()
            if base is None:
                w = [inp.real("w%s0" % tag)]
                for k in range(1, d):
                    dk = inp.real("w%s%d" % (tag, k), lo=0, nonzero=True)     # strictly ascending spectrum
                    w.append(w[-1] + dk)
                self.w = w
                self.V = _unitary(inp, d, cplx, vsel)
            else:                                   # rotated copy: same spectrum, V' = R V
                self.w = base.w
                self.V = rotate.dot(base.V)
            if inp.mode == "sym":
                g = [self.table.get(S.of(x) * S.of(scale)) for x in self.w]
            elif inp.mode == "frac":
                g = [sym.sym_exp(S.of(x) * S.of(scale)) for x in self.w]
            else:
                g = [float(np.exp(x * scale)) for x in self.w]
            self.g = g
            self.H = _vdv(self.V, self.w)
            self.G = _vdv(self.V, g)
        self.A0 = _scale(self.H, scale)
        self.calls = []

    # -- stand-ins ---------------------------------------------------------------
    def expm(self, arg):
        self.calls.append(arg)
        if _valid_eq(arg, self.A0):
            return self.G
        if _valid_eq(arg, self.A0.T):
            return self.G.T
        return self.G

    def eigh(self, M, UPLO="L"):
        M = np.asarray(M)
        wv = np.array(self.w, dtype=object)
        if _valid_eq(M, self.H):
            return wv, np.array(self.V)
        if _valid_eq(M, self.H.T):
            return wv, np.array([[S.of(x).conjugate_() for x in row] for row in self.V], dtype=object)
        raise AssertionError("harness: np.linalg.eigh called with a matrix that is neither H nor H^T")

    def patches(self):
        if self.eigen and self.inp.mode == "real":
            return {}
        if not self.eigen:
            return {"oqupy.system.expm": self.expm, "oqupy.system.np": env.NpProxy({"linalg": _RaisingLinalg()})}
        proxy_linalg = type("LinalgStub", (), {"eigh": staticmethod(self.eigh),
                                                "__getattr__": lambda s, name: getattr(np.linalg, name)})()
        return {"oqupy.system.expm": self.expm,
                "oqupy.system.np": env.NpProxy({"linalg": proxy_linalg, "exp": self.table.exp})}


def _gibbs(inp, n_steps, pair, bath):
    """real GibbsTempo on a real System / Bath / PowerLawSD with the stand-ins of `pair`"""
    with env.patched(pair.patches()):
        system = oqupy.System(pair.H)
        g = tempo_mod.GibbsTempo(system, bath, tempo_mod.GibbsParameters(n_steps, 1.0e-14))
    return g, pair.calls


class GibbsCase(Case):
    """cases that build a real GibbsTempo: run the body with the generic parametrisation;
    if the implementation diagonalises H, re-run it with the eigen-compatible one
    (`eigen=True` cases use the latter from the start, on either implementation)"""
    eigen = False

    def run(self, inp):
        if self.eigen:
            return self.body(inp, True)
        try:
            return self.body(inp, False)
        except EigRoute:
            return self.body(inp, True)


class Orient(GibbsCase):
    """H1: final state == (G.G)^n with the orientation of exp(-H/T)"""
    functions = ("GibbsTempo.__init__", "GibbsTempo._prepare_backend", "GibbsTempo.compute", "GibbsTempo.get_state",
                 "System.get_unitary_propagators", "TIBaseBackend.initialise", "compute_step", "readout", "_influence_tensor",
                 "_contract", "_truncate_left", "_truncate_right")
    stubs = (STUB_EXPM, STUB_SVD, STUB_EIG)
    env = {"extra": SYM_EXTRA}
    timeout_s = 300

    def __init__(self, n_steps, cplx=True, d=2, eigen=False, vsel=0):
        self.n, self.cplx, self.d, self.eigen, self.vsel = n_steps, cplx, d, eigen, vsel
        self.id = "H1/%s%s_n%d%s%s" % ("orient" if cplx else "real", "_eig" if eigen else "", n_steps, "" if d == 2 else "_d%d" % d,
                                       "" if vsel == 0 else "_v%d" % vsel)
        self.bounds = {"d": d, "n_steps": n_steps, "coupling": 0, "hamiltonian": "complex Hermitian" if cplx else "real symmetric",
                       "parametrisation": "H = V diag(w) V^+, concrete rational unitary V, symbolic spectrum" if eigen
                       else "generic symbolic (eigen-compatible one if the implementation diagonalises H)"}
        self.bath = make_bath(d=d)

    def body(self, inp, eigen):
        n = self.n
        pair = Pair(inp, n, cplx=self.cplx, d=self.d, eigen=eigen, vsel=self.vsel)
        g, calls = _gibbs(inp, n, pair, self.bath)
        dyn = g.compute(progress_type="silent")
        E = mpow(pair.G @ pair.G, n, inp)         # F(-H/(2Tn))^(2n)  (= exp(-H/T) by the group law)
        last = dyn.states[-1]
        return [Ob.eq("final state has the orientation of exp(-H/T)", last, E, key="state",
                      info="zero coupling: GibbsTempo returns the transpose of exp(-H/T) (propagator G = exp(-H/(2Tn)))")]


class Wiring(GibbsCase):
    """H1: what is handed to expm / to the back-end (holds irrespective of the orientation defect)"""
    functions = Orient.functions
    stubs = (STUB_EXPM, STUB_SVD)
    env = {"extra": SYM_EXTRA}

    def __init__(self, n_steps):
        self.n = n_steps
        self.id = "H1/wiring_n%d" % n_steps
        self.bounds = {"d": 2, "n_steps": n_steps, "coupling": 0}
        self.bath = make_bath()

    def body(self, inp, eigen):
        n = self.n
        pair = Pair(inp, n, eigen=eigen)
        H, G = pair.H, pair.G
        g, calls = _gibbs(inp, n, pair, self.bath)
        want = _scale(H, -1.0 / (2.0 * TEMPERATURE * n))
        obs = []
        for i, a in enumerate(calls[:2]):
            c1, c2 = _eq_cond(inp, a, want), _eq_cond(inp, a, want.T)
            obs.append(Ob.holds("expm argument %d is -H/(2 T n) (or its transpose, given back transposed)" % i,
                                (c1 | c2) if inp.mode == "sym" and not isinstance(c1, bool) else (c1 or c2)))
        dyn = g.compute(progress_type="silent")
        E = mpow(G @ G, n, inp)
        last = dyn.states[-1]
        # orientation-independent facts
        obs.append(Ob.eq("trace of the final state", last[0, 0] + last[1, 1], E[0, 0] + E[1, 1]))
        obs.append(Ob.eq("diagonal of the final state", np.array([last[0, 0], last[1, 1]]), np.array([E[0, 0], E[1, 1]])))
        obs.append(Ob.eq("product of the off-diagonals", last[0, 1] * last[1, 0], E[0, 1] * E[1, 0]))
        obs.append(Ob.holds("number of recorded states", len(dyn.states) == n + 1))
        obs.append(Ob.holds("imaginary times", all(abs(t - k / (TEMPERATURE * n)) < 1e-12 for k, t in enumerate(dyn.times))))
        return obs


class Repeat(GibbsCase):
    """H2: compute(); compute() leaves get_state() unchanged"""
    functions = Orient.functions
    stubs = (STUB_EXPM, STUB_SVD)
    env = {"extra": SYM_EXTRA}
    timeout_s = 300

    def __init__(self, n_steps):
        self.n = n_steps
        self.id = "H2/repeat_n%d" % n_steps
        self.bounds = {"d": 2, "n_steps": n_steps, "coupling": 0, "compute_calls": 2}
        self.bath = make_bath()

    def body(self, inp, eigen):
        n = self.n
        g, _ = _gibbs(inp, n, Pair(inp, n, cplx=False, eigen=eigen), self.bath)
        g.compute(progress_type="silent")
        first = np.array(g.get_dynamics().states[-1], dtype=object if inp.mode != "real" else complex)
        nstates = len(g.get_dynamics().states)
        g.compute(progress_type="silent")
        second = g.get_dynamics().states[-1]
        return [Ob.eq("state after compute();compute() == state after compute()", second, first, key="state",
                      info="second GibbsTempo.compute() propagates n_steps-2 further imaginary-time steps"),
                Ob.holds("no further states recorded by the second call", len(g.get_dynamics().states) == nstates, key="length",
                         info="second GibbsTempo.compute() appends n_steps-2 further states")]


class Normalised(GibbsCase):
    """H3: get_state() == last recorded state / its trace, for an ARBITRARY last state with
    non-zero trace (the last state is planted into the Dynamics object of a really
    constructed and computed GibbsTempo); Hermitian if that state is Hermitian"""
    functions = ("GibbsTempo.get_state", "GibbsTempo.compute", "Dynamics.add")
    stubs = (STUB_EXPM, STUB_SVD)
    env = {"extra": SYM_EXTRA}

    def __init__(self, kind):
        self.kind = kind
        self.id = "H3/normalised_%s" % kind
        self.bounds = {"d": 2, "last_state": kind}
        self.bath = make_bath()

    def body(self, inp, eigen):
        from oqupy.dynamics import Dynamics
        g, _ = _gibbs(inp, 2, Pair(inp, 2, cplx=False, eigen=eigen), self.bath)
        g.compute(progress_type="silent")
        M = herm(inp, "M") if self.kind == "hermitian" else inp.arr("M", (2, 2), cplx=True)
        tr = M[0, 0] + M[1, 1]
        inp.assume(tr != 0)
        dyn = Dynamics()
        for t, st in zip(g.get_dynamics().times[:-1], g.get_dynamics().states[:-1]):
            dyn.add(t, st)
        dyn.add(g.get_dynamics().times[-1], M)
        g._dynamics = dyn
        gs = g.get_state()
        obs = [Ob.eq("get_state() * trace == last state", _scale(gs, tr), M),
               Ob.eq("unit trace", gs[0, 0] + gs[1, 1], inp.one())]
        if self.kind == "hermitian":
            obs.append(Ob.eq("Hermitian", gs, _dagger(gs)))
        return obs


# -- H3: coefficients and Hermiticity at arbitrary coupling --------------------------


class Coefficients(GibbsCase):
    """H3: the coefficient callable handed to the back-end returns real numbers and asks for
    the documented cells (upper triangle at 0, square at k*dt) of the Matsubara correlation
    function; eta_function is uninterpreted (complex valued)."""
    functions = ("GibbsTempo._prepare_backend", "CustomSD.correlation_2d_integral")
    stubs = ("CustomSD.eta_function -> uninterpreted complex function of tau (quadrature outside the claim)", STUB_EXPM)
    env = {"extra": SYM_EXTRA}

    def __init__(self, n_steps):
        self.n = n_steps
        self.id = "H3/coefficients_n%d" % n_steps
        self.bounds = {"n_steps": n_steps}
        self.bath = make_bath(0.1)

    def body(self, inp, eigen):
        n = self.n
        seen = []
        eta = _eta_stub(inp, seen)
        pair = Pair(inp, n, eigen=eigen)
        if True:
            import oqupy.bath_correlations as bc
            old = bc.CustomSD.eta_function
            bc.CustomSD.eta_function = eta
            try:
                g, _ = _gibbs(inp, n, pair, self.bath)
                coeff = g._backend_instance._coefficients
                dt = 1.0 / (TEMPERATURE * n)
                obs = []
                for k in range(n + 1):
                    c = coeff(k)
                    c = S.of(c) if inp.mode != "real" else complex(c)
                    if k == 0:
                        want = eta(None, dt) - eta(None, 0.0)
                    else:
                        want = eta(None, (k + 1) * dt) - 2.0 * eta(None, k * dt) + eta(None, (k - 1) * dt)
                    obs.append(Ob.eq("coefficient %d is real" % k, c.imag, inp.zero()))
                    obs.append(Ob.eq("coefficient %d is the real part of the documented cell" % k, c.real, want.real))
                obs.append(Ob.holds("eta requested with matsubara=True", all(seen)))
            finally:
                bc.CustomSD.eta_function = old
        return obs


_EXP_CONSTS = {}


def _real_exp(x):
    """exp shim for tempo_backend: exp of a symbolic REAL argument is a real number that
    depends only on the argument (one z3 constant per syntactically distinct argument:
    congruence, nothing else -- a sound over-approximation of an uninterpreted function
    that keeps the queries in pure QF_NRA); exp(0) = 1; concrete arguments are evaluated"""
    def one(v):
        v = S.of(v)
        if v.is_concrete() or not sym._isz(v.im):
            return sym.sym_exp(v)
        key = z3.simplify(sym.zr(v.re)).sexpr()
        if key not in _EXP_CONSTS:
            _EXP_CONSTS[key] = z3.Real("expR_%d" % len(_EXP_CONSTS))
        return S(_EXP_CONSTS[key])
    if isinstance(x, np.ndarray):
        if x.dtype != object:
            return np.exp(x)
        out = np.empty(x.shape, dtype=object)
        for idx in np.ndindex(*x.shape):
            out[idx] = one(x[idx])
        return out
    if isinstance(x, S):
        return one(x)
    return np.exp(x)


class HermitianCoupled(Case):
    """H3: real TIBaseBackend with symbolic REAL coefficients c_k (arbitrary coupling) and
    Hermitian G: the state is Hermitian after every step"""
    functions = ("TIBaseBackend.__init__", "initialise", "compute_step", "readout", "_influence_tensor", "_contract",
                 "_truncate_left", "_truncate_right", "_unique")
    stubs = (STUB_SVD, "numpy exp in tempo_backend -> uninterpreted real function on real arguments, exp(0) = 1")
    env = {"extra": dict(SYM_EXTRA, **{"oqupy.backends.tempo_backend.exp": _real_exp})}
    timeout_s = 600

    def __init__(self, n_steps, coupling=(0.5, -0.5)):
        self.n, self.coupling = n_steps, tuple(coupling)
        self.id = "H3/hermitian_coupled_n%d%s" % (n_steps, "" if self.coupling == (0.5, -0.5) else "_" + _tag(coupling))
        self.bounds = {"d": len(coupling), "n_steps": n_steps, "coupling_diagonal": list(coupling),
                       "coupling": "symbolic real coefficients"}

    def run(self, inp):
        n, d = self.n, len(self.coupling)
        G = herm(inp, "G", genuinely_complex=True, d=d)
        cs = [inp.real("c%d" % k) for k in range(n + 1)]
        diag = np.array(self.coupling, dtype=float)
        b = TIBaseBackend(d, 1.0e-14, G, lambda k: cs[k], (-diag, diag, np.zeros(d)), max_step=n)
        b.initialise()
        for _ in range(n - 2):
            b.compute_step()
        obs = []
        for k, st in enumerate(b.data):
            obs.append(Ob.eq("state %d Hermitian" % k, st, _dagger(st)))
        return obs


def _tag(diag):
    return "_".join(("%g" % x).replace("-", "m").replace(".", "p") for x in diag)


class UniqueLocal(Case):
    """H4 (local): TIBaseBackend._unique on SYMBOLIC values (every coincidence pattern is a
    path): `indices` are the first occurrences of the distinct values in order, every
    position belongs to exactly one class, classes group exactly the equal values, i.e.
    proj.T @ values[indices] == values.  Pure index logic."""
    functions = ("TIBaseBackend._unique",)
    stubs = ()
    env = {"extra": SYM_EXTRA}
    validate = False         # inputs are small integers decided per path; nothing numeric to validate

    def __init__(self, d, pairs):
        self.d, self.pairs = d, pairs
        self.id = "H4/unique_local_d%d%s" % (d, "_pairs" if pairs else "")
        self.bounds = {"d": d, "values": "pairs (as for the vertical legs)" if pairs else "scalars (horizontal legs)",
                       "coincidence_patterns": "all (path forking on ==)"}

    def run(self, inp):
        d = self.d
        vals = [inp.real("v%d" % i) for i in range(d)]
        if self.pairs:
            second = [inp.real("w%d" % i) for i in range(d)]
            values = list(zip(vals, second))
        else:
            values = list(vals)
        indices, proj = TIBaseBackend._unique(values if not self.pairs else zip(vals, second))
        indices = [int(i) for i in indices]
        proj = np.asarray(proj)
        obs = [Ob.holds("projector shape", proj.shape == (len(indices), d)),
               Ob.holds("entries are 0/1, every position in exactly one class",
                        all(int(proj[:, i].sum()) == 1 and set(int(x) for x in proj[:, i]) <= {0, 1} for i in range(d)))]
        ok_first, ok_group, ok_distinct = True, True, True
        for r, rep in enumerate(indices):
            members = [i for i in range(d) if int(proj[r, i]) == 1]
            ok_first = ok_first and bool(members) and members[0] == rep
            for i in members:
                ok_group = ok_group and bool(_same_value(values[i], values[rep]))
        for r1 in range(len(indices)):
            for r2 in range(r1 + 1, len(indices)):
                ok_distinct = ok_distinct and not bool(_same_value(values[indices[r1]], values[indices[r2]]))
        obs.append(Ob.holds("class representative == first occurrence, representatives ascending",
                            ok_first and indices == sorted(indices)))
        obs.append(Ob.holds("members of a class carry the representative's value (proj.T @ values[indices] == values)", ok_group))
        obs.append(Ob.holds("different classes carry different values", ok_distinct))
        return obs


def _same_value(a, b):
    """equality of two values (scalars or tuples); on a symbolic path the answer is already
    decided by the path condition, so the branch does not fork further"""
    if isinstance(a, tuple):
        return all(_same_value(x, y) for x, y in zip(a, b))
    return a == b


class _NoReduction(TIBaseBackend):
    """the same back-end with the degeneracy reduction switched off (trivial projector)"""
    @staticmethod
    def _unique(values):
        n = len(list(values))
        return np.arange(n), np.identity(n, dtype=int)


class Degenerate(Case):
    """H4 (end to end): for a coupling operator with REPEATED eigenvalues and symbolic real
    coefficients (arbitrary coupling), the states of the real TIBaseBackend (with its
    degeneracy reduction `_unique`) equal those of the same network without reduction."""
    functions = HermitianCoupled.functions
    stubs = HermitianCoupled.stubs + ("oracle: TIBaseBackend with _unique -> trivial projector (non-reduced description)",)
    env = HermitianCoupled.env
    timeout_s = 600
    first_timeout_s = 60

    def __init__(self, diag, n_steps):
        self.diag, self.n = tuple(diag), n_steps
        self.id = "H4/degenerate_%s_n%d" % ("_".join(("%g" % x).replace("-", "m").replace(".", "p") for x in diag), n_steps)
        self.bounds = {"d": len(diag), "coupling_diagonal": list(diag), "n_steps": n_steps,
                       "coupling": "symbolic real coefficients", "G": "generic real matrix"}

    def run(self, inp):
        n, d = self.n, len(self.diag)
        G = inp.arr("G", (d, d))
        cs = [inp.real("c%d" % k) for k in range(n + 1)]
        diag = np.array(self.diag, dtype=float)
        ops = (-diag, diag, np.zeros(d))
        out = []
        for cls in (TIBaseBackend, _NoReduction):
            b = cls(d, 1.0e-14, G, lambda k: cs[k], ops, max_step=n)
            b.initialise()
            for _ in range(n - 2):
                b.compute_step()
            out.append(list(b.data))
        obs = [Ob.holds("reduction active", True)]
        for k in range(len(out[0])):
            obs.append(Ob.eq("state %d: reduced == non-reduced network" % k, out[0][k], out[1][k]))
        return obs


def _diag_svd(theta, *a, **kw):
    """scipy.linalg.svd stand-in for a DIAGONAL theta with ordered non-negative diagonal
    (what the truncation-rule case feeds in): u = vh = 1, s = diagonal"""
    k = theta.shape[0]
    return sym.obj_eye(k), np.array([theta[i, i] for i in range(k)], dtype=object), sym.obj_eye(k)


def _sym_amax(a, *args, **kw):
    """numpy.amax on an object array of (symbolic) reals: comparisons fork the path"""
    a = np.asarray(a)
    if a.dtype != object:
        return np.amax(a, *args, **kw)
    return env.sym_max([S.of(v) for v in a.reshape(-1)])


def _sym_argmax(a, *args, **kw):
    """numpy.argmax on a boolean vector = index of the first True (0 if none); symbolic
    entries fork the path"""
    a = np.asarray(a)
    if a.dtype != object:
        return np.argmax(a, *args, **kw)
    for i, x in enumerate(a.reshape(-1)):
        if bool(x):
            return i
    return 0


class TruncRule(Case):
    """H5: the truncation rule of the real TIBaseBackend._scipy_svd is RELATIVE (epsrel):
    for symbolic ordered non-negative singular values s (theta = diag(s)) and a symbolic
    overall scale c > 0, the kept rank for c*s equals the kept rank for s (the Gibbs state
    must not depend on a constant energy offset, which only rescales the imaginary-time
    MPS), every value with s_i / s_max >= precision is kept, and what is cut off after the
    kept block starts with a value below precision * s_max."""
    functions = ("TIBaseBackend._scipy_svd",)
    stubs = ("oqupy.backends.tempo_backend.svd -> for diagonal theta: u = vh = 1, s = diagonal (real scipy svd on the replay)",
             "numpy amax / argmax in tempo_backend -> same semantics on symbolic values, comparisons fork the path")
    env = {"extra": {"oqupy.backends.tempo_backend.svd": _diag_svd, "oqupy.backends.tempo_backend.amax": _sym_amax,
                     "oqupy.backends.tempo_backend.argmax": _sym_argmax}}
    max_paths = 400

    def __init__(self, k, precision):
        self.k, self.p = k, precision
        self.id = "H5/trunc_rule_k%d_p%g" % (k, precision)
        self.bounds = {"singular_values": k, "precision": precision, "scale": "symbolic c > 0"}

    def run(self, inp):
        k, p = self.k, self.p
        t = [inp.real("t%d" % i, lo=0) for i in range(k)]
        s = [None] * k
        s[k - 1] = t[k - 1]
        for i in range(k - 2, -1, -1):
            s[i] = s[i + 1] + t[i]                # s_0 >= s_1 >= ... >= 0 by construction
        cc = inp.real("c", lo=0)
        inp.assume(s[0] > 0)
        inp.assume(cc > 0)

        def kept(scale):
            if inp.mode == "real":
                theta = np.diag(np.array([float(scale * x) for x in s]))
            else:
                theta = sym.obj_zeros((k, k))
                for i in range(k):
                    theta[i, i] = scale * s[i]
            u, sv, vh = TIBaseBackend._scipy_svd(theta, p)
            return len(sv), u, vh
        chi1, u1, vh1 = kept(inp.one())
        chi2, _, _ = kept(cc)
        obs = [Ob.holds("kept rank invariant under s -> c*s (relative threshold)", chi1 == chi2, key="scale-covariance",
                        info="kept %d of %d singular values for s, %d for c*s" % (chi1, k, chi2)),
               Ob.holds("shapes of the truncated factors", u1.shape == (k, chi1) and vh1.shape == (chi1, k)),
               Ob.holds("at least one value kept", chi1 >= 1)]
        smax = s[0]
        for i in range(k):
            if i >= chi1:
                obs.append(Ob.holds("discarded value %d is below precision * s_max" % i, s[i] < p * smax, key="kept-above-threshold",
                                    info="a singular value with s_i / s_max >= precision was discarded"))
        if chi1 < k:
            obs.append(Ob.holds("truncation starts at the first value below precision * s_max",
                                all(bool(s[i] >= p * smax) for i in range(chi1)) if inp.mode != "sym" else
                                _all_sb([s[i] >= p * smax for i in range(chi1)])))
        return obs


def _all_sb(conds):
    from vf.sym import SB
    out = True
    for x in conds:
        out = (x & out) if isinstance(x, SB) else (out if x else False)
    return out


class ZRotation(GibbsCase):
    """H1 at ARBITRARY coupling: the exact reduced thermal state is covariant under rotations
    about the coupling axis, rho(R H R^+) = R rho(H) R^+ for R = diag(u, conj u)/|u| (the
    coupling operator is diagonal, hence invariant).  Real GibbsTempo with a coupled bath,
    eta_function uninterpreted, expm -> G resp. the rotated G.  Stated without side
    condition for u = 1 + i t:  G' = nu R G R^+,  nu = 1 + t^2,  state homogeneous of degree
    2n in G  =>  state(G') = nu^(2n) R state(G) R^+.  A transposed result is covariant with
    the opposite rotation sense, so this is the non-zero-coupling face of the orientation."""
    functions = Orient.functions + ("CustomSD.correlation_2d_integral",)
    stubs = (STUB_EXPM, STUB_SVD, "CustomSD.eta_function -> uninterpreted complex function of tau",
             "numpy exp in tempo_backend -> uninterpreted real function on real arguments, exp(0) = 1")
    env = {"extra": dict(SYM_EXTRA, **{"oqupy.backends.tempo_backend.exp": _real_exp})}
    timeout_s = 600

    def __init__(self, n_steps, coupling=None, eigen=False):
        self.n, self.eigen = n_steps, eigen
        self.id = "H1/zrot%s_n%d%s" % ("_eig" if eigen else "", n_steps, "" if coupling is None else "_" + _tag(coupling))
        self.bounds = {"d": 2, "n_steps": n_steps, "coupling": "symbolic (eta uninterpreted)",
                       "parametrisation": "concrete V and rotation u = (3+4i)/5, symbolic spectrum" if eigen else "generic G, symbolic rotation"}
        self.bath = make_bath(0.1, coupling=coupling)

    def body(self, inp, eigen):
        import oqupy.bath_correlations as bc
        n = self.n
        one = inp.one()
        if not eigen:
            p1 = Pair(inp, n, eigen=False)
            p2 = Pair(inp, n, tag="K", eigen=False)     # stands for R H R^+ (only G, G' enter the identity)
            G = p1.G
            t = inp.real("t")
            if inp.mode == "real":
                u = complex(1.0, t)
                uc = u.conjugate()
            else:
                u = S(one.re, t.re)
                uc = u.conjugate_()
            nu = u * uc
            power = 2 * n - 1
        else:
            # eigen-compatible: concrete rotation u = (3 + 4i)/5, H' = R H R^+, V' = R V
            p1 = Pair(inp, n, eigen=True, vsel=1)
            if inp.mode == "real":
                u, uc = complex(0.6, 0.8), complex(0.6, -0.8)
                R = np.diag([u, uc])
            else:
                from fractions import Fraction
                u, uc = S(Fraction(3, 5), Fraction(4, 5)), S(Fraction(3, 5), Fraction(-4, 5))
                R = sym.obj_zeros((2, 2))
                R[0, 0], R[1, 1] = u, uc
            p2 = Pair(inp, n, tag="K", eigen=True, table=p1.table, rotate=R, base=p1)
            G = p1.G
            nu = one
            power = 0
        Gp = np.array(G, dtype=G.dtype)
        Gp[0, 0], Gp[1, 1] = nu * G[0, 0], nu * G[1, 1]
        Gp[0, 1] = u * u * G[0, 1]
        Gp[1, 0] = uc * uc * G[1, 0]
        if not eigen:
            p2.G = Gp                                  # G' = nu R G R^+
        eta = _eta_stub(inp, [])
        old = bc.CustomSD.eta_function
        bc.CustomSD.eta_function = eta
        try:
            g1, _ = _gibbs(inp, n, p1, self.bath)
            g2, _ = _gibbs(inp, n, p2, self.bath)
            s = g1.compute(progress_type="silent").states[-1]
            sp = g2.compute(progress_type="silent").states[-1]
        finally:
            bc.CustomSD.eta_function = old
        f = one
        for _ in range(power):
            f = f * nu
        want = np.array(s, dtype=s.dtype)
        want[0, 0], want[1, 1] = f * nu * s[0, 0], f * nu * s[1, 1]
        want[0, 1] = f * u * u * s[0, 1]
        want[1, 0] = f * uc * uc * s[1, 0]
        return [Ob.eq("state of the rotated Hamiltonian == rotated state", sp, want, key="state",
                      info="GibbsTempo with a coupled bath: rotating H about the coupling axis rotates the result the wrong way "
                           "(the returned state is the transpose of the thermal state)")]


def _eta_stub(inp, seen):
    """CustomSD.eta_function -> one free complex harness input per distinct (concrete)
    imaginary-time argument: exactly an uninterpreted function on the finitely many
    arguments that occur; quadrature outside the claim"""
    cache = {}

    def eta(self_, tau, epsrel=None, subdiv_limit=None, matsubara=False):
        if self_ is not None:
            seen.append(matsubara)
        key = "%d" % round(float(S.of(tau).re if not isinstance(tau, (int, float)) else tau) * 1e6)
        if key not in cache:
            cache[key] = inp.cplx("eta_%s" % key.replace("-", "m"))
        return cache[key]
    return eta


def _scale(arr, f):
    arr = np.asarray(arr)
    if arr.dtype != object:
        return arr * f
    out = np.empty(arr.shape, dtype=object)
    for idx in np.ndindex(*arr.shape):
        out[idx] = arr[idx] * f
    return out


def _dagger(m):
    m = np.asarray(m)
    if m.dtype != object:
        return m.conj().T
    out = np.empty((m.shape[1], m.shape[0]), dtype=object)
    for i in range(m.shape[0]):
        for j in range(m.shape[1]):
            out[j, i] = S.of(m[i, j]).conjugate_()
    return out


def cases(tier):
    cs = [Orient(2), Orient(3), Orient(4), Orient(2, eigen=True), Orient(3, eigen=True), Orient(4, eigen=True, vsel=1),
          Orient(3, cplx=False, eigen=True), Orient(2, d=3, eigen=True), ZRotation(3, eigen=True), ZRotation(4, (1, 0), eigen=True), Orient(2, cplx=False), Orient(3, cplx=False), Wiring(2), Wiring(3), Repeat(3),
          Orient(2, d=3), Orient(2, cplx=False, d=3), Normalised("generic"), Normalised("hermitian"), Coefficients(3), HermitianCoupled(2), HermitianCoupled(3), HermitianCoupled(4), ZRotation(2), ZRotation(3), ZRotation(4),
          HermitianCoupled(2, (1, 0)), HermitianCoupled(3, (1, 0)), HermitianCoupled(2, (1, 0, -2)), ZRotation(2, (1, 0)),
          ZRotation(3, (1, 0)), TruncRule(2, 0.125), TruncRule(3, 1e-6), UniqueLocal(3, False), UniqueLocal(3, True), Degenerate((1, 1, 0), 2), Degenerate((0.5, -0.5, 0.5), 3),
          Degenerate((1, 1, 0), 3)]
    if tier == "thorough":
        cs += [Orient(5), Orient(5, eigen=True), Orient(3, d=3, eigen=True, vsel=1), ZRotation(4, eigen=True), Orient(4, cplx=False), Wiring(4), Repeat(4), Repeat(2),
               Orient(3, d=3), Orient(3, cplx=False, d=3), Orient(4, cplx=False, d=3),
               HermitianCoupled(4, (1, 0)), HermitianCoupled(3, (1, 0, -2)), ZRotation(4, (1, 0)),
               TruncRule(3, 0.125), TruncRule(2, 1e-6), TruncRule(4, 0.5), UniqueLocal(4, False), UniqueLocal(4, True), Degenerate((0, 1, 1), 3), Degenerate((0.5, 0.5, -0.5, -0.5), 2),
               Degenerate((0.5, 0.5, -0.5, -0.5), 3), Degenerate((0.5, -0.5, 0.5, -0.5), 3), Degenerate((1, 0, 1), 4)]
    return cs
