"""C09 -- mean-field evolution agrees across methods and integrates the field correctly.

The field equation of motion handed to the real code is
    F(t, states, a) = g(t, a) + sum_s <L_s, rho_s>
with g an UNINTERPRETED function in the symbolic run (so the time and field value at which
the real code evaluates it are visible to the solver; a fixed polynomial in the concrete
validation / replay runs), L_s symbolic linear functionals, or g = alpha + beta*t for the
exact-integral claim.  System propagators are P(step, field, derivative) =
A[step] + field*B[step] + derivative*C[step] with symbolic matrices, so the (field,
derivative) pair given to every step is visible too.

The oracle is the documented scheme, written down independently of both implementations:
  t_n = start_time + n dt,   k1 = F(t_n, rho_n, a_n),   k2 = F(t_n + dt, rho_{n+1}, a_n + dt k1),
  a_{n+1} = a_n + dt (k1 + k2) / 2,   step n uses P(n, a_n, k1),
  rho_{n+1} = explicit index-sum contraction (process tensors) / a plain TempoBackend run.

H1/cdwf_*   real `compute_dynamics_with_field` on arbitrary symbolic process tensors
H1/mft_*    real `MeanFieldTempo._prepare_backend/_compute_field/_compute_field_derivative/_time`
            + real `MeanFieldTempoBackend.initialize/compute_step` on symbolic influences
H1/cross_*  both methods on process tensors built (real PtTempoBackend) from the same influences,
            real `MeanFieldTempo.compute` and real `Control`
H2          real `TimeDependentSystemWithField.get_propagators` closures (expm / quad_vec stubbed)
"""
import types

import numpy as np
import z3

import oqupy
import oqupy.process_tensor as ptm
import oqupy.system_dynamics as sd
import oqupy.tempo as tempo_mod
from oqupy.base_api import BaseAPIClass
from oqupy.control import Control
from oqupy.backends.tempo_backend import TempoBackend

from vf.core import Case, Ob
from vf import lib, sym
from vf.poly import ob_eq_poly
from vf.pointcheck import Guard
from vf.sym import S
from vf.env import NpProxy, BUILTIN_SHADOWS

ASSUMPTIONS = [
    "exact real/complex arithmetic (floating-point rounding outside the claim)",
    "conjugation-free code paths are polynomial maps: identities over real symbols hold for complex values",
    "dt > 0",
    "the field equation of motion is a function of its arguments only (congruence); in the symbolic run its (t, a) "
    "part is an uninterpreted function",
]

AUTONOMOUS = ("auto", "polyauto")
# (the uninterpreted g is Ackermannised at call time, see FieldEom.g)
# fixed polynomial used for g in the concrete (frac / real) runs
G_COEF = (1 / 3.0, -1 / 2.0, 1 / 4.0, 1 / 5.0, 1 / 8.0)


def _obj_arange(*a, **kw):
    return sym.lift(np.arange(*a, **kw))


def sym_env_extra():
    ex = {}
    for mod, names in (("oqupy.system_dynamics", ("float", "complex", "int")), ("oqupy.dynamics", ("float", "complex")),
                       ("oqupy.system", ("float", "complex"))):
        for n in names:
            ex["%s.%s" % (mod, n)] = BUILTIN_SHADOWS[n]
    # `start_time + np.arange(n) * dt` with symbolic dt
    ex["oqupy.system_dynamics.np"] = NpProxy({"arange": _obj_arange})
    return ex


class NoControl(Control):
    """Control without any operation.  The real `get_controls` evaluates
    `(np.array([]) - start_time) / dt`, which numpy cannot do for a symbolic scalar; for a Control
    that holds no operation it returns (None, None) for every step (C18 covers controls)."""

    def get_controls(self, step, dt=None, start_time=0.0):
        return None, None


# --------------------------------------------------------------------------
# field equation of motion, systems
# --------------------------------------------------------------------------
def vdot(x, y):
    return np.dot(np.asarray(x).reshape(-1), np.asarray(y).reshape(-1))


class FieldEom:
    """kind: 'uf' g(t, a) uninterpreted | 'auto' g(a) uninterpreted (no explicit time)
    | 'poly' c0 + c1 t + c2 a + c3 t a | 'polyauto' c0 + c2 a (symbolic coefficients)
    | 'linear' alpha + beta t (no state dependence)"""

    def __init__(self, inp, kind, dims):
        self.inp, self.kind = inp, kind
        self.calls = []
        self.apps = {}
        if kind == "linear":
            self.alpha = inp.real("alpha")
            self.beta = inp.real("beta")
            self.L = None
        else:
            self.L = [inp.arr("L%d" % s, (d, d)) for s, d in enumerate(dims)]
        if kind in ("poly", "polyauto"):
            self.c = inp.arr("gc", (4,))

    def g(self, t, a):
        if self.kind == "polyauto":
            return self.c[0] + self.c[2] * a
        if self.kind == "poly":
            return self.c[0] + self.c[1] * t + self.c[2] * a + self.c[3] * t * a
        if self.kind == "linear":
            return self.alpha + self.beta * t
        if self.kind == "auto":
            t = 0.0
        if self.inp.symbolic:
            # uninterpreted g, Ackermannised at call time: every application with (syntactically, after
            # z3's simplifier) new arguments is a fresh real variable, equal arguments share the variable.
            # Only congruence between semantically-equal-but-differently-written arguments is lost, which can
            # produce a spurious counterexample (rejected by the replay) but never a spurious proof; the
            # queries stay pure polynomial arithmetic, where z3 refutes and the instance search finds models
            # (nested uninterpreted applications made z3 ignore its timeout on violated obligations).
            t, a = S.of(t), S.of(a)
            args = tuple(z3.simplify(sym.zr(x)) for x in (t.re, a.re, a.im))
            key = tuple(x.get_id() for x in args)
            if key not in self.apps:
                self.apps[key] = (args, z3.Real("g_app%d" % len(self.apps)))
            return S(self.apps[key][1])
        c = G_COEF
        return c[0] + c[1] * t + c[2] * a + c[3] * t * a + c[4] * t * t

    def value(self, t, states, a):
        out = self.g(t, a)
        if self.L is not None:
            for L, rho in zip(self.L, states):
                out = out + vdot(L, rho)
        return out

    def __call__(self, t, states, a):
        self.calls.append((t, a))
        return self.value(t, states, a)


class FieldSystem(oqupy.TimeDependentSystemWithField):
    """real TimeDependentSystemWithField.__init__ on a dummy Hamiltonian; propagators
    A + field*B + derivative*C handed in (expm / quadrature are outside the claim, see H2)"""

    def __init__(self, d, A1, B1, C1, A2, B2, C2):
        super().__init__(lambda t, a: np.zeros((d, d)) + 0.0 * t)
        self.m = (A1, B1, C1, A2, B2, C2)
        self.prop_calls = []
        self.gp_calls = []
        self.gp_full = []

    def props(self, step, field, deriv):
        A1, B1, C1, A2, B2, C2 = self.m
        return (A1[step] + field * B1[step] + deriv * C1[step], A2[step] + field * B2[step] + deriv * C2[step])

    def get_propagators(self, dt, start_time, subdiv_limit, epsrel):
        self.gp_calls.append((dt, start_time))
        self.gp_full.append((dt, start_time, subdiv_limit, epsrel))

        def propagators(step, field, field_derivative):
            self.prop_calls.append((step, field, field_derivative))
            return self.props(step, field, field_derivative)
        return propagators


def traceless(inp, name, d):
    """generator-like matrix: columns sum to zero over the diagonal Liouville indices, so that
    A + x*B stays trace preserving for every x"""
    D = d * d
    m = inp.arr(name, (D, D))
    dp = lib.diag_positions(d)
    for j in range(D):
        acc = inp.zero()
        for i in dp[1:]:
            acc = acc - m[i, j]
        m[0, j] = acc
    return m


def sparse(inp, name, d, tp):
    """field-coupling matrices with few non-zero entries (keeps polynomial sizes in reach while the
    dependence on field and derivative stays visible in every step)"""
    D = d * d
    m = inp.const(np.zeros((D, D)))
    v = inp.arr(name, (2,))
    if tp:
        # traceless by construction: entries outside the diagonal rows
        m[1, 0] = v[0]
        m[2, 3] = v[1]
    else:
        m[1, 0] = v[0]
        m[3, 2] = v[1]
    return m


def make_system(inp, name, d, N, tp, coupling):
    """coupling: 'full' | 'sparse' | 'none' (system ignores the field)"""
    def coup(nm):
        if coupling == "none":
            return inp.const(np.zeros((d * d, d * d)))
        if coupling == "sparse":
            return sparse(inp, nm, d, tp)
        return traceless(inp, nm, d) if tp else lib.gen_prop(inp, nm, d)
    base = (lambda nm: lib.tp_prop(inp, nm, d)) if tp else (lambda nm: lib.gen_prop(inp, nm, d))
    # one spare step: code that (wrongly) asks for the propagators of step N gets an answer and the
    # comparison fails, instead of the harness raising
    A1 = [base("%sA1_%d" % (name, k)) for k in range(N + 1)]
    A2 = [base("%sA2_%d" % (name, k)) for k in range(N + 1)]
    B1 = [coup("%sB1_%d" % (name, k)) for k in range(N + 1)]
    B2 = [coup("%sB2_%d" % (name, k)) for k in range(N + 1)]
    C1 = [coup("%sC1_%d" % (name, k)) for k in range(N + 1)]
    C2 = [coup("%sC2_%d" % (name, k)) for k in range(N + 1)]
    return FieldSystem(d, A1, B1, C1, A2, B2, C2)


def build_pt(inp, name, d, N, bond, dt):
    D = d * d
    pt = ptm.SimpleProcessTensor(hilbert_space_dimension=d, dt=dt)
    Ms, caps = [], []
    for k in range(N):
        M = inp.arr("%sM%d" % (name, k), (1 if k == 0 else bond, 1 if k == N - 1 else bond, D, D))
        pt.set_mpo_tensor(k, M)
        Ms.append(M)
    for k in range(N + 1):
        c = inp.arr("%sc%d" % (name, k), (1 if k in (0, N) else bond,))
        pt.set_cap_tensor(k, c)
        caps.append(c)
    return pt, Ms, caps


# --------------------------------------------------------------------------
# oracle
# --------------------------------------------------------------------------
class Oracle:
    """documented Heun scheme; `advance(s, n, P1s, P2s)` returns the state of system s at step n+1"""

    def __init__(self, eom, systems, rho0s, a0, start, dt, N, advance, initial=None):
        self.t = [start + n * dt for n in range(N + 1)]
        self.a = [a0]
        self.k1, self.euler = [], []
        self.rho = [list(rho0s) if initial is None else [initial(s) for s in range(len(systems))]]
        P1 = [[] for _ in systems]
        P2 = [[] for _ in systems]
        for n in range(N):
            k1 = eom.value(self.t[n], self.rho[n], self.a[n])
            for s, system in enumerate(systems):
                p1, p2 = system.props(n, self.a[n], k1)
                P1[s].append(p1)
                P2[s].append(p2)
            nxt = [advance(s, n, P1[s], P2[s]) for s in range(len(systems))]
            eul = self.a[n] + dt * k1
            k2 = eom.value(self.t[n] + dt, nxt, eul)
            self.a.append(self.a[n] + dt * (k1 + k2) / 2)
            self.k1.append(k1)
            self.euler.append(eul)
            self.rho.append(nxt)

    def documented_points(self):
        """(t, a) pairs at which the scheme evaluates the equation of motion"""
        pts = []
        for n in range(len(self.k1)):
            pts.append((self.t[n], self.a[n]))
            pts.append((self.t[n + 1], self.euler[n]))
        pts.append((self.t[-1], self.a[-1]))
        return pts


def _scal(x):
    if not isinstance(x, (S, sym.SI)):
        return np.array([complex(x)])
    a = np.empty((1,), dtype=object)
    a[0] = S.of(x)
    return a


def same(inp, x, y):
    """x == y as z3 formula (sym) / python bool with tolerance (concrete)"""
    if inp.symbolic:
        ds = sym.neq_terms(_scal(x), _scal(y))
        return z3.Not(z3.Or(*ds)) if ds else z3.BoolVal(True)
    x = complex(x) if not isinstance(x, S) else complex(x)
    y = complex(y) if not isinstance(y, S) else complex(y)
    return abs(x - y) <= 1e-8 * (1 + abs(y))


def call_obs(inp, calls, points, what, with_time=True):
    """every evaluation of the equation of motion happens at a documented (t, a) point
    (with_time=False: equation without explicit time dependence, only the field value matters)"""
    obs = []
    yes = z3.BoolVal(True) if inp.symbolic else True
    for k, (t, a) in enumerate(calls):
        alts = [(same(inp, t, pt) if with_time else yes, same(inp, a, pa)) for pt, pa in points]
        if inp.symbolic:
            cond = sym.SB(z3.Or(*[z3.And(x, y) for x, y in alts]))
        else:
            cond = any(x and y for x, y in alts)
        obs.append(Ob.holds("%s: eom evaluation %d at a documented (t, field) point" % (what, k), cond))
    return obs


def time_inputs(inp, symtime):
    if symtime:
        start = inp.real("t0", lo=-2, hi=2)
        dt = inp.real("dt", lo=0.25, hi=2)
    else:
        start, dt = 0.5, 0.25
    return start, dt


# --------------------------------------------------------------------------
# H1 / compute_dynamics_with_field
# --------------------------------------------------------------------------
class Cdwf(Case):
    functions = ("system_dynamics.compute_dynamics_with_field", "system_dynamics._compute_dynamics_input_parse",
                 "system_dynamics._apply_pt_mpos", "system_dynamics._apply_caps", "MeanFieldSystem.__init__",
                 "MeanFieldDynamics.__init__", "MeanFieldDynamics.add")
    stubs = ("TimeDependentSystemWithField.get_propagators -> A + field*B + derivative*C with symbolic matrices",
             "field_eom -> uninterpreted g(t, a) + symbolic linear functional of the states",
             "Control.get_controls -> (None, None) for the empty Control when start_time/dt are symbolic",
             "builtins float/complex/int and np.arange shadowed in oqupy.system_dynamics/dynamics/system (symbolic scalars)")
    env = {"noconj": True, "extra": None}
    timeout_s = 300

    def __init__(self, kind, N, dims=(2,), bond=2, symtime=True, record_all=True, coupling="full", nenv=1):
        self.kind, self.N, self.dims, self.bond, self.symtime = kind, N, tuple(dims), bond, symtime
        self.record_all, self.coupling, self.nenv = record_all, coupling, nenv
        tag = "%s_N%d_d%s_b%d_e%d_%s%s%s" % (kind, N, "x".join(map(str, dims)), bond, nenv, coupling,
                                             "_symtime" if symtime else "_t0.5", "" if record_all else "_last")
        # defect class: equation of motion with explicit time dependence in compute_dynamics_with_field
        self.id = ("H1/cdwf_field_time/" if kind not in AUTONOMOUS else "H1/cdwf_auto/") + tag
        if kind not in AUTONOMOUS:
            # refuting a polynomial non-identity directly is slow for nlsat: go to the instance search early
            self.first_timeout_s = 2
        self.bounds = {"N": N, "dims": list(dims), "bond": bond, "envs": nenv, "eom": kind, "symbolic_times": symtime,
                       "record_all": record_all, "coupling": coupling}
        self.env = {"noconj": True, "extra": sym_env_extra()}

    def run(self, inp):
        N, dims = self.N, self.dims
        start, dt = time_inputs(inp, self.symtime)
        a0 = inp.real("a0")
        eom = FieldEom(inp, self.kind, dims)
        systems = [make_system(inp, "s%d" % s, d, N, False, self.coupling) for s, d in enumerate(dims)]
        rho0s = [inp.arr("r%d" % s, (d, d)) for s, d in enumerate(dims)]
        pts, envs = [], []
        for s, d in enumerate(dims):
            built = [build_pt(inp, "s%de%d" % (s, e), d, N, self.bond, None) for e in range(self.nenv)]
            pts.append([b[0] for b in built] if self.nenv != 1 else built[0][0])
            envs.append([(b[1], b[2]) for b in built])
        mfs = oqupy.MeanFieldSystem(systems, eom)
        del eom.calls[:]
        controls = [NoControl(d) for d in dims] if self.symtime else None
        dyn = sd.compute_dynamics_with_field(mfs, initial_field=a0, process_tensor_list=pts, dt=dt, num_steps=None,
                                             initial_state_list=rho0s, start_time=start, control_list=controls,
                                             record_all=self.record_all, progress_type="silent")
        calls = list(eom.calls)

        def advance(s, n, P1, P2):
            d = dims[s]
            return lib.oracle_pt_dynamics(rho0s[s], envs[s], P1, P2, n + 1).reshape(d, d)
        orc = Oracle(eom, systems, rho0s, a0, start, dt, N, advance,
                     initial=lambda s: lib.oracle_pt_dynamics(rho0s[s], envs[s], [], [], 0).reshape(dims[s], dims[s]))
        fields = list(dyn._fields)
        times = list(dyn._times)
        sdyn = [lib.dynamics_states(x) for x in dyn.system_dynamics]
        obs = []
        for s, system in enumerate(systems):
            obs.append(Ob.holds("system %d: get_propagators called once with (dt, start_time)" % s,
                                len(system.gp_calls) == 1))
            if system.gp_calls:
                obs.append(Ob.eq("system %d: dt given to get_propagators" % s, system.gp_calls[0][0], dt))
                obs.append(Ob.eq("system %d: start_time given to get_propagators" % s, system.gp_calls[0][1], start))
        if self.record_all:
            obs.append(Ob.holds("lengths", len(fields) == N + 1 and len(times) == N + 1 and all(len(x) == N + 1 for x in sdyn)))
            steps = list(range(N + 1))
            for n in steps:
                obs.append(Ob.eq("time %d" % n, times[n], orc.t[n]))
        else:
            obs.append(Ob.holds("lengths", len(fields) == 1 and all(len(x) == 1 for x in sdyn)))
            steps = [N]
        for i, n in enumerate(steps):
            if i < len(fields):
                obs.append(Ob.eq("field %d" % n, fields[i], orc.a[n]))
            for s in range(len(dims)):
                if i < len(sdyn[s]):
                    obs.append(Ob.eq("system %d state %d" % (s, n), sdyn[s][i], orc.rho[n][s]))
        for s, system in enumerate(systems):
            obs.append(Ob.holds("system %d: one propagator request per step" % s,
                                [c[0] for c in system.prop_calls] == list(range(N))))
            for (step, f, der) in system.prop_calls:
                if step < N:
                    obs.append(Ob.eq("system %d step %d: field given to propagators" % (s, step), f, orc.a[step]))
                    obs.append(Ob.eq("system %d step %d: derivative given to propagators" % (s, step), der, orc.k1[step]))
        if self.kind != "linear":
            obs += call_obs(inp, calls, orc.documented_points(), "cdwf", with_time=self.kind not in AUTONOMOUS)
        else:
            # exact integral of alpha + beta t
            for i, n in enumerate(steps):
                if i < len(fields):
                    tn = start + n * dt
                    obs.append(Ob.eq("field %d = exact integral" % n, fields[i],
                                     a0 + eom.alpha * (n * dt) + eom.beta * (tn * tn - start * start) / 2))
        return Guard(inp).all(obs)


# --------------------------------------------------------------------------
# H1 / MeanFieldTempo
# --------------------------------------------------------------------------
def make_mean_field_tempo(mfs, systems, rho0s, a0, start, dt, K, influences, epsrel, parameters=None):
    """real MeanFieldTempo object without the numeric bath / TempoParameters front end:
    `__init__` only parses and stores; everything it stores is set here, then the real
    `_prepare_backend` runs"""
    mt = tempo_mod.MeanFieldTempo.__new__(tempo_mod.MeanFieldTempo)
    BaseAPIClass.__init__(mt, None, None)
    mt._mean_field_system = mfs
    mt._dynamics = None
    mt._backend_config = tempo_mod.TEMPO_BACKEND_CONFIG
    # `parameters`: a real TempoParameters object (concrete dt); otherwise a stand-in carrying a symbolic dt
    mt._parameters = parameters if parameters is not None else types.SimpleNamespace(
        dt=dt, dkmax=K, epsrel=epsrel, subdiv_limit=None, liouvillian_epsrel=1e-6)
    mt._unique = False
    baths = [types.SimpleNamespace(unitary_transform=np.identity(s.dimension), index=i) for i, s in enumerate(systems)]
    mt._parsed_parameters_dict = {"system": list(systems), "initial_state": list(rho0s), "bath": baths,
                                  "hs_dim": [s.dimension for s in systems]}
    mt._initial_field = a0
    mt._start_time = start
    mt._get_influence = lambda bath: influences[bath.index]
    mt._prepare_backend()
    return mt


class PlainTempo:
    """plain TEMPO runs (real TempoBackend), advanced one step at a time with the propagators
    the oracle hands in"""

    def __init__(self, inp, influences, rho0s, dims, K):
        self.tb, self.P1, self.P2 = [], [], []
        for s, d in enumerate(dims):
            D = d * d
            P1, P2 = [], []
            tb = TempoBackend(rho0s[s].reshape(D), influences[s], np.identity(d), (lambda step, P1=P1, P2=P2: (P1[step], P2[step])),
                              np.ones(D), np.ones(D), K, lib.EPS_REAL, dim=d)
            tb.initialize()
            self.tb.append(tb)
            self.P1.append(P1)
            self.P2.append(P2)
        self.dims = dims

    def advance(self, s, n, P1, P2):
        self.P1[s].append(P1[n])
        self.P2[s].append(P2[n])
        step, state = self.tb[s].compute_step()
        assert step == n + 1
        return np.asarray(state).reshape(self.dims[s], self.dims[s])


class Mft(Case):
    functions = ("MeanFieldTempo._prepare_backend", "MeanFieldTempo._compute_field", "MeanFieldTempo._compute_field_derivative",
                 "MeanFieldTempo._time", "MeanFieldTempoBackend.__init__", "MeanFieldTempoBackend.initialize",
                 "MeanFieldTempoBackend.compute_step", "BaseTempoBackend.initialize_mps_mpo", "BaseTempoBackend.compute_system_step",
                 "NodeArray.*")
    stubs = ("tensornetwork numpy backend svd -> exact non-truncating factorisation",
             "influence_matrix -> symbolic influence matrices with the trace structure (proved in C01/H2)",
             "MeanFieldTempo.__init__/TempoParameters/Bath front end replaced by direct attribute setting (MeanFieldTempo.__new__)",
             "TimeDependentSystemWithField.get_propagators -> A + field*B + derivative*C (trace preserving by construction)",
             "field_eom -> uninterpreted g(t, a) + symbolic linear functional of the states")
    env = {"noconj": True}
    timeout_s = 300

    def __init__(self, kind, N, K, dims=(2,), coupling="full", layout="C"):
        self.kind, self.N, self.K, self.dims, self.coupling, self.layout = kind, N, K, tuple(dims), coupling, layout
        self.id = "H1/mft_%s_N%d_K%s_d%s_%s%s" % (kind, N, K, "x".join(map(str, dims)), coupling, "" if layout == "C" else "_layoutF")
        self.bounds = {"N": N, "dkmax": K, "dims": list(dims), "eom": kind, "coupling": coupling, "symbolic_times": True,
                       "initial_state_memory_layout": layout}
        self.env = {"noconj": True, "extra": sym_env_extra()}

    def run(self, inp):
        N, dims, K = self.N, self.dims, self.K
        start, dt = time_inputs(inp, True)
        a0 = inp.real("a0")
        eom = FieldEom(inp, self.kind, dims)
        systems = [make_system(inp, "s%d" % s, d, N, True, self.coupling) for s, d in enumerate(dims)]
        rho0s = [inp.arr("r%d" % s, (d, d)) for s, d in enumerate(dims)]
        if self.layout == "F":
            rho0s = [np.asfortranarray(x) for x in rho0s]
        infl = [lib.Influences(inp, d, K, name="I%d" % s) for s, d in enumerate(dims)]
        mfs = oqupy.MeanFieldSystem(systems, eom)
        del eom.calls[:]
        mt = make_mean_field_tempo(mfs, systems, rho0s, a0, start, dt, K, infl, lib.EPS_REAL)
        be = mt._backend_instance
        out = [be.initialize()]
        for _ in range(N):
            out.append(be.compute_step())
        calls = list(eom.calls)
        plain = PlainTempo(inp, infl, rho0s, dims, K)
        orc = Oracle(eom, systems, rho0s, a0, start, dt, N, plain.advance)
        obs = []
        for s, system in enumerate(systems):
            obs.append(Ob.holds("system %d: get_propagators called once" % s, len(system.gp_calls) == 1))
            if system.gp_calls:
                obs.append(Ob.eq("system %d: dt given to get_propagators" % s, system.gp_calls[0][0], dt))
                obs.append(Ob.eq("system %d: start_time given to get_propagators" % s, system.gp_calls[0][1], start))
        for n in range(N + 1):
            step, states, field = out[n]
            obs.append(Ob.holds("step counter %d" % n, step == n))
            obs.append(Ob.eq("time %d" % n, mt._time(step), orc.t[n]))
            obs.append(Ob.eq("field %d" % n, field, orc.a[n]))
            for s, d in enumerate(dims):
                obs.append(Ob.eq("system %d state %d" % (s, n), np.asarray(states[s]).reshape(d, d), orc.rho[n][s]))
        for s, system in enumerate(systems):
            obs.append(Ob.holds("system %d: one propagator request per step" % s,
                                [c[0] for c in system.prop_calls] == list(range(N))))
            for (step, f, der) in system.prop_calls:
                if step < N:
                    obs.append(Ob.eq("system %d step %d: field given to propagators" % (s, step), f, orc.a[step]))
                    obs.append(Ob.eq("system %d step %d: derivative given to propagators" % (s, step), der, orc.k1[step]))
        if self.kind != "linear":
            obs += call_obs(inp, calls, orc.documented_points(), "mft", with_time=self.kind not in AUTONOMOUS)
        else:
            for n in range(N + 1):
                tn = start + n * dt
                obs.append(Ob.eq("field %d = exact integral" % n, out[n][2],
                                 a0 + eom.alpha * (n * dt) + eom.beta * (tn * tn - start * start) / 2))
        return Guard(inp).all(obs)


# --------------------------------------------------------------------------
# H1 / both methods on the same influences
# --------------------------------------------------------------------------
def _mk_eq(som):
    """plain obligation, or (after the exact point evaluation found no difference) the normalised one"""
    def mk(inp, label, g, e):
        ob = Guard(inp).refute(Ob.eq(label, g, e))
        if som and type(ob) is Ob:
            return ob_eq_poly(inp, label, g, e)
        return ob
    return mk


class Cross(Case):
    functions = Cdwf.functions + Mft.functions + ("MeanFieldTempo.compute", "MeanFieldTempo._get_num_step", "Control.get_controls",
                                                  "PtTempoBackend.*", "SimpleProcessTensor.compute_caps")
    stubs = Mft.stubs + ("start_time = 0.5, dt = 0.25 concrete (real Control.get_controls and MeanFieldTempo.compute run)",)
    env = {"noconj": True}
    timeout_s = 600

    def __init__(self, kind, N, K, dims=(2,), coupling="sparse", record_all=True, som=False, layout="C", subdiv="default"):
        self.kind, self.N, self.K, self.dims, self.coupling, self.record_all = kind, N, K, tuple(dims), coupling, record_all
        # layout "F": the initial states are handed over as column-major (Fortran-ordered) arrays -- the same
        # logical matrices, e.g. what .T / .conj().T views or np.asfortranarray produce
        self.layout = layout
        # subdiv "default": both routes with their documented defaults; "none": subdiv_limit=None on both
        # routes (TempoParameters(subdiv_limit=None) / compute_dynamics_with_field(subdiv_limit=None)), the
        # documented "sample the Liouvillian twice per step" mode
        self.subdiv = subdiv
        self.som = som       # normal form by z3's sum-of-monomials rewriter first (vf/poly.py), for the larger identities
        tag = "%s_N%d_K%s_d%s_%s%s%s" % (kind, N, K, "x".join(map(str, dims)), coupling, "" if record_all else "_last",
                                       "" if layout == "C" else "_layoutF")
        tag += "" if subdiv == "default" else "_subdivNone"
        self.id = ("H1/cdwf_field_time/cross_" if kind not in AUTONOMOUS else "H1/cross_auto/") + tag
        if kind not in AUTONOMOUS:
            self.first_timeout_s = 2
        self.bounds = {"N": N, "dkmax": K, "dims": list(dims), "eom": kind, "coupling": coupling, "start_time": 0.5, "dt": 0.25,
                       "record_all": record_all, "initial_state_memory_layout": layout}
        self.env = {"noconj": True, "extra": sym_env_extra()}

    def run(self, inp):
        N, dims, K = self.N, self.dims, self.K
        start, dt = 0.5, 0.25
        a0 = inp.real("a0")
        eom = FieldEom(inp, self.kind, dims)
        systems = [make_system(inp, "s%d" % s, d, N, True, self.coupling) for s, d in enumerate(dims)]
        rho0s = [inp.arr("r%d" % s, (d, d)) for s, d in enumerate(dims)]
        if self.layout == "F":
            rho0s = [np.asfortranarray(x) for x in rho0s]
        infl = [lib.Influences(inp, d, K, name="I%d" % s) for s, d in enumerate(dims)]
        mfs = oqupy.MeanFieldSystem(systems, eom)
        # method 1: MeanFieldTempo (real compute)
        from oqupy.config import SUBDIV_LIMIT, INTEGRATE_EPSREL
        pkw = {} if self.subdiv == "default" else {"subdiv_limit": None}
        tpar = tempo_mod.TempoParameters(dt=dt, epsrel=lib.EPS_REAL, dkmax=K, **pkw)
        mt = make_mean_field_tempo(mfs, systems, rho0s, a0, start, dt, K, infl, lib.EPS_REAL, parameters=tpar)
        d1 = mt.compute(start + N * dt, progress_type="silent")
        # method 2: process tensors from the same influences + compute_dynamics_with_field
        pts = [lib.run_pt_tempo(inp, infl[s], N, K, d, dt=dt) for s, d in enumerate(dims)]
        d2 = sd.compute_dynamics_with_field(mfs, initial_field=a0, process_tensor_list=pts, initial_state_list=rho0s,
                                            start_time=start, record_all=self.record_all, progress_type="silent", **pkw)
        f1, f2 = list(d1._fields), list(d2._fields)
        s1 = [lib.dynamics_states(x) for x in d1.system_dynamics]
        s2 = [lib.dynamics_states(x) for x in d2.system_dynamics]
        obs = [Ob.holds("MeanFieldTempo lengths", len(f1) == N + 1 and len(d1._times) == N + 1)]
        # both routes build the system propagators from the same (dt, start_time, subdiv_limit, epsrel)
        want_sub = SUBDIV_LIMIT if self.subdiv == "default" else None
        for s, system in enumerate(systems):
            c = system.gp_full
            obs.append(Ob.holds("system %d: get_propagators called once per method" % s, len(c) == 2))
            if len(c) == 2:
                obs.append(Ob.eq("system %d: both methods give get_propagators the same dt and start_time" % s,
                                 [c[0][0], c[0][1]], [c[1][0], c[1][1]]))
                obs.append(Ob.eq("system %d: dt and start_time given to get_propagators" % s, [c[1][0], c[1][1]], [dt, start]))
                obs.append(Ob.holds("system %d: both methods give get_propagators the same subdiv_limit and epsrel" % s,
                                    c[0][2] == c[1][2] and c[0][3] == c[1][3]))
                obs.append(Ob.holds("system %d: MeanFieldTempo forwards subdiv_limit=%s and the Liouvillian epsrel" % (s, want_sub),
                                    c[0][2] == want_sub and c[0][3] == INTEGRATE_EPSREL))
                obs.append(Ob.holds("system %d: compute_dynamics_with_field forwards subdiv_limit=%s and the Liouvillian epsrel"
                                    % (s, want_sub), c[1][2] == want_sub and c[1][3] == INTEGRATE_EPSREL))
        if self.record_all:
            obs.append(Ob.holds("lengths", len(f2) == N + 1))
            obs.append(Ob.holds("times", [float(t) for t in d1._times] == [float(t) for t in d2._times]
                                and [float(t) for t in d1._times] == [start + n * dt for n in range(N + 1)]))
            pairs = [(n, n) for n in range(N + 1)]
        else:
            obs.append(Ob.holds("lengths", len(f2) == 1))
            pairs = [(N, 0)]
        for n, i in pairs:
            if n < len(f1) and i < len(f2):
                mk = _mk_eq(self.som)
                obs.append(mk(inp, "field %d" % n, _scal(f2[i]), _scal(f1[n])))
                for s in range(len(dims)):
                    obs.append(mk(inp, "system %d state %d" % (s, n), s2[s][i], s1[s][n]))
        return Guard(inp).all(obs)


# --------------------------------------------------------------------------
# H2: TimeDependentSystemWithField.get_propagators closures
# --------------------------------------------------------------------------
class ExpmStub:
    """records its argument; returns a fresh symbolic matrix per call (expm is outside the claim)"""

    def __init__(self, inp):
        self.inp = inp
        self.args = []
        self.outs = []

    def __call__(self, m):
        k = len(self.args)
        self.args.append(np.array(m))
        out = self.inp.arr("X%d" % k, np.shape(m))
        self.outs.append(out)
        return out


class QuadStub:
    """quad_vec for integrands affine in the integration variable: the midpoint rule IS the integral"""

    def __init__(self):
        self.calls = []

    def __call__(self, f, a, b, epsrel=None, limit=None, **kw):
        self.calls.append((a, b, epsrel, limit))
        return (b - a) * f((a + b) / 2), None


def liouvillian_oracle(inp, H):
    """vec(-i (H rho - rho H)) in the row-major vectorisation, entry by entry:
    L[(i,j),(k,l)] = -i (H[i,k] delta_jl - delta_ik H[l,j])"""
    d = H.shape[0]
    L = np.empty((d * d, d * d), dtype=complex if inp.mode == "real" else object)
    for i in range(d):
        for j in range(d):
            for k in range(d):
                for l in range(d):
                    v = inp.zero()
                    if j == l:
                        v = v + H[i, k]
                    if i == k:
                        v = v - H[l, j]
                    L[i * d + j, k * d + l] = v * (-1j)
    return L


class H2(Case):
    functions = ("TimeDependentSystemWithField.get_propagators", "TimeDependentSystemWithField.liouvillian",
                 "TimeDependentSystemWithField._linearised_hamiltonian", "TimeDependentSystemWithField._linearised_field",
                 "system._liouvillian", "operators.commutator")
    stubs = ("scipy.linalg.expm -> records its argument, returns a fresh symbolic matrix",
             "scipy.integrate.quad_vec -> midpoint rule (exact for the affine-in-time integrands used)",
             "user Hamiltonian H(t, a) = H0 + t*H1 + a*H2 with symbolic real matrices; no Lindblad terms")
    timeout_s = 120

    def __init__(self, subdiv, d=2):
        self.subdiv, self.d = subdiv, d
        self.id = "H2/get_propagators_%s_d%d" % ("sampled" if subdiv is None else "integrated", d)
        self.bounds = {"d": d, "subdiv_limit": subdiv, "steps": [0, 1, 2]}
        self.env = {"extra": sym_env_extra()}

    def run(self, inp):
        d = self.d
        H0, H1, H2_ = (inp.arr(n, (d, d)) for n in ("H0", "H1", "H2"))
        start = inp.real("t0", lo=-2, hi=2)
        dt = inp.real("dt", lo=0.25, hi=2)

        def ham(t, a):
            return H0 + t * H1 + a * H2_
        system = oqupy.TimeDependentSystemWithField(ham)
        # np.vectorize (installed by the real __init__) cannot carry symbolic scalars; the
        # documented meaning of the stored callable is the user's function itself
        system._hamiltonian = ham
        ex, qv = ExpmStub(inp), QuadStub()
        from vf.env import patched
        with patched({"oqupy.system.expm": ex, "oqupy.system.integrate": types.SimpleNamespace(quad_vec=qv)}):
            props = system.get_propagators(dt, start, self.subdiv, 1e-6)
            obs = []
            for step in (0, 1, 2):
                f = inp.real("f%d" % step)
                g = inp.real("g%d" % step)
                k = len(ex.args)
                p1, p2 = props(step, f, g)
                t = start + step * dt
                e1 = liouvillian_oracle(inp, ham(t + dt / 4, f + g * (dt / 4))) * (dt / 2)
                e2 = liouvillian_oracle(inp, ham(t + 3 * dt / 4, f + g * (3 * dt / 4))) * (dt / 2)
                obs.append(Ob.holds("step %d: two exponentials" % step, len(ex.args) == k + 2))
                if len(ex.args) == k + 2:
                    obs.append(Ob.eq("step %d: generator of the first half step" % step, ex.args[k], e1))
                    obs.append(Ob.eq("step %d: generator of the second half step" % step, ex.args[k + 1], e2))
                    obs.append(Ob.eq("step %d: first propagator returned first" % step, p1, ex.outs[k]))
                    obs.append(Ob.eq("step %d: second propagator returned second" % step, p2, ex.outs[k + 1]))
                if self.subdiv is not None:
                    lims = qv.calls[-2:]
                    obs.append(Ob.holds("step %d: two quadratures" % step, len(qv.calls) == 2 * (step + 1)))
                    if len(lims) == 2:
                        obs.append(Ob.eq("step %d: integration limits" % step, [lims[0][0], lims[0][1], lims[1][0], lims[1][1]],
                                         [t, t + dt / 2, t + dt / 2, t + dt]))
                        obs.append(Ob.holds("step %d: epsrel and subdivision limit forwarded" % step,
                                            all(c[2] == 1e-6 and c[3] == self.subdiv for c in lims)))
        return Guard(inp).all(obs)


# --------------------------------------------------------------------------
# H2 with time-dependent dissipators: every ingredient of the generator at the sample time
# --------------------------------------------------------------------------
_UF = {}


def _uf(name, nargs):
    if name not in _UF:
        _UF[name] = z3.Function(name, *([z3.RealSort()] * (nargs + 1)))
    return _UF[name]


class OpaqueModel:
    """user functions H(t, a), gamma_k(t), A_k(t): uninterpreted functions (real valued) in the symbolic
    run, fixed-degree polynomials with seeded coefficients in the concrete runs"""

    def __init__(self, inp, d, k):
        self.inp, self.d, self.k = inp, d, k
        if not inp.symbolic:
            self.Hc = [inp.arr("Hc%d" % i, (d, d)) for i in range(4)]
            self.G = inp.arr("Gc", (k, 3))
            self.LA = [inp.arr("LA%d" % j, (d, d)) for j in range(k)]
            self.LB = [inp.arr("LB%d" % j, (d, d)) for j in range(k)]

    def _app(self, name, *args):
        args = [S.of(a) for a in args]
        return S(_uf(name, len(args))(*[sym.zr(a.re) for a in args]))

    def ham(self, t, a):
        if not self.inp.symbolic:
            return self.Hc[0] + t * self.Hc[1] + a * self.Hc[2] + (t * a) * self.Hc[3]
        out = np.empty((self.d, self.d), dtype=object)
        for i in range(self.d):
            for j in range(self.d):
                out[i, j] = self._app("ham_%d_%d" % (i, j), t, a)
        return out

    def gamma(self, j):
        def g(t):
            if not self.inp.symbolic:
                return self.G[j, 0] + self.G[j, 1] * t + self.G[j, 2] * t * t
            return self._app("gam_%d" % j, t)
        return g

    def lop(self, j):
        def a(t):
            if not self.inp.symbolic:
                return self.LA[j] + t * self.LB[j]
            out = np.empty((self.d, self.d), dtype=object)
            for r in range(self.d):
                for c in range(self.d):
                    out[r, c] = self._app("lop%d_%d_%d" % (j, r, c), t)
            return out
        return a


def lindblad_oracle(inp, H, gammas, ops):
    """row-major vectorisation, real Lindblad operators A (A^dagger = A^T), entry by entry:
    L = -i[H,.] + sum_k g_k ( A (x) A - 1/2 (A^T A) (x) 1 - 1/2 1 (x) (A^T A)^T )"""
    d = H.shape[0]
    L = liouvillian_oracle(inp, H)
    for g, A in zip(gammas, ops):
        AtA = A.T @ A
        for i in range(d):
            for j in range(d):
                for k in range(d):
                    for l in range(d):
                        v = A[i, k] * A[j, l]
                        if j == l:
                            v = v - AtA[i, k] / 2
                        if i == k:
                            v = v - AtA[l, j] / 2
                        L[i * d + j, k * d + l] = L[i * d + j, k * d + l] + g * v
    return L


class ThetaQuad:
    """quad_vec for opaque integrands: the value depends on the integrand only through its values on
    [a, b]; the stub evaluates it at the arbitrary point a + theta (b - a), theta symbolic in [0, 1], and
    records the limits -- two integrands that agree there for all theta agree on the whole interval"""

    def __init__(self, theta):
        self.theta = theta
        self.calls = []

    def __call__(self, f, a, b, epsrel=None, limit=None, **kw):
        self.calls.append((a, b, epsrel, limit))
        return (b - a) * f(a + self.theta * (b - a)), None


class H2D(Case):
    functions = H2.functions + ("TimeDependentSystem.get_propagators", "TimeDependentSystem.liouvillian")
    stubs = ("scipy.linalg.expm -> records its argument, returns a fresh symbolic matrix",
             "scipy.integrate.quad_vec -> (b-a)*integrand(a + theta (b-a)) with symbolic theta in [0,1], limits recorded",
             "user Hamiltonian H(t, a), rates gamma_k(t), Lindblad operators A_k(t) -> uninterpreted real-valued functions",
             "np.vectorize wrappers installed by the constructors replaced by the user's callables themselves")
    timeout_s = 120
    first_timeout_s = 5

    def __init__(self, subdiv, k, d=2):
        self.subdiv, self.k, self.d = subdiv, k, d
        self.id = "H2/dissipators_%s_k%d_d%d" % ("sampled" if subdiv is None else "integrated", k, d)
        self.bounds = {"d": d, "subdiv_limit": subdiv, "dissipators": k, "steps": [0, 1]}
        self.env = {"extra": sym_env_extra()}

    def run(self, inp):
        d, k = self.d, self.k
        start = inp.real("t0", lo=-2, hi=2)
        dt = inp.real("dt", lo=0.25, hi=2)
        theta = inp.real("theta", lo=0, hi=1)
        mdl = OpaqueModel(inp, d, k)
        gam = [mdl.gamma(j) for j in range(k)]
        lops = [mdl.lop(j) for j in range(k)]
        dummy_g = [(lambda t: 1.0) for _ in range(k)]
        dummy_a = [(lambda t: np.identity(d)) for _ in range(k)]
        from vf.env import patched
        obs = []
        for step in (0, 1):
            f = inp.real("f%d" % step)
            g = inp.real("g%d" % step)
            tn = start + step * dt
            # the system under test
            sysf = oqupy.TimeDependentSystemWithField(lambda t, a: np.zeros((d, d)) + 0.0 * t, gammas=dummy_g,
                                                      lindblad_operators=dummy_a)
            sysf._hamiltonian, sysf._gammas, sysf._lindblad_operators = mdl.ham, list(gam), list(lops)
            # the plain time-dependent system with the Hamiltonian along the linearised field of this step
            plain_h = (lambda tau, f=f, g=g, tn=tn: mdl.ham(tau, f + g * (tau - tn)))
            sysp = oqupy.TimeDependentSystem(lambda t: np.zeros((d, d)) + 0.0 * t, gammas=dummy_g, lindblad_operators=dummy_a)
            sysp._hamiltonian, sysp._gammas, sysp._lindblad_operators = plain_h, list(gam), list(lops)
            ex1, ex2 = ExpmStub(inp), ExpmStub(inp)
            q1, q2 = ThetaQuad(theta), ThetaQuad(theta)
            with patched({"oqupy.system.expm": ex1, "oqupy.system.integrate": types.SimpleNamespace(quad_vec=q1)}):
                sysf.get_propagators(dt, start, self.subdiv, 1e-6)(step, f, g)
            with patched({"oqupy.system.expm": ex2, "oqupy.system.integrate": types.SimpleNamespace(quad_vec=q2)}):
                sysp.get_propagators(dt, start, self.subdiv, 1e-6)(step)
            obs.append(Ob.holds("step %d: two exponentials each" % step, len(ex1.args) == 2 and len(ex2.args) == 2))
            if len(ex1.args) != 2 or len(ex2.args) != 2:
                continue
            if self.subdiv is None:
                pts = [(tn + dt / 4, dt / 2), (tn + 3 * dt / 4, dt / 2)]
            else:
                pts = [(tn + theta * (dt / 2), dt / 2), (tn + dt / 2 + theta * (dt / 2), dt / 2)]
                lim = [c[:2] for c in q1.calls]
                obs.append(Ob.holds("step %d: two quadratures" % step, len(q1.calls) == 2 and len(q2.calls) == 2))
                if len(q1.calls) == 2:
                    obs.append(Ob.eq("step %d: integration limits" % step, [lim[0][0], lim[0][1], lim[1][0], lim[1][1]],
                                     [tn, tn + dt / 2, tn + dt / 2, tn + dt]))
            for h, (ts, w) in enumerate(pts):
                half = "first" if h == 0 else "second"
                obs.append(Ob.eq("step %d: %s half-step generator == plain TimeDependentSystem" % (step, half),
                                 ex1.args[h], ex2.args[h]))
                exp = lindblad_oracle(inp, mdl.ham(ts, f + g * (ts - tn)), [x(ts) for x in gam], [x(ts) for x in lops]) * w
                obs.append(Ob.eq("step %d: %s half-step generator, every ingredient at the sample time" % (step, half),
                                 ex1.args[h], exp))
        return Guard(inp).all(obs)



def cases(tier):
    cs = [
        # compute_dynamics_with_field, autonomous equation of motion: holds
        Cdwf("auto", 2), Cdwf("auto", 3, bond=1, coupling="sparse"), Cdwf("auto", 2, record_all=False),
        Cdwf("auto", 2, dims=(2, 2), bond=1, coupling="sparse"), Cdwf("auto", 2, symtime=False),
        Cdwf("polyauto", 2, bond=1),
        # explicit time dependence: expected known finding (time shifted by one step).  The uninterpreted
        # equation of motion is used with one step only: refuting with nested uninterpreted terms is not
        # reliably within reach of the solver; N >= 2 uses the polynomial family
        Cdwf("linear", 3, bond=1, coupling="none"), Cdwf("poly", 2, bond=1, coupling="sparse"),
        Cdwf("uf", 1, bond=1, coupling="sparse"),
        # MeanFieldTempo
        Mft("uf", 2, 1), Mft("linear", 3, 2, coupling="none"), Mft("uf", 2, None, coupling="none"),
        Mft("poly", 2, 1, coupling="sparse"),
        # cross-method
        Cross("polyauto", 2, 1), Cross("poly", 2, 1), Cross("polyauto", 2, 1, layout="F"),
        Cross("polyauto", 2, 1, subdiv="none"),
        # two systems with DIFFERENT baths (separate symbolic influence matrices I0*, I1*): system s must use bath s
        Mft("poly", 2, 1, dims=(2, 2), coupling="sparse"), Cross("polyauto", 2, 1, dims=(2, 2)),
        Mft("poly", 2, 1, coupling="sparse", layout="F"),
        H2(None), H2(4), H2D(None, 1), H2D(4, 2),
    ]
    if tier == "thorough":
        cs += [
            Cdwf("auto", 3), Cdwf("auto", 2, dims=(2, 3), bond=1, coupling="sparse"), Cdwf("auto", 2, nenv=2, bond=1),
            Cdwf("auto", 3, record_all=False, bond=1), Cdwf("auto", 2, dims=(2, 2, 2), bond=1, coupling="sparse"),
            Cdwf("polyauto", 3, bond=1, coupling="sparse"),
            Cdwf("poly", 3, bond=1, coupling="none"), Cdwf("poly", 2, record_all=False, bond=1, coupling="sparse"),
            Cdwf("linear", 3, symtime=False, bond=1, coupling="none"), Cdwf("poly", 2, dims=(2, 2), bond=1, coupling="none"),
            Cdwf("uf", 1, symtime=False, bond=1, coupling="sparse"),
            Mft("uf", 3, 1, coupling="sparse"), Mft("uf", 3, 2, coupling="sparse"), Mft("auto", 2, 1, dims=(2, 2), coupling="sparse"),
            Mft("uf", 3, None, coupling="sparse"), Mft("linear", 3, 1), Mft("poly", 3, 2, coupling="sparse"),
            Cross("polyauto", 3, 1, coupling="none"), Cross("polyauto", 3, 2, coupling="none"), Cross("polyauto", 2, 1, dims=(2, 2)),
            Cross("polyauto", 2, 1, record_all=False), Cross("poly", 3, 2, coupling="none"), Cross("polyauto", 3, None, coupling="none"),
            Cross("polyauto", 2, 2), Cross("polyauto", 2, None), Cross("polyauto", 2, 2, dims=(2, 2), layout="F"), Cross("poly", 2, 2, dims=(2, 2), subdiv="none"),
            Mft("uf", 3, 2, coupling="sparse", layout="F"),
            H2(None, d=3), H2D(None, 2), H2D(4, 1),
        ]
    return cs
