"""C20 -- results depend only on current inputs: no mutation, aliasing or stale state (partial).

H1  stale memo: real `CustomSD/PowerLawSD.eta_function`, `.correlation_2d_integral`, `.correlation`,
    `.spectral_density`, `CustomCorrelations.correlation_2d_integral` (real functools.lru_cache) and
    `System.liouvillian`; history = call, update ONE public attribute to a second symbolic value,
    call again; asserted: second answer == answer of a freshly built equal object.
H2  `Bath(coupling_operator, correlations)` then update the original correlations object;
    asserted: the Bath's correlations object still answers with the old symbolic values.
H3  caller arrays untouched (and results layout-independent) after compute_dynamics,
    compute_gradient_and_dynamics, Tempo(...)+compute, AugmentedMPS(...), Control.add_single, for
    C-contiguous / Fortran / strided / read-only inputs holding symbolic entries.  The layout is an
    enumerated concrete configuration: the solver contributes nothing to the layout part (it decides
    "values unchanged / results equal for all entry values").
    + caller arrays kept by reference (later caller-side writes change a later computation).
H4  re-use of process tensor / system / control objects in two computations, both orders, equals
    fresh copies (polynomial identities).
"""
from fractions import Fraction as Fr

import numpy as np
import z3

import oqupy
import oqupy.bath_correlations as bc
import oqupy.system_dynamics as sd
import oqupy.gradient as gr
import oqupy.tempo as tempo
import oqupy.mps_mpo as mm
from oqupy.control import Control
from oqupy.config import INTEGRATE_EPSREL, SUBDIV_LIMIT

from vf.core import Case, Ob
from vf import lib, sym
from vf.sym import S, zr
from vf import bathsym as bs
from checks.c03 import build_pt
import contextlib
import io
import oqupy.dynamics as dynm
from oqupy.control import ChainControl

ASSUMPTIONS = [
    "exact real/complex arithmetic (floating-point rounding outside the claim)",
    "quadrature is an uninterpreted function of the integrand's value at one generic frequency and of the limits "
    "(equal integrands and limits give equal results; nothing else assumed); np.exp uninterpreted (congruence)",
    "only plain assignments to PUBLIC attributes (no leading underscore) count as parameter updates",
    "memory layout (C / Fortran / strided / read-only) is enumerated concretely; the solver decides the value part only",
]

R = z3.RealSort()


# --------------------------------------------------------------------------
# H1 / H2 building blocks
# --------------------------------------------------------------------------
class Par:
    """symbolic parameter set of a correlations object + a second value for every attribute"""

    def __init__(self, inp, zeta=(1, 2), robust=False):
        # `robust`: keep the two values of an attribute >= 1/2 apart so that a solver model replays
        # visibly on the real quadrature
        self.inp = inp
        r = inp.real
        gap = (lambda n: r(n + "_gap", lo=Fr(1, 2), hi=1)) if robust else (lambda n: r(n + "_gap", lo=Fr(1, 100), hi=1))
        self.T = r("T", lo=Fr(1, 2), hi=2)
        self.T2 = self.T + gap("T")
        self.wc = r("wc", lo=1, hi=2)
        self.wc2 = self.wc + gap("wc")
        self.al = r("al", lo=Fr(1, 2), hi=1)
        self.al2 = self.al + gap("al")
        self.A = r("A", lo=Fr(1, 2), hi=1)
        self.A2 = self.A + gap("A")
        self.tau = r("tau", lo=Fr(1, 2), hi=2)
        self.w = r("w", lo=Fr(1, 2), hi=2)
        self.delta = r("delta", lo=Fr(1, 4), hi=Fr(1, 2))
        self.zeta, self.zeta2 = zeta
        self.ct, self.ct2 = "exponential", "gaussian"

    def j(self, A):
        return lambda w: A * w

    def spw(self, x):
        return x if self.inp.mode == "real" else bs.sp(x)

    def build(self, cls, **over):
        v = {"T": self.T, "wc": self.wc, "al": self.al, "A": self.A, "zeta": self.zeta, "ct": self.ct}
        v.update(over)
        if cls == "sd":
            return bc.CustomSD(self.j(v["A"]), v["wc"], v["ct"], v["T"])
        return bc.PowerLawSD(v["al"], v["zeta"], self.spw(v["wc"]), v["ct"], v["T"])

    # attribute name -> (build override key, new value as stored by a user assignment)
    def update(self, obj, attr):
        if attr == "temperature":
            obj.temperature = self.T2
            return {"T": self.T2}
        if attr == "cutoff":
            obj.cutoff = self.spw(self.wc2)
            return {"wc": self.wc2}
        if attr == "alpha":
            obj.alpha = self.al2
            return {"al": self.al2}
        if attr == "zeta":
            obj.zeta = float(self.zeta2)
            return {"zeta": self.zeta2}
        if attr == "cutoff_type":
            obj.cutoff_type = self.ct2
            return {"ct": self.ct2}
        if attr == "j_function":
            obj.j_function = np.vectorize(self.j(self.A2))
            return {"A": self.A2}
        raise KeyError(attr)

    def call(self, obj, method):
        if method == "spectral_density":
            return obj.spectral_density(self.w)
        if method == "correlation":
            return obj.correlation(self.tau)
        if method == "eta_function":
            return obj.eta_function(self.tau)
        if method == "correlation_2d_integral":
            return obj.correlation_2d_integral(self.delta, self.tau)
        if method == "j_value":
            return obj.j_function(self.w)
        if method == "attribute":
            return None
        raise KeyError(method)


class _QuadCase(Case):
    stubs = ("integrate.quad/dblquad -> uninterpreted function of (integrand value at a generic symbolic frequency, limits); "
             "real mode: the untouched QUADPACK", "np.exp -> uninterpreted (congruence)",
             "np.finfo(float).eps -> exact 2^-52")
    max_paths = 256
    tol = 1e-6

    def _setup(self):
        self.late = bs.Late()
        self.env = bs.bc_env(integrate=self.late, more={"oqupy.bath.NpDtype": np.complex128})
        self.real_env = {}

    def _quad(self, inp):
        wstar = inp.real("wstar", lo=Fr(1, 2), hi=2)
        self.late.set(bs.UFQuad(inp, wstar))


MEMO = ("eta_function", "correlation_2d_integral")


class H1(_QuadCase):
    functions = ("bath_correlations.CustomSD.*", "bath_correlations.PowerLawSD.__init__", "bath_correlations._complex_integral")

    def __init__(self, cls, attr, method):
        self.cls, self.attr, self.method = cls, attr, method
        kind = "memo" if method in MEMO else "live"
        self.id = "H1/%s_%s_%s_%s" % (kind, cls, attr, method)
        self.bounds = {"class": {"sd": "CustomSD", "pl": "PowerLawSD"}[cls], "attribute": attr, "method": method}
        self._setup()

    def run(self, inp):
        P = Par(inp, robust=True)
        self._quad(inp)
        obj = P.build(self.cls)
        first = P.call(obj, self.method)
        over = P.update(obj, self.attr)
        second = P.call(obj, self.method)
        fresh = P.call(P.build(self.cls, **over), self.method)
        obs = [Ob.eq("%s after %s update == freshly built equal object" % (self.method, self.attr), second, fresh,
                     key="after_update_eq_fresh")]
        if self.method not in MEMO:     # (memo cases carry exactly one obligation: their keys are listed as known findings)
            obs.append(Ob.eq("repeated call without update is stable", P.call(P.build(self.cls), self.method), first, key="stable"))
        return obs


_CF = (z3.Function("Cfam_re", R, R, R), z3.Function("Cfam_im", R, R, R))


class H1cc(_QuadCase):
    """CustomCorrelations: assign a new `correlation_function`"""
    functions = ("bath_correlations.CustomCorrelations.*",)

    def __init__(self, method):
        self.method = method
        self.id = "H1/%s_cc_correlation_function_%s" % ("memo" if method == "correlation_2d_integral" else "live", method)
        self.bounds = {"class": "CustomCorrelations", "attribute": "correlation_function", "method": method}
        self._setup()

    def run(self, inp):
        self._quad(inp)
        p1 = inp.real("p", lo=Fr(1, 2), hi=1)
        p2 = p1 + inp.real("p_gap", lo=Fr(1, 2), hi=1)
        d = inp.real("delta", lo=Fr(1, 4), hi=Fr(1, 2))
        t1 = inp.real("t1", lo=Fr(1, 2), hi=2)

        def fam(p):       # user correlation function with a parameter
            return lambda t: p * (1 + t * Fr(1, 5)) + 1j * (p * p * t * Fr(1, 3))

        def call(o):
            if self.method == "correlation":
                return o.correlation(t1)
            return o.correlation_2d_integral(d, t1)
        cc = bc.CustomCorrelations(fam(p1))
        first = call(cc)
        cc.correlation_function = np.vectorize(fam(p2))
        second = call(cc)
        fresh = call(bc.CustomCorrelations(fam(p2)))
        obs = [Ob.eq("%s after correlation_function update == fresh object" % self.method, second, fresh, key="after_update_eq_fresh")]
        if self.method == "correlation":
            obs.append(Ob.eq("repeated call without update is stable", call(bc.CustomCorrelations(fam(p1))), first, key="stable"))
        return obs


class H1stable(_QuadCase):
    """memoised methods: repeated calls on one object (memo hits) == first answer == fresh object"""
    functions = ("bath_correlations.CustomSD.eta_function", "bath_correlations.CustomSD.correlation_2d_integral")

    def __init__(self, cls):
        self.cls = cls
        self.id = "H1/stable_%s" % cls
        self.bounds = {"class": cls}
        self._setup()

    def run(self, inp):
        P = Par(inp)
        self._quad(inp)
        obj = P.build(self.cls)
        obs = []
        for m in MEMO:
            a = P.call(obj, m)
            b = P.call(obj, m)
            c = P.call(P.build(self.cls), m)
            obs += [Ob.eq("%s: second call == first" % m, b, a), Ob.eq("%s: == fresh object" % m, c, a)]
        return obs


class H1args(_QuadCase):
    """memo keys cover ALL call arguments: on ONE object the memoised methods are called at the same tau /
    cell with different matsubara / epsrel / subdiv_limit values, in two orders; every answer == answer of
    a freshly built equal object for the same arguments (results depend only on the current arguments,
    not on earlier calls: e.g. the same bath handed to Tempo and to GibbsTempo on the same grid).
    The quadrature stand-in depends on (integrand value, limits) and, through an uninterpreted term, on
    (epsrel, limit).  Real stack: real-time vs Matsubara values differ visibly; a dependence on
    epsrel / subdiv_limit alone is usually below the comparison tolerance there (a solver model for such a
    breakage would come out as inconclusive, exit 2, not as success)."""
    functions = ("bath_correlations.CustomSD.eta_function", "bath_correlations.CustomSD.correlation_2d_integral")

    def __init__(self, cls, method):
        self.cls, self.method = cls, method
        self.id = "H1/args_%s_%s" % (cls, method)
        self.bounds = {"class": cls, "method": method, "variants": "matsubara in {F,T}, epsrel in {default, 2^-20}, subdiv_limit in {default, 40}; times <= 1/T"}
        self._setup()

    def _quad(self, inp):
        wstar = inp.real("wstar", lo=Fr(1, 2), hi=2)
        self.late.set(bs.UFQuad(inp, wstar, tol_dependent=True))

    def run(self, inp):
        P = Par(inp)
        # imaginary time lives in [0, 1/T]: keep every queried time below 1/T (documented Matsubara domain)
        P.T = inp.real("Tm", lo=Fr(1, 2), hi=1)
        P.tau = inp.real("taum", lo=Fr(1, 4), hi=Fr(1, 2))
        self._quad(inp)
        variants = [("default", {}), ("matsubara", {"matsubara": True}), ("epsrel", {"epsrel": 2.0 ** -20}),
                    ("subdiv_limit", {"subdiv_limit": 40}), ("matsubara+epsrel", {"matsubara": True, "epsrel": 2.0 ** -20}),
                    ("default again", {})]

        def call(o, kw):
            if self.method == "eta_function":
                return o.eta_function(P.tau, **kw)
            return o.correlation_2d_integral(P.delta, P.tau, shape="upper-triangle", **kw)
        fresh = [call(P.build(self.cls), kw) for _, kw in variants]
        obs = []
        for oname, order in (("forward", list(range(len(variants)))), ("backward", list(reversed(range(len(variants)))))):
            o = P.build(self.cls)
            for i in order:
                nm, kw = variants[i]
                obs.append(Ob.eq("%s order: %s(%s) == fresh object" % (oname, self.method, nm), call(o, kw), fresh[i], key="args_history"))
        return obs


class H1sys(Case):
    """System.liouvillian memo: System has no public mutator (hamiltonian/gammas/lindblad_operators are
    read-only properties returning copies), so the memo cannot go stale through public updates; checked:
    repeated calls, writes into the arrays returned by the getters, equality with a fresh object."""
    functions = ("system.System.liouvillian", "system._liouvillian", "system.System.hamiltonian")
    id = "H1/system_liouvillian"
    bounds = {"d": 2, "lindblad_operators": 1}
    env = {"extra": {"oqupy.system.float": bs.bs_float}}

    def run(self, inp):
        d = 2
        H = inp.arr("H", (d, d), cplx=True)
        Lop = inp.arr("L", (d, d), cplx=True)
        g = inp.real("g", lo=0, hi=2)
        mk = lambda: oqupy.System(H, gammas=[g], lindblad_operators=[Lop])
        s = mk()
        l1 = s.liouvillian().copy()
        h = s.hamiltonian
        obs = [Ob.holds("no public setter: hamiltonian", _no_setter(s, "hamiltonian")),
               Ob.holds("no public setter: gammas", _no_setter(s, "gammas")),
               Ob.holds("no public setter: lindblad_operators", _no_setter(s, "lindblad_operators"))]
        h2 = np.array(h)
        h2[0, 0] = h2[0, 0] + 1           # write into (a copy of) what the getter returned
        try:
            h[0, 0] = h[0, 0] + 1         # the returned array itself (may be read-only)
        except ValueError:
            pass
        gl = s.gammas
        gl[0] = gl[0] + 1
        l2 = s.liouvillian()
        obs += [Ob.eq("liouvillian stable after writes into getter results", l2, l1),
                Ob.eq("liouvillian == fresh object", mk().liouvillian(), l1),
                Ob.eq("hamiltonian getter unaffected", s.hamiltonian, H),
                Ob.eq("caller's H untouched", H, inp.arr("H", (d, d), cplx=True))]
        return obs


def _no_setter(obj, name):
    p = getattr(type(obj), name, None)
    return isinstance(p, property) and p.fset is None and name not in vars(obj)


class H2(_QuadCase):
    functions = ("bath.Bath.__init__", "bath.Bath.correlations", "bath_correlations.CustomSD.*")

    def __init__(self, cls, attr, observable):
        self.cls, self.attr, self.observable = cls, attr, observable
        via = "self" if attr == "temperature" else "closure"
        self.id = "H2/bath_%s_%s_%s_%s" % (via, cls, attr, observable)
        self.bounds = {"class": {"sd": "CustomSD", "pl": "PowerLawSD"}[cls], "attribute": attr, "observable": observable}
        self._setup()

    def run(self, inp):
        P = Par(inp, robust=True)
        self._quad(inp)
        corr = P.build(self.cls)
        bath = oqupy.Bath(np.array([[0.5, 0.0], [0.0, -0.5]]), corr)
        if self.observable == "attribute":
            get = lambda: getattr(bath.correlations, self.attr)
            if self.attr in ("j_function", "cutoff_type"):
                before = get()
                P.update(corr, self.attr)
                return [Ob.holds("bath.correlations.%s unchanged" % self.attr, get() is before or get() == before, key="unaffected")]
        else:
            get = lambda: P.call(bath.correlations, self.observable)
        before = get()
        P.update(corr, self.attr)
        after = get()
        fresh_old = oqupy.Bath(np.array([[0.5, 0.0], [0.0, -0.5]]), P.build(self.cls))
        exp = getattr(fresh_old.correlations, self.attr) if self.observable == "attribute" else P.call(fresh_old.correlations, self.observable)
        return [Ob.eq("bath.correlations.%s unaffected by a later update of the original's %s" % (self.observable, self.attr),
                      after, before, key="unaffected"),
                Ob.eq("... and equal to a bath built from an equal, never updated object", after, exp, key="unaffected_fresh")]


class H2getter(_QuadCase):
    """what the Bath getters hand out are copies: updating them does not reach the bath"""
    functions = ("bath.Bath.correlations", "bath.Bath.coupling_operator", "bath.Bath.unitary_transform")
    id = "H2/bath_getters_return_copies"
    bounds = {"class": "CustomSD"}

    def __init__(self):
        self._setup()

    def run(self, inp):
        P = Par(inp, robust=True)
        self._quad(inp)
        bath = oqupy.Bath(np.array([[0.5, 0.0], [0.0, -0.5]]), P.build("sd"))
        before = P.call(bath.correlations, "correlation")
        c = bath.correlations
        c.temperature = P.T2
        after = P.call(bath.correlations, "correlation")
        obs = [Ob.eq("bath.correlations.correlation unaffected by an update of a handed-out correlations object", after, before)]
        for name in ("coupling_operator", "unitary_transform", "coupling_comm", "coupling_acomm"):
            a = getattr(bath, name)
            ref = np.array(a)
            try:
                a[...] = 7.0
            except ValueError:
                pass
            obs.append(Ob.eq("bath.%s unaffected by a write into the handed-out array" % name, getattr(bath, name), ref))
        return obs


# --------------------------------------------------------------------------
# H3 layouts
# --------------------------------------------------------------------------
LAYOUTS = ("C", "F", "strided", "readonly")


def laid_out(base, layout):
    """array with the logical values of `base` in the requested memory layout"""
    if layout == "C":
        return np.ascontiguousarray(base.copy())
    if layout == "F":
        a = np.asfortranarray(base.copy())
        assert base.ndim < 2 or min(base.shape) < 2 or not a.flags.c_contiguous
        return a
    if layout == "readonly":
        a = base.copy()
        a.setflags(write=False)
        return a
    if layout == "strided":
        big = np.zeros(tuple(2 * s for s in base.shape), dtype=base.dtype)
        if base.dtype == object:
            for idx in np.ndindex(*big.shape):
                big[idx] = S(7)
        else:
            big[...] = 7.0
        sl = tuple(slice(None, None, 2) for _ in base.shape)
        big[sl] = base
        v = big[sl]
        assert not v.flags.c_contiguous or v.size <= 1
        return v
    raise KeyError(layout)


class Snap:
    def __init__(self, name, arr):
        self.name, self.arr = name, arr
        self.meta = (arr.shape, arr.strides, arr.flags.writeable, arr.flags.c_contiguous, arr.flags.f_contiguous, arr.dtype)
        self.copy = np.array(arr, copy=True)
        self.ids = [id(x) for x in arr.flat] if arr.dtype == object else None

    def obs(self):
        a = self.arr
        meta = (a.shape, a.strides, a.flags.writeable, a.flags.c_contiguous, a.flags.f_contiguous, a.dtype)
        return [Ob.holds("%s: shape/strides/flags/dtype unchanged" % self.name, meta == self.meta, key="caller_array_meta"),
                Ob.eq("%s: values unchanged" % self.name, np.array(a), self.copy, key="caller_array_values")]


class H3dyn(Case):
    functions = ("system_dynamics.compute_dynamics", "_compute_dynamics_input_parse")
    stubs = ("System.get_propagators -> symbolic half-step propagators",)
    env = {"noconj": True}

    def __init__(self, layout, N=2):
        self.layout, self.N = layout, N
        self.id = "H3/compute_dynamics_%s" % layout
        self.bounds = {"d": 2, "N": N, "bond": 2, "layout": layout}

    def run(self, inp):
        d, N = 2, self.N
        D = d * d
        pt, Meff, caps = build_pt(inp, "e", d, N, 2, 4, False)
        P1 = [lib.gen_prop(inp, "p%d" % k, d) for k in range(N)]
        P2 = [lib.gen_prop(inp, "q%d" % k, d) for k in range(N)]
        base = inp.arr("r", (d, d))
        cbase = inp.arr("C", (D, D))
        c2base = inp.arr("C2", (D, D))
        rho = laid_out(base, self.layout)
        cop = laid_out(cbase, self.layout)
        cop2 = laid_out(c2base, self.layout)
        snaps = [Snap("initial_state", rho), Snap("control_operation", cop), Snap("second control_operation", cop2)]
        control = Control(d)
        control.add_single(1, cop)
        control.add_single(1, cop2)              # stacked on the same step
        snaps_after_add = snaps[1].obs() + snaps[2].obs()
        dyn = sd.compute_dynamics(lib.FakeSystem(d, P1, P2), initial_state=rho, process_tensor=pt, control=control,
                                  progress_type="silent")
        st = lib.dynamics_states(dyn)
        control2 = Control(d)
        control2.add_single(1, cbase.copy())
        control2.add_single(1, c2base.copy())
        ref = lib.dynamics_states(sd.compute_dynamics(lib.FakeSystem(d, P1, P2), initial_state=base.copy(), process_tensor=pt,
                                                      control=control2, progress_type="silent"))
        obs = [o for s in snaps for o in s.obs()]
        obs += [Ob.eq("after Control.add_single: " + o.label, o.got, o.exp) if o.kind == "eq" else o for o in snaps_after_add]
        obs += [Ob.eq("state %d independent of the memory layout" % n, st[n], ref[n], key="layout_independent") for n in range(N + 1)]
        return obs


class H3grad(Case):
    functions = ("gradient.compute_gradient_and_dynamics", "gradient.forward_backward_propagation")
    stubs = ("ParameterizedSystem.get_propagators -> symbolic half-step propagators",)
    env = {"noconj": True}
    timeout_s = 300

    def __init__(self, layout, N=2):
        self.layout, self.N = layout, N
        self.id = "H3/compute_gradient_and_dynamics_%s" % layout
        self.bounds = {"d": 2, "N": N, "bond": 2, "layout": layout}

    def run(self, inp):
        d, N = 2, self.N
        pt, Meff, caps = build_pt(inp, "e", d, N, 2, 4, False)
        P1 = [lib.gen_prop(inp, "p%d" % k, d) for k in range(N)]
        P2 = [lib.gen_prop(inp, "q%d" % k, d) for k in range(N)]
        base, tbase = inp.arr("r", (d, d)), inp.arr("t", (d, d))
        rho, tgt = laid_out(base, self.layout), laid_out(tbase, self.layout)
        par = laid_out(np.zeros((2 * N, 1)), self.layout)
        snaps = [Snap("initial_state", rho), Snap("target_derivative", tgt), Snap("parameters", par)]
        g, dyn = gr.compute_gradient_and_dynamics(lib.FakeParamSystem(d, P1, P2), rho, tgt, [pt], parameters=par,
                                                  progress_type="silent")
        g2, dyn2 = gr.compute_gradient_and_dynamics(lib.FakeParamSystem(d, P1, P2), base.copy(), tbase.copy(), [pt],
                                                    parameters=np.zeros((2 * N, 1)), progress_type="silent")
        obs = [o for s in snaps for o in s.obs()]
        for n, (a, b) in enumerate(zip(lib.dynamics_states(dyn), lib.dynamics_states(dyn2))):
            obs.append(Ob.eq("state %d independent of the memory layout" % n, a, b, key="layout_independent"))
        for n, (a, b) in enumerate(zip(g, g2)):
            obs.append(Ob.eq("gradient tensor %d independent of the memory layout" % n, _tensor(a), _tensor(b), key="layout_independent"))
        return obs


def _tensor(x):
    return x.get_tensor() if hasattr(x, "get_tensor") else x


class H3mps(Case):
    functions = ("mps_mpo.AugmentedMPS.__init__",)
    env = {}

    def __init__(self, rank, layout):
        self.rank, self.layout = rank, layout
        self.id = "H3/augmented_mps_rank%d_%s" % (rank, layout)
        self.bounds = {"rank": rank, "layout": layout, "sites": 2}

    def run(self, inp):
        shape = {1: (4,), 2: (2, 2), 3: (1, 4, 1), 4: (1, 4, 1, 1)}[self.rank]
        bases = [inp.arr("g%d" % i, shape) for i in range(2)]
        gs = [laid_out(b, self.layout) for b in bases]
        snaps = [Snap("gamma %d" % i, g) for i, g in enumerate(gs)]
        mps = mm.AugmentedMPS(gs)
        obs = [o for s in snaps for o in s.obs()]
        for i, b in enumerate(bases):
            # documented completion: rank 1 (P)->(1,P,1,1); rank 2 (p,p)->(1,p*p,1,1); rank 3 (L,P,R)->(L,P,R,1)
            exp = {1: lambda x: x.reshape(1, 4, 1, 1), 2: lambda x: x.reshape(1, 4, 1, 1),
                   3: lambda x: x.reshape(1, 4, 1, 1), 4: lambda x: x}[self.rank](np.array(b))
            obs.append(Ob.eq("gamma %d stored with the documented legs, values in logical (row-major) order" % i,
                             mps.gammas[i], exp, key="layout_independent"))
        return obs


class _EtaSD(bc.CustomSD):
    def eta_function(self, tau, epsrel=INTEGRATE_EPSREL, subdiv_limit=SUBDIV_LIMIT, matsubara=False):
        t = S.of(tau)
        return S(_E[0](zr(t.re)), _E[1](zr(t.re)))


_E = (z3.Function("eta_re", R, R), z3.Function("eta_im", R, R))


def _tempo_objects(inp, d=2):
    if inp.mode == "real":
        corr = bc.PowerLawSD(alpha=0.2, zeta=1.0, cutoff=2.0, cutoff_type="exponential", temperature=0.5)
    elif inp.mode == "sym":
        corr = _EtaSD(lambda w: w, cutoff=1.0, cutoff_type="exponential", temperature=0.5)
    else:
        corr = _EtaSD(lambda w: w, cutoff=1.0, cutoff_type="exponential", temperature=0.5)
        corr.eta_function = lambda tau, **kw: S(Fr(3, 7), Fr(-1, 5)) * S.of(tau) * S.of(tau) + S(Fr(1, 6), Fr(1, 8)) * S.of(tau)
    bath = oqupy.Bath(np.array([[0.5, 0.0], [0.0, -0.5]]), corr)
    par = tempo.TempoParameters(dt=0.125, epsrel=lib.EPS_REAL, dkmax=None)
    return bath, par


class H3tempo(Case):
    functions = ("tempo.Tempo.__init__", "tempo.Tempo.compute", "tempo.Tempo._prepare_backend", "tempo.influence_matrix",
                 "backends.tempo_backend.TempoBackend.*")
    stubs = ("System.get_propagators -> symbolic half-step propagators", "CustomSD.eta_function -> uninterpreted E(tau)",
             "tensornetwork numpy backend svd -> exact non-truncating factorisation", "np.exp -> uninterpreted")
    env = bs.bc_env(more={"oqupy.bath.NpDtype": np.complex128})
    timeout_s = 300

    def __init__(self, layout, alias=False):
        self.layout, self.alias = layout, alias
        self.id = "H3/tempo_alias_initial_state" if alias else "H3/tempo_%s" % layout
        self.bounds = {"d": 2, "steps": 1, "layout": layout}

    def run(self, inp):
        d = 2
        bath, par = _tempo_objects(inp)
        P1 = [lib.tp_prop(inp, "p%d" % k, d) for k in range(1)]
        P2 = [lib.tp_prop(inp, "q%d" % k, d) for k in range(1)]
        base = inp.arr("r", (d, d))
        rho = laid_out(base, self.layout)
        snap = Snap("initial_state", rho)
        if self.alias:
            tp = oqupy.Tempo(lib.FakeSystem(d, P1, P2), bath, par, rho, 0.0)
            other = inp.arr("other", (d, d))
            rho[...] = other                     # the caller re-uses its buffer after the constructor returned
            st = lib.dynamics_states(tp.compute(0.125, progress_type="silent"))
            return [Ob.eq("state 0 is the initial state passed to Tempo(...)", st[0], base, key="constructed_object_unaffected")]
        tp = oqupy.Tempo(lib.FakeSystem(d, P1, P2), bath, par, rho, 0.0)
        st = lib.dynamics_states(tp.compute(0.125, progress_type="silent"))
        ref = lib.dynamics_states(oqupy.Tempo(lib.FakeSystem(d, P1, P2), bath, par, base.copy(), 0.0).compute(0.125, progress_type="silent"))
        obs = snap.obs()
        obs += [Ob.eq("state %d independent of the memory layout" % n, st[n], ref[n], key="layout_independent") for n in range(2)]
        return obs


class H3ctrl_alias(Case):
    """Control.add_single keeps the caller's array by reference"""
    functions = ("control.Control.add_single", "control.Control.get_controls")
    id = "H3/control_alias_operation"
    bounds = {"d": 2}
    env = {"noconj": True}

    def run(self, inp):
        D = 4
        base = inp.arr("C", (D, D))
        op = base.copy()
        c = Control(2)
        c.add_single(1, op)
        other = inp.arr("other", (D, D))
        op[...] = other                          # caller re-uses its buffer
        pre, post = c.get_controls(1)
        return [Ob.eq("control at step 1 is the operation passed to add_single", pre, base, key="constructed_object_unaffected")]


class H3rec(Case):
    """recorded results do not alias the caller's arrays: after the call returned, the caller overwrites
    its array in place; the recorded states must still be the values at the time of the call.
    What is decided how: WHETHER the library keeps a reference / a view is a concrete structural fact of
    the run (numpy copy-vs-view semantics for the dtype and layout at hand); the solver decides only
    'recorded value == value at call time for ALL entry values'.  In sym/frac mode the arrays are object
    arrays (NpDtype -> object), in real mode (validation and replay) they are C-contiguous complex128
    arrays, the case in which np.asarray / reshape hand back the caller's memory."""
    functions = ("dynamics.Dynamics.__init__", "dynamics.Dynamics.add", "dynamics.MeanFieldDynamics.add", "dynamics._parse_state",
                 "system_dynamics.compute_dynamics")
    stubs = ("System.get_propagators -> symbolic half-step propagators",)
    env = {"noconj": True}

    def __init__(self, variant):
        self.variant = variant
        self.id = "H3/recorded_alias_%s" % variant
        self.bounds = {"d": 2, "variant": variant, "real-mode dtype": "complex128, C-contiguous"}

    def run(self, inp):
        d, v = 2, self.variant
        base = inp.arr("r", (d, d))
        other = inp.arr("other", (d, d))
        a = base.copy()
        if inp.mode == "real":
            assert a.dtype == np.complex128 and a.flags.c_contiguous
        obs = []
        if v == "dynamics_ctor":
            dyn = dynm.Dynamics(times=[0.0], states=[a])
            a[...] = other
            obs.append(Ob.eq("Dynamics(times, [a]).states[0] keeps the value at call time", dyn.states[0], base, key="recorded_unaffected"))
        elif v == "dynamics_add":
            dyn = dynm.Dynamics()
            dyn.add(0.0, a)
            b = base.copy()
            dyn.add(0.5, b)
            a[...] = other
            b[...] = other
            obs += [Ob.eq("Dynamics.add(t, a): state %d keeps the value at call time" % i, dyn.states[i], base, key="recorded_unaffected")
                    for i in range(2)]
        elif v == "meanfield_add":
            b2base = inp.arr("r2", (d, d))
            b2 = b2base.copy()
            mf = dynm.MeanFieldDynamics()
            mf.add(0.0, [a, b2], 0.25 + 0.5j)
            a[...] = other
            b2[...] = other
            sds = mf.system_dynamics
            obs += [Ob.eq("MeanFieldDynamics.add: system 0 state keeps the value at call time", sds[0].states[0], base, key="recorded_unaffected"),
                    Ob.eq("MeanFieldDynamics.add: system 1 state keeps the value at call time", sds[1].states[0], b2base, key="recorded_unaffected")]
        else:
            N = 2
            P1 = [lib.gen_prop(inp, "p%d" % k, d) for k in range(N)]
            P2 = [lib.gen_prop(inp, "q%d" % k, d) for k in range(N)]
            if v == "compute_dynamics_nopt":
                kw = {"dt": 0.1, "num_steps": N}
            else:
                kw = {"process_tensor": build_pt(inp, "e", d, N, 2, 4, False)[0]}
            dyn = sd.compute_dynamics(lib.FakeSystem(d, P1, P2), initial_state=a, progress_type="silent", **kw)
            kw2 = dict(kw)
            ref = sd.compute_dynamics(lib.FakeSystem(d, P1, P2), initial_state=base.copy(), progress_type="silent", **kw2)
            a[...] = other                       # after the call returned
            st, rf = dyn.states, ref.states
            if v == "compute_dynamics_nopt":      # (with a process tensor the recorded state carries the cap)
                obs.append(Ob.eq("recorded state at the start time is the initial state at call time", st[0], base, key="recorded_unaffected"))
            obs += [Ob.eq("recorded state %d unaffected by the later overwrite" % n, st[n], rf[n], key="recorded_unaffected")
                    for n in range(N + 1)]
        return obs


def _quiet():
    return contextlib.redirect_stdout(io.StringIO())


def _same_list(label, got, exp, key):
    """two lists of scalars / arrays: same length (concrete fact) and same values (solver)"""
    obs = [Ob.holds(label + ": length", len(got) == len(exp), key=key)]
    if len(got) == len(exp):
        for i, (a, b) in enumerate(zip(got, exp)):
            obs.append(Ob.eq(label + ": entry %d" % i, a, b, key=key))
    return obs


_SYS_ENV = {"extra": {"oqupy.system.float": bs.bs_float, "oqupy.system.complex": bs.bs_complex,
                      "oqupy.system.np": None, "oqupy.system.expm": lambda m: m}}


def _sys_env():
    from vf.env import NpProxy
    e = {"extra": dict(_SYS_ENV["extra"])}
    e["extra"]["oqupy.system.np"] = NpProxy({"vectorize": lambda f, *a, **kw: f})
    return e


class H3ctor(Case):
    """constructor arguments are not kept by reference: build the object, THEN mutate the caller's
    containers / arrays (element assignment incl. in-place array writes, append, pop) before the object is
    used for the first time (liouvillian is evaluated lazily); every answer == object built from copies.
    Copy-vs-reference is a concrete structural fact of the run; the solver decides the value equalities
    (symbolic Hamiltonians, rates, Lindblad operators, d = 2)."""
    functions = ("system.System.__init__", "system.TimeDependentSystem.__init__", "system.TimeDependentSystemWithField.__init__",
                 "system.ParameterizedSystem.__init__", "system.MeanFieldSystem.__init__", "system.SystemChain.add_*",
                 "system._check_gammas_lindblad_operators", "system._check_tdependent_gammas_lindblad_operators")
    stubs = ("scipy.linalg.expm in oqupy.system -> placeholder applied alike to both objects (congruence only)",
             "np.vectorize in oqupy.system -> the function itself (scalar calls only)")

    def __init__(self, cls, mutation):
        self.cls, self.mutation = cls, mutation
        self.id = "H3/ctor_alias_%s_%s" % (cls, mutation)
        self.bounds = {"class": cls, "mutation": mutation, "d": 2, "dissipators": 2}
        self.env = _sys_env()

    # mutate the caller's containers
    def _mutate(self, inp, H, g, ops, new_g, new_op):
        m = self.mutation
        if m == "assign":
            if isinstance(H, np.ndarray):
                H[...] = inp.arr("Hother", H.shape, cplx=True)
            g[0] = new_g
            if isinstance(ops[0], np.ndarray):
                ops[0][...] = inp.arr("Lother", ops[0].shape, cplx=True)   # array inside the list, in place
            ops[1] = new_op                                              # list element replaced
        elif m == "append":
            g.append(new_g)
            ops.append(new_op)
        else:
            g.pop()
            ops.pop()

    def run(self, inp):
        d, cls = 2, self.cls
        t = 0.25
        if cls == "chain":
            return self._chain(inp)
        Hs = [inp.arr("H%d" % i, (d, d), cplx=True) for i in range(2)]
        Ls = [inp.arr("L%d" % i, (d, d), cplx=True) for i in range(3)]
        gs = [inp.real("g%d" % i, lo=0, hi=2) for i in range(3)]
        obs = []
        if cls == "system":
            H = Hs[0].copy()
            g, ops = [gs[0], gs[1]], [Ls[0].copy(), Ls[1].copy()]
            obj = oqupy.System(H, gammas=g, lindblad_operators=ops)
            ref = oqupy.System(Hs[0].copy(), gammas=[gs[0], gs[1]], lindblad_operators=[Ls[0].copy(), Ls[1].copy()])
            self._mutate(inp, H, g, ops, gs[2], Ls[2].copy())
            obs.append(Ob.eq("liouvillian() (first use after the mutation) == object built from copies", obj.liouvillian(), ref.liouvillian(), key="ctor_args"))
            obs.append(Ob.eq("hamiltonian", obj.hamiltonian, ref.hamiltonian, key="ctor_args"))
            obs += _same_list("gammas", obj.gammas, ref.gammas, "ctor_args")
            obs += _same_list("lindblad_operators", obj.lindblad_operators, ref.lindblad_operators, "ctor_args")
            pa, pb = obj.get_propagators(0.125, 0.0, None, 1e-6)(0), ref.get_propagators(0.125, 0.0, None, 1e-6)(0)
            obs.append(Ob.eq("get_propagators", pa[0], pb[0], key="ctor_args"))
            return obs
        # systems given by callables
        if cls == "parameterized":
            mkH = lambda i: (lambda x: Hs[i] * x)
            mkg = lambda i: (lambda x: gs[i] * x)
            mkL = lambda i: (lambda x: Ls[i] * x)
            build = lambda h, g, o: oqupy.ParameterizedSystem(h, gammas=g, lindblad_operators=o)
            liou = lambda o: o.liouvillian(0.75)
        elif cls == "tdsystem":
            mkH = lambda i: (lambda tt: Hs[i] * tt)
            mkg = lambda i: (lambda tt: gs[i] * tt)
            mkL = lambda i: (lambda tt: Ls[i] * tt)
            build = lambda h, g, o: oqupy.TimeDependentSystem(h, gammas=g, lindblad_operators=o)
            liou = lambda o: o.liouvillian(t)
        else:   # tdsystem_field / meanfield
            mkH = lambda i: (lambda tt, a: Hs[i] * tt + Hs[1 - i] * (a + np.conj(a)))
            mkg = lambda i: (lambda tt: gs[i] * tt)
            mkL = lambda i: (lambda tt: Ls[i] * tt)
            build = lambda h, g, o: oqupy.TimeDependentSystemWithField(h, gammas=g, lindblad_operators=o)
            liou = lambda o: o.liouvillian(0.0, t, 0.5 + 0.25j, 0.125 - 0.5j)
        if cls == "meanfield":
            s0 = build(mkH(0), [mkg(0)], [mkL(0)])
            s1 = build(mkH(1), [mkg(1)], [mkL(1)])
            lst = [s0, s1] if self.mutation == "pop" else [s0]
            n0 = len(lst)
            eom = lambda tt, states, field: -1j * field
            mfs = oqupy.MeanFieldSystem(lst, field_eom=eom)
            before = [liou(x) for x in lst]
            if self.mutation == "assign":
                lst[0] = s1
            elif self.mutation == "append":
                lst.append(s1)
            else:
                lst.pop()
            got = mfs.system_list
            obs.append(Ob.holds("system_list: length as at construction", len(got) == n0, key="ctor_args"))
            for i in range(min(n0, len(got))):
                obs.append(Ob.eq("system_list[%d] answers as at construction" % i, liou(got[i]), before[i], key="ctor_args"))
            return obs
        g, ops = [mkg(0), mkg(1)], [mkL(0), mkL(1)]
        obj = build(mkH(0), g, ops)
        ref = build(mkH(0), [mkg(0), mkg(1)], [mkL(0), mkL(1)])
        self._mutate(inp, None, g, ops, mkg(2), mkL(2))
        obs.append(Ob.eq("liouvillian (first use after the mutation) == object built from copies", liou(obj), liou(ref), key="ctor_args"))
        obs.append(Ob.holds("gammas: length", len(obj.gammas) == len(ref.gammas), key="ctor_args"))
        obs.append(Ob.holds("lindblad_operators: length", len(obj.lindblad_operators) == len(ref.lindblad_operators), key="ctor_args"))
        if cls == "parameterized":
            par = np.array([[0.75], [0.5]])
            pa, pb = obj.get_propagators(0.125, par)(0), ref.get_propagators(0.125, par)(0)
            obs += [Ob.eq("get_propagators first half", pa[0], pb[0], key="ctor_args"), Ob.eq("get_propagators second half", pa[1], pb[1], key="ctor_args")]
        return obs

    def _chain(self, inp):
        arrs = {"h": inp.arr("h", (2, 2), cplx=True), "l": inp.arr("l", (4, 4), cplx=True), "a": inp.arr("a", (2, 2), cplx=True),
                "hl": inp.arr("hl", (2, 2), cplx=True), "hr": inp.arr("hr", (2, 2), cplx=True), "al": inp.arr("al", (2, 2), cplx=True),
                "ar": inp.arr("ar", (2, 2), cplx=True)}
        lnn = inp.arr("lnn", (16, 16))
        gam = inp.real("gam", lo=0, hi=2)

        def mk(src, nn):
            ch = oqupy.SystemChain([2, 2])
            ch.add_site_hamiltonian(0, src["h"])
            ch.add_site_liouvillian(1, src["l"])
            ch.add_site_dissipation(0, src["a"], gam)
            ch.add_nn_hamiltonian(0, src["hl"], src["hr"])
            ch.add_nn_liouvillian(0, nn)
            ch.add_nn_dissipation(0, src["al"], src["ar"], gam)
            return ch
        mine = {k: v.copy() for k, v in arrs.items()}
        mynn = lnn.copy()
        ch = mk(mine, mynn)
        ref = mk({k: v.copy() for k, v in arrs.items()}, lnn.copy())
        for k, v in mine.items():
            v[...] = inp.arr("o" + k, v.shape, cplx=True)
        mynn[...] = mynn * 0 + 3
        obs = []
        for i in range(2):
            obs.append(Ob.eq("site liouvillian %d" % i, ch.site_liouvillians[i], ref.site_liouvillians[i], key="ctor_args"))
        obs.append(Ob.eq("nn liouvillian", ch.nn_liouvillians[0], ref.nn_liouvillians[0], key="ctor_args"))
        obs.append(Ob.eq("full nn liouvillian", ch.get_nn_full_liouvillians()[0], ref.get_nn_full_liouvillians()[0], key="ctor_args"))
        return obs


class H4ctl(Case):
    """Control.get_controls / ChainControl.get_single_site_controls are queries: asking twice (or using the
    object in two computations) gives the same answer as a fresh equal object, and what the query handed
    out can be overwritten without reaching the object.  >= 2 controls stacked on one step/site/side."""
    functions = ("control.Control.add_single", "control.Control.get_controls", "control.ChainControl.add_single_site_control",
                 "control.ChainControl.get_single_site_controls")
    env = {"noconj": True}

    def __init__(self, which, nstack=2):
        self.which, self.nstack = which, nstack
        self.id = "H4/query_twice_%s_k%d" % (which, nstack)
        self.bounds = {"object": which, "stacked controls": nstack, "d": 2}

    def run(self, inp):
        D = 4
        ops = [inp.arr("C%d" % i, (D, D)) for i in range(self.nstack)]
        tops = [inp.arr("Tm%d" % i, (D, D)) for i in range(2)]
        obs = []
        if self.which == "control":
            def mk():
                c = Control(2)
                for o in ops:
                    c.add_single(1, o.copy())                 # stacked, pre
                    c.add_single(1, o.copy(), post=True)      # stacked, post
                for o in tops:
                    c.add_single(0.25, o.copy())              # stacked on one time stamp (step 2 for dt = 1/8)
                return c
            q = lambda c, step: c.get_controls(step, dt=0.125, start_time=0.0)
            c, fresh = mk(), mk()
            for step in (1, 2):
                with _quiet():
                    first = q(c, step)
                    for x in first:
                        if x is not None:
                            x[...] = x * 0 + 5            # the caller scribbles over what it was handed
                    second = q(c, step)
                    third = q(c, step)
                    exp = q(fresh, step)
                for side, f2, f3, e in zip(("pre", "post"), second, third, exp):
                    if e is None:
                        obs.append(Ob.holds("step %d %s: None as for a fresh object" % (step, side), f2 is None and f3 is None))
                        continue
                    obs += [Ob.eq("step %d %s: second query == fresh object" % (step, side), f2, e),
                            Ob.eq("step %d %s: third query == fresh object" % (step, side), f3, e)]
            stack = ops[0]
            for o in ops[1:]:
                stack = o @ stack
            with _quiet():
                obs.append(Ob.eq("step 1 pre: documented product (later added acts later)", q(mk(), 1)[0], stack))
        else:
            def mk():
                cc = ChainControl([2, 2])
                for o in ops:
                    cc.add_single_site_control(o.copy(), 0, 1)
                    cc.add_single_site_control(o.copy(), 1, 1, post=True)
                cc.add_single_site_control(tops[0].copy(), 1, 1)
                return cc
            cc, fresh = mk(), mk()
            for post in (False, True):
                first = cc.get_single_site_controls(1, post)
                for x in first:
                    if x is not None:
                        x[...] = x * 0 + 5
                second = cc.get_single_site_controls(1, post)
                third = cc.get_single_site_controls(1, post)
                exp = fresh.get_single_site_controls(1, post)
                for k in range(2):
                    nm = "%s site %d" % ("post" if post else "pre", k)
                    if exp[k] is None:
                        obs.append(Ob.holds(nm + ": None as for a fresh object", second[k] is None and third[k] is None))
                        continue
                    obs += [Ob.eq(nm + ": second query == fresh object", second[k], exp[k]),
                            Ob.eq(nm + ": third query == fresh object", third[k], exp[k])]
            stack = ops[0]
            for o in ops[1:]:
                stack = o @ stack
            obs.append(Ob.eq("pre site 0: documented product (later added acts later)", mk().get_single_site_controls(1, False)[0], stack))
        return obs


class H4ctlt(Case):
    """float-time controls with a NON-ZERO start_time (binary-exact dt = 1/8, start_time = 1/2, symbolic
    operators): get_controls(step, dt, start_time) asked repeatedly -- same step and different steps, in
    two orders -- answers like a fresh equal object each time and as documented (control at time t belongs
    to step round((t - start_time)/dt)); the stored time stamps are unchanged by queries; a Control used in
    two compute_dynamics runs with start_time != 0 == fresh copies.  The time stamps are concrete floats
    (which step a stamp belongs to is a concrete fact); the solver decides the operator equalities."""
    functions = ("control.Control.add_single", "control.Control.get_controls", "system_dynamics.compute_dynamics")
    stubs = ("System.get_propagators -> symbolic half-step propagators",)
    env = {"noconj": True}
    DT, T0 = 0.125, 0.5

    def __init__(self, variant):
        self.variant = variant
        self.id = "H4/time_controls_start_%s" % variant
        self.bounds = {"variant": variant, "dt": "1/8", "start_time": "1/2", "d": 2, "steps": 3}

    def _mk(self, ops):
        c = Control(2)
        dt, t0 = self.DT, self.T0
        c.add_single(t0 + 1 * dt, ops[0].copy())                 # step 1, pre
        c.add_single(t0 + 2 * dt, ops[1].copy())                 # step 2, pre
        c.add_single(t0 + 2 * dt, ops[2].copy())                 # step 2, pre, stacked on the same stamp
        c.add_single(t0 + 2 * dt, ops[3].copy(), post=True)      # step 2, post
        c.add_single(t0 + 0 * dt, ops[4].copy(), post=True)      # step 0, post
        c.add_single(3, ops[5].copy())                           # integer step 3, pre
        return c

    def run(self, inp):
        D = 4
        ops = [inp.arr("C%d" % i, (D, D)) for i in range(6)]
        doc = {0: (None, ops[4]), 1: (ops[0], None), 2: (ops[2] @ ops[1], ops[3]), 3: (ops[5], None)}
        q = lambda c, step: c.get_controls(step, dt=self.DT, start_time=self.T0)
        obs = []
        if self.variant == "queries":
            for oname, order in (("forward", [1, 2, 0, 2, 1, 1, 3, 0]), ("backward", [0, 3, 1, 1, 2, 0, 2, 1])):
                c = self._mk(ops)
                stamps = {k: np.array(v, copy=True) for k, v in c._control_times.items()}
                for n, step in enumerate(order):
                    with _quiet():
                        got = q(c, step)
                        exp = q(self._mk(ops), step)
                    for side, g, e, dc in zip(("pre", "post"), got, exp, doc[step]):
                        lab = "%s order, query %d (step %d) %s" % (oname, n, step, side)
                        if e is None or dc is None:
                            obs.append(Ob.holds(lab + ": None as for a fresh object / as documented", g is None and e is None and dc is None,
                                                key="repeated_query"))
                            continue
                        obs.append(Ob.holds(lab + ": a control is found", g is not None, key="repeated_query"))
                        if g is not None:
                            obs += [Ob.eq(lab + " == fresh object", g, e, key="repeated_query"),
                                    Ob.eq(lab + " == documented control of that step", g, dc, key="repeated_query")]
                same = all(np.array_equal(np.array(c._control_times[k]), stamps[k]) for k in stamps)
                obs.append(Ob.holds("%s order: stored time stamps unchanged by the queries" % oname, same, key="state_unchanged"))
            return obs
        # reuse in two computations with start_time != 0
        d, N = 2, 3
        P1 = [lib.gen_prop(inp, "p%d" % k, d) for k in range(N)]
        P2 = [lib.gen_prop(inp, "q%d" % k, d) for k in range(N)]
        ra, rb = inp.arr("ra", (d, d)), inp.arr("rb", (d, d))

        def dyn(c, rho):
            with _quiet():
                return lib.dynamics_states(sd.compute_dynamics(lib.FakeSystem(d, P1, P2), initial_state=rho, dt=self.DT, num_steps=N,
                                                               start_time=self.T0, control=c, progress_type="silent"))
        fa, fb = dyn(self._mk(ops), ra), dyn(self._mk(ops), rb)
        for order in ("ab", "ba"):
            c = self._mk(ops)
            res = {}
            for w in order:
                res[w] = dyn(c, ra if w == "a" else rb)
            for n in range(N + 1):
                obs.append(Ob.eq("order %s: run a state %d == fresh Control" % (order, n), res["a"][n], fa[n], key="reuse"))
                obs.append(Ob.eq("order %s: run b state %d == fresh Control" % (order, n), res["b"][n], fb[n], key="reuse"))
        # documented effect: step-1 control acts before the state of step 1 is recorded
        v = ra.reshape(D)
        v1 = ops[0] @ (P2[0] @ (P1[0] @ (ops[4] @ v)))
        obs.append(Ob.eq("state 1 = C(step 1, pre) P2 P1 C(step 0, post) rho0", fa[1], v1.reshape(d, d), key="reuse"))
        return obs


class H3guess(Case):
    """analysing a System for the parameter guess does not change it: the real tempo._estimate_dt_from_system
    -> _max_system_frequency (real mode: also the full guess_tempo_parameters(bath, ..., system=system)) run on
    a time-independent System with symbolic rates (gamma != 1 allowed) and symbolic Lindblad operators, twice;
    afterwards lindblad_operators / gammas / hamiltonian are the values handed to the constructor and the
    (lazily evaluated) liouvillian equals that of a fresh equal System."""
    functions = ("tempo._estimate_dt_from_system", "tempo._max_system_frequency", "system.System.lindblad_operators", "system.System.gammas")
    stubs = ("tempo._spectral_norm (LAPACK eigvalsh) -> constant placeholder: the value of the norm is irrelevant to the claim",)
    id = "H3/guess_parameters_system_untouched"
    bounds = {"d": 2, "dissipators": 2}

    def __init__(self):
        e = _sys_env()
        e["extra"]["oqupy.tempo._spectral_norm"] = lambda op: 1.0
        self.env = e

    def run(self, inp):
        d = 2
        H = inp.arr("H", (d, d), cplx=True)
        if inp.mode == "real":
            H = H + H.conj().T
        Ls = [inp.arr("L%d" % i, (d, d), cplx=True) for i in range(2)]
        gs = [inp.real("g%d" % i, lo=Fr(1, 4), hi=3) for i in range(2)]
        mk = lambda: oqupy.System(H.copy(), gammas=list(gs), lindblad_operators=[l.copy() for l in Ls])
        system = mk()
        import warnings
        with warnings.catch_warnings():
            warnings.simplefilter("ignore")
            for _ in range(2):
                tempo._estimate_dt_from_system(system, 0.0, 1.0, 1e-3, 100)
            if inp.mode == "real":
                bath = oqupy.Bath(np.array([[0.5, 0.0], [0.0, -0.5]]),
                                  bc.PowerLawSD(alpha=0.1, zeta=1.0, cutoff=2.0, cutoff_type="exponential", temperature=0.0))
                tempo.guess_tempo_parameters(bath, 0.0, 1.0, system=system, tolerance=1e-2)
        obs = _same_list("lindblad_operators after the analysis", system.lindblad_operators, Ls, "system_untouched")
        obs += _same_list("gammas after the analysis", system.gammas, gs, "system_untouched")
        obs.append(Ob.eq("hamiltonian after the analysis", system.hamiltonian, H, key="system_untouched"))
        obs.append(Ob.eq("liouvillian (first evaluated after the analysis) == fresh equal System", system.liouvillian(), mk().liouvillian(),
                         key="system_untouched"))
        return obs


class H4par(Case):
    """ParameterizedSystem.get_propagators(dt, parameters) depends on the VALUES in the parameter table at the
    time of the call: the same ndarray object updated in place to new symbolic values (as an optimiser does
    between two gradient evaluations) -> propagators of a fresh system on the new values; also dt changed."""
    functions = ("system.ParameterizedSystem.get_propagators", "system.ParameterizedSystem.liouvillian")
    stubs = ("scipy.linalg.expm in oqupy.system -> placeholder applied alike to both objects (congruence only)",)
    id = "H4/parameterized_propagators_inplace_table"
    bounds = {"d": 2, "steps": 2, "parameters per half step": 1}

    def __init__(self):
        self.env = _sys_env()

    def run(self, inp):
        d, N = 2, 2
        Hs = [inp.arr("H%d" % i, (d, d), cplx=True) for i in range(2)]
        L = inp.arr("L", (d, d), cplx=True)
        g = inp.real("g", lo=0, hi=2)
        mk = lambda: oqupy.ParameterizedSystem(lambda x: Hs[0] + Hs[1] * x, gammas=[lambda x: g * x], lindblad_operators=[lambda x: L * x])
        old = np.array([[inp.real("x%d" % i, lo=Fr(1, 4), hi=1)] for i in range(2 * N)], dtype=object if inp.mode != "real" else float)
        new = np.array([[inp.real("y%d" % i, lo=Fr(5, 4), hi=2)] for i in range(2 * N)], dtype=object if inp.mode != "real" else float)
        table = old.copy()
        system = mk()
        dt = 0.125
        first = [system.get_propagators(dt, table)(k) for k in range(N)]
        ref_old = [mk().get_propagators(dt, old.copy())(k) for k in range(N)]
        table[...] = new                                   # same ndarray object, new values
        second = [system.get_propagators(dt, table)(k) for k in range(N)]
        ref_new = [mk().get_propagators(dt, new.copy())(k) for k in range(N)]
        third = [system.get_propagators(2 * dt, table)(k) for k in range(N)]
        ref_dt = [mk().get_propagators(2 * dt, new.copy())(k) for k in range(N)]
        obs = []
        for k in range(N):
            for h in range(2):
                nm = "step %d %s half" % (k, ("first", "second")[h])
                obs += [Ob.eq(nm + ": first call == fresh system on the old values", first[k][h], ref_old[k][h], key="table_values"),
                        Ob.eq(nm + ": after the in-place update == fresh system on the new values", second[k][h], ref_new[k][h], key="table_values"),
                        Ob.eq(nm + ": other dt == fresh system", third[k][h], ref_dt[k][h], key="table_values")]
        obs.append(Ob.eq("parameter table untouched by the calls", table, new, key="table_untouched"))
        return obs


def _nan_to_num_model(x, copy=True, **kw):
    """numpy.nan_to_num contract on object arrays of S (numpy itself leaves object arrays alone): NaN entries
    become 0, in a copy or -- copy=False -- in the array handed in"""
    if not (isinstance(x, np.ndarray) and x.dtype == object):
        return np.nan_to_num(x, copy=copy, **kw)
    out = x.copy() if copy else x
    for idx in np.ndindex(*out.shape):
        v = out[idx]
        if isinstance(v, (float, complex, np.floating, np.complexfloating)) and v != v:
            out[idx] = S(0)
    return out


class H3bathdyn(Case):
    """TwoTimeBathCorrelations.occupation() / correlation() with a caller-supplied `system_correlations=` table
    (upper triangle: symbolic correlations, below the diagonal NaN, as the class itself produces it) that covers
    the requested range: the caller's table is untouched -- NaN pattern (concrete fact) and all values (solver) --
    and the answers equal those of a fresh object given a copy of the table."""
    functions = ("bath_dynamics.TwoTimeBathCorrelations.occupation", "bath_dynamics.TwoTimeBathCorrelations.correlation",
                 "bath_dynamics.TwoTimeBathCorrelations._calc_kernel", "bath_dynamics.TwoTimeBathCorrelations.__init__")
    stubs = ("np.nan_to_num in oqupy.bath_dynamics -> its contract on object arrays (NaN -> 0, honouring copy=)",)
    bounds = {"N": 3, "dt": "1/8", "frequencies": "concrete", "table": "3x3, symbolic upper triangle"}

    def __init__(self, method):
        from vf.env import NpProxy
        self.method = method
        self.id = "H3/bath_dynamics_table_untouched_%s" % method
        self.env = {"extra": {"oqupy.bath_dynamics.np": NpProxy({"nan_to_num": _nan_to_num_model})}}
        self.bath = oqupy.Bath(np.array([[0.5, 0.0], [0.0, -0.5]]),
                               bc.PowerLawSD(alpha=0.1, zeta=1.0, cutoff=2.0, cutoff_type="exponential", temperature=0.5))

    def run(self, inp):
        import oqupy.bath_dynamics as bd
        import oqupy.process_tensor as ptm
        N, dt = 3, 0.125
        pt = ptm.SimpleProcessTensor(hilbert_space_dimension=2, dt=dt)
        for k in range(N):
            pt.set_mpo_tensor(k, np.ones((1, 1, 4)))
        vals = inp.arr("c", (N, N))
        nan = float("nan")

        def table():
            t = np.empty((N, N), dtype=complex if inp.mode == "real" else object)
            for i in range(N):
                for j in range(N):
                    t[i, j] = vals[i, j] if i <= j else nan
            return t
        system = oqupy.System(np.zeros((2, 2)))
        rho0 = np.array([[0.5, 0.0], [0.0, 0.5]])

        def ask(tab):
            o = bd.TwoTimeBathCorrelations(system, self.bath, pt, initial_state=rho0, system_correlations=tab)
            with _quiet():
                if self.method == "occupation":
                    return [o.occupation(1.5, progress_type="silent")[1], o.occupation(1.5, change_only=True, progress_type="silent")[1]]
                return [np.array(o.correlation(1.5, 0.25, freq_2=1.0, time_2=0.375, progress_type="silent")),
                        np.array(o.correlation(1.5, 0.125, progress_type="silent"))]
        mine = table()
        got = ask(mine)
        ref = ask(table())
        isnan = lambda v: isinstance(v, (float, complex, np.floating, np.complexfloating)) and v != v
        pattern_ok = all(isnan(mine[i, j]) == (i > j) for i in range(N) for j in range(N))
        upper = lambda t: np.array([t[i, j] for i in range(N) for j in range(N) if i <= j], dtype=t.dtype)
        obs = [Ob.holds("caller's table: NaN exactly below the diagonal, as handed in", pattern_ok, key="table_untouched")]
        if pattern_ok:
            obs.append(Ob.eq("caller's table: upper-triangle values unchanged", upper(mine), upper(table()), key="table_untouched"))
        for k, (a, b) in enumerate(zip(got, ref)):
            obs.append(Ob.eq("answer %d == fresh object given a copy of the table" % k, a, b, key="answer"))
        return obs


class H4chain(Case):
    """SystemChain: (use, add_X, use) for every add_* method == fresh chain holding the same terms;
    use = get_nn_full_liouvillians() (also site_liouvillians / nn_liouvillians)."""
    functions = ("system.SystemChain.add_*", "system.SystemChain.get_nn_full_liouvillians")
    id = "H4/chain_use_add_use"
    bounds = {"sites": 3, "d": 2, "methods": 6}
    env = {}

    def run(self, inp):
        A = {k: inp.arr(k, (2, 2), cplx=True) for k in ("h", "a", "hl", "hr", "al", "ar", "h2", "a2", "hl2", "hr2", "al2", "ar2")}
        Ls = inp.arr("ls", (4, 4))
        Ls2 = inp.arr("ls2", (4, 4))
        nnv = inp.arr("nnv", (16,))
        nnv2 = inp.arr("nnv2", (16,))
        diag = (lambda v: np.diag(v)) if inp.mode == "real" else (lambda v: lib._odiag(v))
        g, g2 = inp.real("gam", lo=0, hi=2), inp.real("gam2", lo=0, hi=2)

        def base(ch):
            ch.add_site_hamiltonian(0, A["h"])
            ch.add_site_liouvillian(1, Ls)
            ch.add_site_dissipation(2, A["a"], g)
            ch.add_nn_hamiltonian(0, A["hl"], A["hr"])
            ch.add_nn_liouvillian(1, diag(nnv))
            ch.add_nn_dissipation(0, A["al"], A["ar"], g)
        extra = {"add_site_hamiltonian": lambda ch: ch.add_site_hamiltonian(1, A["h2"]),
                 "add_site_liouvillian": lambda ch: ch.add_site_liouvillian(0, Ls2),
                 "add_site_dissipation": lambda ch: ch.add_site_dissipation(1, A["a2"], g2),
                 "add_nn_hamiltonian": lambda ch: ch.add_nn_hamiltonian(1, A["hl2"], A["hr2"]),
                 "add_nn_liouvillian": lambda ch: ch.add_nn_liouvillian(0, diag(nnv2)),
                 "add_nn_dissipation": lambda ch: ch.add_nn_dissipation(1, A["al2"], A["ar2"], g2)}
        obs = []
        ref0 = oqupy.SystemChain([2, 2, 2])
        base(ref0)
        first_ref = [np.array(x) for x in ref0.get_nn_full_liouvillians()]
        for name, add in extra.items():
            ch = oqupy.SystemChain([2, 2, 2])
            base(ch)
            first = [np.array(x) for x in ch.get_nn_full_liouvillians()]          # use
            add(ch)                                                                # add_X
            second = ch.get_nn_full_liouvillians()                                 # use again
            fresh = oqupy.SystemChain([2, 2, 2])
            base(fresh)
            add(fresh)
            exp = fresh.get_nn_full_liouvillians()
            for i in range(2):
                obs.append(Ob.eq("%s: first use, bond %d == fresh chain with the base terms" % (name, i), first[i], first_ref[i], key="chain_reuse"))
                obs.append(Ob.eq("%s: use after the addition, bond %d == fresh chain with the same terms" % (name, i), second[i], exp[i],
                                 key="chain_reuse"))
            for i in range(3):
                obs.append(Ob.eq("%s: site liouvillian %d == fresh chain" % (name, i), ch.site_liouvillians[i], fresh.site_liouvillians[i],
                                 key="chain_reuse"))
        return obs


def _obj_sqrt(x, dtype=None, **kw):
    if dtype is object:
        vals = [S.of(float(np.sqrt(float(v)))) for v in x]
        out = np.empty(len(vals), dtype=object)
        for i, v in enumerate(vals):
            out[i] = v
        return out
    return np.sqrt(x, dtype=dtype, **kw) if dtype is not None else np.sqrt(x, **kw)


def _scale_inplace(arr, factor):
    """caller-side in-place modification of an array it was handed: arr *= factor (symbolic factor when the array
    can hold it, else -- concrete dtype handed out in the symbolic run -- a fixed number)"""
    try:
        arr *= factor
    except (TypeError, ValueError, sym.SymbolicBranch):
        arr *= 0.25


class H4ops(Case):
    """oqupy.operators: every public constructor returns a FRESH array: two calls give distinct objects that share
    no memory (concrete facts), and after the caller scaled the first result in place by a symbolic factor a later
    call still returns the documented matrix (solver: for all factors).  Superoperator helpers: result shares no
    memory with the argument and the argument is untouched."""
    functions = ("operators.sigma", "operators.spin_dm", "operators.identity", "operators.create", "operators.destroy",
                 "operators.commutator", "operators.acommutator", "operators.left_super", "operators.right_super",
                 "operators.left_right_super", "operators.preparation")
    stubs = ("np.sqrt(range, dtype=object) in oqupy.operators -> exact square roots as symbols",)
    id = "H4/operators_fresh_results"
    bounds = {"sigma": 6, "spin_dm": 9, "identity/create/destroy": "n in {2,3}"}

    def __init__(self):
        from vf.env import NpProxy
        self.env = {"extra": {"oqupy.operators.np": NpProxy({"sqrt": _obj_sqrt})}}

    def run(self, inp):
        import oqupy.operators as ops
        f = inp.real("f", lo=2, hi=3)
        C = inp.const
        i_ = 1j
        pauli = {"id": [[1, 0], [0, 1]], "x": [[0, 1], [1, 0]], "y": [[0, -i_], [i_, 0]], "z": [[1, 0], [0, -1]],
                 "+": [[0, 1], [0, 0]], "-": [[0, 0], [1, 0]]}
        half = 0.5
        states = {"up": [[1, 0], [0, 0]], "z+": [[1, 0], [0, 0]], "down": [[0, 0], [0, 1]], "z-": [[0, 0], [0, 1]],
                  "x+": [[half, half], [half, half]], "x-": [[half, -half], [-half, half]],
                  "y+": [[half, -half * i_], [half * i_, half]], "y-": [[half, half * i_], [-half * i_, half]],
                  "mixed": [[half, 0], [0, half]]}

        def lowering(n):       # documented bosonic annihilation operator: <k-1| a |k> = sqrt(k)
            m = np.zeros((n, n))
            for k in range(1, n):
                m[k - 1, k] = np.sqrt(k)
            return m
        ctors = [("sigma(%r)" % k, (lambda k=k: ops.sigma(k)), v) for k, v in pauli.items()]
        ctors += [("spin_dm(%r)" % k, (lambda k=k: ops.spin_dm(k)), v) for k, v in states.items()]
        for n in (2, 3):
            ctors.append(("identity(%d)" % n, (lambda n=n: ops.identity(n)), np.identity(n)))
            ctors.append(("destroy(%d)" % n, (lambda n=n: ops.destroy(n)), lowering(n)))
            ctors.append(("create(%d)" % n, (lambda n=n: ops.create(n)), lowering(n).T))
        obs = []
        for name, fn, doc in ctors:
            a = fn()
            b = fn()
            obs.append(Ob.holds("%s: two calls give distinct arrays sharing no memory" % name,
                                a is not b and not np.shares_memory(a, b), key="fresh_result"))
            obs.append(Ob.eq("%s: documented matrix" % name, np.array(a, copy=True), C(np.array(doc, dtype=complex)), key="fresh_result"))
            _scale_inplace(a, f)
            obs.append(Ob.eq("%s: after the caller scaled an earlier result in place, a new call returns the documented matrix" % name,
                             fn(), C(np.array(doc, dtype=complex)), key="fresh_result"))
            obs.append(Ob.eq("%s: ... and the second earlier result is unaffected" % name, b, C(np.array(doc, dtype=complex)), key="fresh_result"))
        # helpers taking an operator
        A = inp.arr("A", (2, 2), cplx=True)
        B = inp.arr("B", (2, 2), cplx=True)
        A0, B0 = A.copy(), B.copy()
        helpers = [("commutator", lambda: ops.commutator(A)), ("acommutator", lambda: ops.acommutator(A)), ("left_super", lambda: ops.left_super(A)),
                   ("right_super", lambda: ops.right_super(A)), ("left_right_super", lambda: ops.left_right_super(A, B)),
                   ("preparation", lambda: ops.preparation(A))]
        for name, fn in helpers:
            r1 = fn()
            ref = np.array(r1, copy=True)
            obs.append(Ob.holds("%s: result shares no memory with its arguments" % name,
                                not np.shares_memory(r1, A) and not np.shares_memory(r1, B), key="fresh_result"))
            _scale_inplace(r1, f)
            obs.append(Ob.eq("%s: a new call after the caller scaled an earlier result" % name, fn(), ref, key="fresh_result"))
        obs.append(Ob.eq("operator arguments untouched", np.array([A, B]), np.array([A0, B0]), key="fresh_result"))
        return obs


class H4tebd(Case):
    """the same ChainControl (two controls stacked on one site/step/side) and process tensors used in two
    PtTebd computations == the computation with fresh copies (real PtTebd on a two-site chain without
    coupling terms, driver as in C18/H3b)."""
    functions = ("PtTebd.compute", "PtTebd._apply_controls", "ChainControl.get_single_site_controls")
    stubs = ("tensornetwork numpy backend svd -> exact non-truncating factorisation",
             "builtin complex() in PtTebdBackend.get_norm -> identity on symbolic scalars")
    timeout_s = 300

    def __init__(self, N=1):
        from checks.c18 import ENV_CH
        self.env = ENV_CH
        self.N = N
        self.id = "H4/reuse_chain_control_pt_tebd_N%d" % N
        self.bounds = {"sites": 2, "d": 2, "N": N, "stacked controls": 2, "pt bond": 1}

    def run(self, inp):
        import oqupy.pt_tebd as ptt
        N, D = self.N, 4
        g = [inp.arr("g%d" % k, (D,)) for k in range(2)]
        ops = [inp.arr("C%d" % i, (D, D)) for i in range(2)]

        def mkpts():
            return [build_pt(inp, "e%d" % k, 2, N, 1, 4, False)[0] for k in range(2)]

        def mkcc():
            cc = ChainControl([2, 2])
            for o in ops:
                cc.add_single_site_control(o.copy(), 0, 1 if N >= 1 else 0)
                cc.add_single_site_control(o.copy(), 1, 0, post=True)
            return cc

        def run(cc, pts):
            mps = oqupy.AugmentedMPS([g[0].copy(), g[1].copy()])
            par = oqupy.PtTebdParameters(dt=0.1, order=1, epsrel=1e-14)
            tebd = ptt.PtTebd(mps, oqupy.SystemChain([2, 2]), pts, par, chain_control=cc, dynamics_sites=[0, 1])
            with _quiet():
                res = tebd.compute(N, progress_type="silent")
            return [list(res["dynamics"][k]._states) for k in range(2)]
        fresh = run(mkcc(), mkpts())
        cc, pts = mkcc(), mkpts()
        first = run(cc, pts)
        second = run(cc, pts)
        obs = []
        for k in range(2):
            for n in range(N + 1):
                obs.append(Ob.eq("first use: site %d state %d == fresh" % (k, n), first[k][n], fresh[k][n]))
                obs.append(Ob.eq("second use: site %d state %d == fresh" % (k, n), second[k][n], fresh[k][n]))
        return obs


# --------------------------------------------------------------------------
# H4 reuse
# --------------------------------------------------------------------------
class H4(Case):
    functions = ("system_dynamics.compute_dynamics", "gradient.compute_gradient_and_dynamics", "process_tensor.SimpleProcessTensor.*",
                 "control.Control.get_controls")
    stubs = ("System.get_propagators -> symbolic half-step propagators",)
    env = {"noconj": True}
    timeout_s = 300

    def __init__(self, variant, N=2, rank=4, transforms=False):
        self.variant, self.N, self.rank, self.tr = variant, N, rank, transforms
        self.id = "H4/reuse_%s_N%d_r%d%s" % (variant, N, rank, "_tr" if transforms else "")
        self.bounds = {"d": 2, "N": N, "bond": 2, "rank": rank, "transforms": bool(transforms), "variant": variant}

    def run(self, inp):
        d, N = 2, self.N
        D = d * d
        mkpt = lambda: build_pt(inp, "e", d, N, 2, self.rank, self.tr)[0]
        P1 = [lib.gen_prop(inp, "p%d" % k, d) for k in range(N)]
        P2 = [lib.gen_prop(inp, "q%d" % k, d) for k in range(N)]
        ra, rb = inp.arr("ra", (d, d)), inp.arr("rb", (d, d))
        C = inp.arr("C", (D, D))

        def mkctl():
            c = Control(d)
            c.add_single(1, C)
            c.add_single(0, C, post=True)
            return c

        def dyn(system, pt, ctl, rho):
            return lib.dynamics_states(sd.compute_dynamics(system, initial_state=rho, process_tensor=pt, control=ctl,
                                                           progress_type="silent"))
        fresh_a = dyn(lib.FakeSystem(d, P1, P2), mkpt(), mkctl(), ra)
        fresh_b = dyn(lib.FakeSystem(d, P1, P2), mkpt(), mkctl(), rb)
        obs = []
        if self.variant == "dynamics":
            for order in ("ab", "ba"):
                system, pt, ctl = lib.FakeSystem(d, P1, P2), mkpt(), mkctl()
                res = {}
                for which in order:
                    res[which] = dyn(system, pt, ctl, ra if which == "a" else rb)
                for n in range(N + 1):
                    obs.append(Ob.eq("order %s: run a state %d == fresh" % (order, n), res["a"][n], fresh_a[n]))
                    obs.append(Ob.eq("order %s: run b state %d == fresh" % (order, n), res["b"][n], fresh_b[n]))
        else:   # gradient first, then dynamics on the same process tensor (and the reverse)
            tgt = inp.arr("t", (d, d))
            par = np.zeros((2 * N, 1))
            gfresh, dfresh = gr.compute_gradient_and_dynamics(lib.FakeParamSystem(d, P1, P2), ra, tgt, [mkpt()], parameters=par,
                                                              progress_type="silent")
            nofresh = dyn(lib.FakeSystem(d, P1, P2), mkpt(), None, rb)
            for order in ("gd", "dg"):
                pt = mkpt()
                for which in order:
                    if which == "g":
                        g, dy = gr.compute_gradient_and_dynamics(lib.FakeParamSystem(d, P1, P2), ra, tgt, [pt], parameters=par,
                                                                 progress_type="silent")
                    else:
                        dd = dyn(lib.FakeSystem(d, P1, P2), pt, None, rb)
                for n in range(N + 1):
                    obs.append(Ob.eq("order %s: gradient-run state %d == fresh" % (order, n), lib.dynamics_states(dy)[n],
                                     lib.dynamics_states(dfresh)[n]))
                    obs.append(Ob.eq("order %s: dynamics-run state %d == fresh" % (order, n), dd[n], nofresh[n]))
                for n, (a, b) in enumerate(zip(g, gfresh)):
                    obs.append(Ob.eq("order %s: gradient tensor %d == fresh" % (order, n), _tensor(a), _tensor(b)))
        return obs


class H4corr(_QuadCase):
    """the same correlations object queried for several cells in two orders == fresh objects"""
    functions = ("bath_correlations.CustomSD.*",)

    def __init__(self, cls):
        self.cls = cls
        self.id = "H4/reuse_correlations_%s" % cls
        self.bounds = {"class": cls, "calls": 3}
        self._setup()

    def run(self, inp):
        P = Par(inp)
        self._quad(inp)
        d = P.delta
        calls = [lambda o: o.correlation_2d_integral(d, 0.0, shape="upper-triangle"),
                 lambda o: o.correlation_2d_integral(d, d, shape="square"),
                 lambda o: o.correlation_2d_integral(d, 2 * d, time_2=2 * d + P.tau, shape="rectangle"),
                 lambda o: o.correlation(P.tau)]
        fresh = [c(P.build(self.cls)) for c in calls]
        obs = []
        for name, order in (("forward", range(len(calls))), ("backward", reversed(range(len(calls))))):
            o = P.build(self.cls)
            for i in order:
                obs.append(Ob.eq("%s order: call %d == fresh object" % (name, i), calls[i](o), fresh[i]))
        return obs


# --------------------------------------------------------------------------
def cases(tier):
    th = tier == "thorough"
    cs = []
    # H1
    methods = ("spectral_density", "correlation", "eta_function", "correlation_2d_integral")
    # live (non-memoised) public methods x EVERY public attribute update, both classes, in every tier;
    # keys H1/live_* are never covered by the memo_* / bath_closure_* known-finding keys
    sd_attrs = ("temperature", "cutoff", "cutoff_type", "j_function")
    pl_attrs = ("temperature", "cutoff", "cutoff_type", "alpha", "zeta")
    for cls, attrs in (("sd", sd_attrs), ("pl", pl_attrs)):
        for attr in attrs:
            for m in ("spectral_density", "correlation", "j_value"):
                cs.append(H1(cls, attr, m))
    quick_memo = [("sd", "temperature", "eta_function"), ("sd", "temperature", "correlation_2d_integral"), ("sd", "cutoff", "eta_function"),
                  ("pl", "alpha", "eta_function"), ("pl", "zeta", "eta_function")]
    if th:
        quick_memo = [(c, a, m) for c, attrs in (("sd", sd_attrs), ("pl", pl_attrs)) for a in attrs for m in MEMO]
    cs += [H1(*x) for x in quick_memo]
    cs += [H1cc("correlation"), H1cc("correlation_2d_integral"), H1sys(), H1stable("sd"), H1stable("pl")]
    cs += [H1args("sd", "eta_function"), H1args("pl", "correlation_2d_integral")]
    if th:
        cs += [H1args("pl", "eta_function"), H1args("sd", "correlation_2d_integral")]
    # H2
    h2 = [("sd", "temperature", "correlation"), ("sd", "temperature", "attribute"), ("sd", "cutoff", "spectral_density"),
          ("sd", "cutoff", "attribute"), ("pl", "alpha", "spectral_density"), ("pl", "alpha", "correlation")]
    if th:
        h2 += [("sd", "j_function", "spectral_density"), ("sd", "cutoff_type", "spectral_density"), ("pl", "zeta", "spectral_density"),
               ("pl", "cutoff", "correlation"), ("pl", "temperature", "eta_function"), ("sd", "cutoff", "eta_function"),
               ("pl", "alpha", "attribute")]
    cs += [H2(*a) for a in h2] + [H2getter()]
    # H3
    for lay in LAYOUTS:
        cs.append(H3dyn(lay))
        cs.append(H3mps(2, lay))
        if th or lay in ("C", "F"):
            cs.append(H3grad(lay))
            cs.append(H3tempo(lay))
        if th or lay == "F":
            cs += [H3mps(1, lay), H3mps(3, lay), H3mps(4, lay)]
    cs += [H3tempo("C", alias=True), H3ctrl_alias()]
    cs += [H3rec(v) for v in ("dynamics_ctor", "dynamics_add", "meanfield_add", "compute_dynamics_nopt", "compute_dynamics_pt")]
    cs += [H4ctl("control"), H4ctl("chain_control"), H4tebd(1), H4ctlt("queries"), H4ctlt("compute_dynamics")]
    for cls in ("system", "tdsystem", "tdsystem_field", "parameterized", "meanfield"):
        cs += [H3ctor(cls, m) for m in ("assign", "append", "pop")]
    cs.append(H3ctor("chain", "assign"))
    cs += [H3guess(), H4par(), H3bathdyn("occupation"), H3bathdyn("correlation"), H4chain(), H4ops()]
    if th:
        cs += [H4ctl("control", 3), H4ctl("chain_control", 3), H4tebd(2)]
    # H4
    cs += [H4("dynamics"), H4("gradient"), H4corr("sd"), H4("dynamics", rank=3, transforms=True)]
    if th:
        cs += [H4("dynamics", N=3), H4("dynamics", rank=4, transforms=True), H4("gradient", N=3), H4corr("pl")]
    return cs
