"""C06 -- degeneracy reduction (unique=True) never changes results.

H1  the real Tempo / PtTempo(+compute_dynamics) / MeanFieldTempo classes run twice on the
    same symbols, unique=False vs unique=True, with the real Bath degeneracy maps, the real
    position selection (`_influence`), the real influence_matrix (symbolic eta cells, exp as
    congruence-only atoms) and the real scatter code of both back-ends; equality of the
    states at every step, for coupling spectra representing the coincidence patterns.
"""
import numpy as np

import oqupy
import oqupy.system_dynamics as sd

from vf.core import Case, Ob
from vf import lib
from vf import physical as ph

ASSUMPTIONS = [
    "exact arithmetic, SVD without truncation",
    "coupling spectra are concrete representatives of coincidence patterns (the maps come from the real Bath); d<=3; the 12-decimal rounding threshold of the degeneracy detection is outside the claim",
]
STUBS = ("tensornetwork numpy backend svd -> exact non-truncating factorisation",
         "System.get_propagators -> symbolic trace-preserving half-step propagators",
         "correlations.correlation_2d_integral -> one complex symbol per requested cell",
         "np.exp on symbolic arguments -> atoms per syntactically distinct simplified argument (congruence only)")

SPECTRA = {
    "sz": np.diag([1.0, -1.0]), "id2": np.diag([1.0, 1.0]), "sx": np.array([[0.0, 1.0], [1.0, 0.0]]),
    "sz_frac": np.diag([0.25, -0.25]), "sz_shift": np.diag([-0.25, 0.5]), "d3_frac": np.diag([0.25, 0.125, -0.5]), "d3_frac_rep": np.diag([0.25, 0.25, -0.5]),
    "d3_013": np.diag([0.0, 1.0, 3.0]), "d3_012": np.diag([0.0, 1.0, 2.0]), "d3_m101": np.diag([-1.0, 0.0, 1.0]),
    "d3_001": np.diag([0.0, 0.0, 1.0]), "d3_111": np.diag([1.0, 1.0, 1.0]),
    # non-diagonal with a repeated eigenvalue 0 (eigenvectors: permutation type)
    "d3_perm": np.array([[0.0, 0.0, 0.0], [0.0, 0.5, 0.5], [0.0, 0.5, 0.5]]),
    "d4_0125": np.diag([0.0, 0.5, 1.0, 2.5]),
}

# spectra for the concrete map check H0 (dimension 2..5; non-equidistant ones have more distinct differences than sums)
MAP_SPECTRA = [[1.0, -1.0], [0.5, 0.5], [0.0, 1.0, 3.0], [0.25, 0.25, -0.5], [1.0, 1.0, 1.0], [0.0, 0.5, 1.0, 2.5], [0.0, 1.0, 3.0, 5.0],
               [0.0, 1.0, 3.0, 6.0], [0.0, 2.0, 3.0, 6.0], [0.5, 0.5, -0.5, -0.5], [0.0, 1.0, 2.0, 3.0], [0.0, 0.0, 1.0, 1.0],
               [0.0, 1.0, 2.0, 5.0, 11.0], [0.0, 1.0, 1.0, 4.0, 9.0], [-2.0, -1.0, 0.0, 1.0, 2.0], [0.0, 1.0, 3.0, 7.0, 12.0]]


class H0(Case):
    """CONCRETE check (no solver contribution) of the precondition every H1 case relies on: the degeneracy maps the real
    Bath hands out group exactly the Liouville indices with equal (difference, sum) resp. equal difference, for coupling
    spectra of dimension 2..5, diagonal and conjugated by a real rotation"""
    stubs = ()
    functions = ("Bath.__init__", "bath._row_degeneracy")
    validate = False

    def __init__(self):
        self.id = "H0/degeneracy_maps_d2to5"
        self.bounds = {"d": "2..5", "spectra": len(MAP_SPECTRA), "arithmetic": "IEEE double (12-decimal rounding as in the code)"}

    def run(self, inp):
        import oqupy.config as _cfg
        from vf import env
        obs = []
        with env.patched({"oqupy.bath.NpDtype": _cfg.NpDtype}):
            for w in MAP_SPECTRA:
                d = len(w)
                for rot in (False, True):
                    op = np.diag(np.array(w))
                    if rot:
                        c, s_ = 0.6, 0.8
                        R = np.identity(d)
                        R[0, 0], R[0, 1], R[1, 0], R[1, 1] = c, -s_, s_, c
                        op = R @ op @ R.T
                        op = (op + op.T) / 2
                    bath = oqupy.Bath(op, _DummyCorr())
                    obs.append(Ob.holds("spectrum %s%s: maps group exactly equal keys" % (w, " (rotated)" if rot else ""), maps_ok(bath), key="maps"))
        return obs


class _DummyCorr(oqupy.bath_correlations.BaseCorrelations):
    def correlation(self, *a, **k):
        raise NotImplementedError

    def correlation_2d_integral(self, *a, **k):
        raise NotImplementedError



class FieldSystem(oqupy.TimeDependentSystemWithField):
    def __init__(self, d, P1, P2):
        super().__init__(lambda t, a: np.zeros((d, d)))
        self._P1, self._P2 = P1, P2

    def get_propagators(self, dt, start_time, subdiv_limit, epsrel):
        return lambda step, field, deriv: (self._P1[step], self._P2[step])


def maps_ok(bath):
    """defining property of the maps handed to the back-ends (concrete; no solver contribution)"""
    c, a = np.round(bath.coupling_comm, 12), np.round(bath.coupling_acomm, 12)
    n, w = bath.north_degeneracy_map, bath.west_degeneracy_map
    D = len(c)
    for i in range(D):
        for j in range(D):
            if (n[i] == n[j]) != (c[i] == c[j] and a[i] == a[j]):
                return False
            if (w[i] == w[j]) != (c[i] == c[j]):
                return False
    return True


class H1(Case):
    stubs = STUBS
    env = {"np_proxy_modules": ("oqupy.tempo",)}
    functions = ("Tempo.__init__", "Tempo.compute", "Tempo._influence", "Tempo._prepare_backend", "PtTempo.__init__",
                 "PtTempo._influence", "PtTempo._init_pt_tempo_backend", "PtTempo.get_process_tensor", "MeanFieldTempo.__init__",
                 "MeanFieldTempo._get_influence", "MeanFieldTempo.compute", "tempo.influence_matrix", "Bath.__init__",
                 "bath._row_degeneracy", "BaseTempoBackend.initialize_mps_mpo", "PtTempoBackend.initialize")

    def __init__(self, method, coupling, N, K, tau=False):
        self.method, self.coupling, self.N, self.K, self.tau = method, coupling, N, K, tau
        self.id = "H1/%s_%s_N%d_K%s%s" % (method, coupling, N, K, "_tau" if tau else "")
        self.bounds = {"method": method, "coupling": coupling, "N": N, "dkmax": K, "add_correlation_time": tau}
        self.timeout_s = 600

    def run(self, inp):
        N, K = self.N, self.K
        dt = 0.5
        corr = ph.SymCorrelations(inp)
        bath = ph.bath_for(SPECTRA[self.coupling], corr)
        d = bath.dimension
        params = ph.parameters(dt, K, 0.25 if self.tau else None)
        P1 = [lib.tp_prop(inp, "p%d" % k, d) for k in range(N)]
        P2 = [lib.tp_prop(inp, "q%d" % k, d) for k in range(N)]
        rho0 = inp.arr("r", (d, d))
        out = {}
        for unique in (False, True):
            if self.method == "tempo":
                _, st, _ = ph.tempo_states(bath, params, lib.FakeSystem(d, P1, P2), rho0, N, unique=unique)
            elif self.method == "pt":
                pt, _ = ph.pt_tempo_process_tensor(bath, params, N, unique=unique)
                st = lib.dynamics_states(sd.compute_dynamics(lib.FakeSystem(d, P1, P2), initial_state=rho0, process_tensor=pt,
                                                             progress_type="silent"))
            else:
                mfs = oqupy.MeanFieldSystem([FieldSystem(d, P1, P2)], field_eom=lambda t, states, a: 0.0 * a)
                mft = oqupy.MeanFieldTempo(mfs, [bath], params, [rho0], 1.0 + 0.0j, 0.0, unique=unique)
                dyn = mft.compute(N * dt, progress_type="silent")
                st = list(dyn.system_dynamics[0]._states)
            out[unique] = st
        obs = [Ob.holds("degeneracy maps group exactly equal keys (concrete precondition)", maps_ok(bath)),
               Ob.holds("N+1 states both ways", len(out[False]) == N + 1 and len(out[True]) == N + 1)]
        for n in range(N + 1):
            obs.append(Ob.eq("step %d" % n, out[True][n], out[False][n]))
        return obs


class H1mf2(Case):
    """MeanFieldTempo with TWO systems whose baths have different coupling operators: every bath must be
    reduced with ITS OWN degeneracy classes"""
    stubs = STUBS
    env = {"np_proxy_modules": ("oqupy.tempo",)}
    functions = H1.functions

    def __init__(self, c1, c2, N, K):
        self.c1, self.c2, self.N, self.K = c1, c2, N, K
        self.id = "H1mf2/%s+%s_N%d_K%s" % (c1, c2, N, K)
        self.bounds = {"method": "mf", "couplings": [c1, c2], "N": N, "dkmax": K}
        self.timeout_s = 600

    def run(self, inp):
        N, K = self.N, self.K
        dt = 0.5
        params = ph.parameters(dt, K, None)
        baths, systems, rhos = [], [], []
        for s_, c in enumerate((self.c1, self.c2)):
            corr = ph.SymCorrelations(inp, name="eta%d" % s_)
            bath = ph.bath_for(SPECTRA[c], corr)
            d = bath.dimension
            P1 = [lib.tp_prop(inp, "p%d_%d" % (s_, k), d) for k in range(N)]
            P2 = [lib.tp_prop(inp, "q%d_%d" % (s_, k), d) for k in range(N)]
            baths.append(bath)
            systems.append(FieldSystem(d, P1, P2))
            rhos.append(inp.arr("r%d" % s_, (d, d)))
        out = {}
        for unique in (False, True):
            mfs = oqupy.MeanFieldSystem(systems, field_eom=lambda t, states, a: 0.0 * a)
            mft = oqupy.MeanFieldTempo(mfs, baths, params, rhos, 1.0 + 0.0j, 0.0, unique=unique)
            dyn = mft.compute(N * dt, progress_type="silent")
            out[unique] = [list(sdyn._states) for sdyn in dyn.system_dynamics]
        obs = []
        for s_ in range(2):
            for n in range(N + 1):
                obs.append(Ob.eq("system %d step %d" % (s_, n), out[True][s_][n], out[False][s_][n]))
        return obs


def cases(tier):
    cs = []
    for m in ("tempo", "pt", "mf"):
        cs += [H1(m, "sz", 3, 1, True), H1(m, "sz", 3, None), H1(m, "id2", 3, 1), H1(m, "d3_001", 2, 1), H1(m, "d3_012", 2, None)]
    cs += [H1("tempo", "sx", 2, 1), H1("pt", "sx", 2, 1), H1("tempo", "d3_111", 2, 1), H1("pt", "d3_m101", 2, 1),
           H1("tempo", "sz_frac", 2, 1), H1("pt", "sz_frac", 2, 1), H1("mf", "sz_frac", 2, None), H1("pt", "d3_frac_rep", 2, 1),
           H1("tempo", "d3_frac", 2, 1), H1mf2("sz", "sz_shift", 2, 1), H1mf2("sz_frac", "id2", 2, None), H1mf2("sz", "d3_001", 2, 1), H0()]
    if tier == "thorough":
        # (the non-diagonal d=3 operator with a repeated eigenvalue "d3_perm" and sigma_x at N=3 give `unknown`:
        #  not used; sigma_x at N=2 and the diagonal d=3 patterns are the stated bound)
        for m in ("tempo", "pt", "mf"):
            cs += [H1(m, "sz", 4, 2, True), H1(m, "id2", 4, None), H1(m, "d3_013", 2, 1), H1(m, "d3_m101", 2, None),
                   H1(m, "d3_111", 2, None), H1(m, "sx", 2, None), H1(m, "d3_012", 2, 1, True)]
    return cs
