"""C06 -- degeneracy reduction (unique=True) never changes results.

H1  the real Tempo / PtTempo(+compute_dynamics) / MeanFieldTempo classes run twice on the
    same symbols, unique=False vs unique=True, with the real Bath degeneracy maps, the real
    position selection (`_influence`), the real influence_matrix (symbolic eta cells, exp as
    congruence-only atoms) and the real scatter code of both back-ends; equality of the
    states at every step, for coupling spectra representing the coincidence patterns.
"""
import numpy as np

import oqupy
import oqupy.system_dynamics as sd

from vf.core import Case, Ob
from vf import lib
from vf import physical as ph

ASSUMPTIONS = [
    "exact arithmetic, SVD without truncation",
    "coupling spectra are concrete representatives of coincidence patterns (the maps come from the real Bath); d<=3; the 12-decimal rounding threshold of the degeneracy detection is outside the claim",
]
STUBS = ("tensornetwork numpy backend svd -> exact non-truncating factorisation",
         "System.get_propagators -> symbolic trace-preserving half-step propagators",
         "correlations.correlation_2d_integral -> one complex symbol per requested cell",
         "np.exp on symbolic arguments -> atoms per syntactically distinct simplified argument (congruence only)")

SPECTRA = {
    "sz": np.diag([1.0, -1.0]), "id2": np.diag([1.0, 1.0]), "sx": np.array([[0.0, 1.0], [1.0, 0.0]]),
    "sz_frac": np.diag([0.25, -0.25]), "sz_shift": np.diag([-0.25, 0.5]), "d3_frac": np.diag([0.25, 0.125, -0.5]), "d3_frac_rep": np.diag([0.25, 0.25, -0.5]),
    "d3_013": np.diag([0.0, 1.0, 3.0]), "d3_012": np.diag([0.0, 1.0, 2.0]), "d3_m101": np.diag([-1.0, 0.0, 1.0]),
    "d3_001": np.diag([0.0, 0.0, 1.0]), "d3_111": np.diag([1.0, 1.0, 1.0]),
    # non-diagonal with a repeated eigenvalue 0 (eigenvectors: permutation type)
    "d3_perm": np.array([[0.0, 0.0, 0.0], [0.0, 0.5, 0.5], [0.0, 0.5, 0.5]]),
    "d4_0125": np.diag([0.0, 0.5, 1.0, 2.5]),
}

# spectra for the concrete map check H0 (dimension 2..5; non-equidistant ones have more distinct differences than sums)
MAP_SPECTRA = [[1.0, -1.0], [0.5, 0.5], [0.0, 1.0, 3.0], [0.25, 0.25, -0.5], [1.0, 1.0, 1.0], [0.0, 0.5, 1.0, 2.5], [0.0, 1.0, 3.0, 5.0],
               [0.0, 1.0, 3.0, 6.0], [0.0, 2.0, 3.0, 6.0], [0.5, 0.5, -0.5, -0.5], [0.0, 1.0, 2.0, 3.0], [0.0, 0.0, 1.0, 1.0],
               [0.0, 1.0, 2.0, 5.0, 11.0], [0.0, 1.0, 1.0, 4.0, 9.0], [-2.0, -1.0, 0.0, 1.0, 2.0], [0.0, 1.0, 3.0, 7.0, 12.0]]


class H0(Case):
    """CONCRETE check (no solver contribution) of the precondition every H1 case relies on: the degeneracy maps the real
    Bath hands out group exactly the Liouville indices with equal (difference, sum) resp. equal difference, for coupling
    spectra of dimension 2..5, diagonal and conjugated by a real rotation"""
    stubs = ()
    functions = ("Bath.__init__", "bath._row_degeneracy")
    validate = False

    def __init__(self):
        self.id = "H0/degeneracy_maps_d2to5"
        self.bounds = {"d": "2..5", "spectra": len(MAP_SPECTRA), "arithmetic": "IEEE double (12-decimal rounding as in the code)"}

    def run(self, inp):
        import oqupy.config as _cfg
        from vf import env
        obs = []
        with env.patched({"oqupy.bath.NpDtype": _cfg.NpDtype}):
            for w in MAP_SPECTRA:
                d = len(w)
                for rot in (False, True):
                    op = np.diag(np.array(w))
                    if rot:
                        c, s_ = 0.6, 0.8
                        R = np.identity(d)
                        R[0, 0], R[0, 1], R[1, 0], R[1, 1] = c, -s_, s_, c
                        op = R @ op @ R.T
                        op = (op + op.T) / 2
                    bath = oqupy.Bath(op, _DummyCorr())
                    obs.append(Ob.holds("spectrum %s%s: maps group exactly equal keys" % (w, " (rotated)" if rot else ""), maps_ok(bath), key="maps"))
        return obs


class _DummyCorr(oqupy.bath_correlations.BaseCorrelations):
    def correlation(self, *a, **k):
        raise NotImplementedError

    def correlation_2d_integral(self, *a, **k):
        raise NotImplementedError



class FieldSystem(oqupy.TimeDependentSystemWithField):
    def __init__(self, d, P1, P2):
        super().__init__(lambda t, a: np.zeros((d, d)))
        self._P1, self._P2 = P1, P2

    def get_propagators(self, dt, start_time, subdiv_limit, epsrel):
        return lambda step, field, deriv: (self._P1[step], self._P2[step])


def maps_ok(bath):
    """defining property of the maps handed to the back-ends (concrete; no solver contribution)"""
    c, a = np.round(bath.coupling_comm, 12), np.round(bath.coupling_acomm, 12)
    n, w = bath.north_degeneracy_map, bath.west_degeneracy_map
    D = len(c)
    for i in range(D):
        for j in range(D):
            if (n[i] == n[j]) != (c[i] == c[j] and a[i] == a[j]):
                return False
            if (w[i] == w[j]) != (c[i] == c[j]):
                return False
    return True


class H1(Case):
    stubs = STUBS
    env = {"np_proxy_modules": ("oqupy.tempo",)}
    functions = ("Tempo.__init__", "Tempo.compute", "Tempo._influence", "Tempo._prepare_backend", "PtTempo.__init__",
                 "PtTempo._influence", "PtTempo._init_pt_tempo_backend", "PtTempo.get_process_tensor", "MeanFieldTempo.__init__",
                 "MeanFieldTempo._get_influence", "MeanFieldTempo.compute", "tempo.influence_matrix", "Bath.__init__",
                 "bath._row_degeneracy", "BaseTempoBackend.initialize_mps_mpo", "PtTempoBackend.initialize")

    def __init__(self, method, coupling, N, K, tau=False):
        self.method, self.coupling, self.N, self.K, self.tau = method, coupling, N, K, tau
        self.id = "H1/%s_%s_N%d_K%s%s" % (method, coupling, N, K, "_tau" if tau else "")
        self.bounds = {"method": method, "coupling": coupling, "N": N, "dkmax": K, "add_correlation_time": tau}
        self.timeout_s = 600

    def run(self, inp):
        N, K = self.N, self.K
        dt = 0.5
        corr = ph.SymCorrelations(inp)
        bath = ph.bath_for(SPECTRA[self.coupling], corr)
        d = bath.dimension
        params = ph.parameters(dt, K, 0.25 if self.tau else None)
        P1 = [lib.tp_prop(inp, "p%d" % k, d) for k in range(N)]
        P2 = [lib.tp_prop(inp, "q%d" % k, d) for k in range(N)]
        rho0 = inp.arr("r", (d, d))
        out = {}
        for unique in (False, True):
            if self.method == "tempo":
                _, st, _ = ph.tempo_states(bath, params, lib.FakeSystem(d, P1, P2), rho0, N, unique=unique)
            elif self.method == "pt":
                pt, _ = ph.pt_tempo_process_tensor(bath, params, N, unique=unique)
                st = lib.dynamics_states(sd.compute_dynamics(lib.FakeSystem(d, P1, P2), initial_state=rho0, process_tensor=pt,
                                                             progress_type="silent"))
            else:
                mfs = oqupy.MeanFieldSystem([FieldSystem(d, P1, P2)], field_eom=lambda t, states, a: 0.0 * a)
                mft = oqupy.MeanFieldTempo(mfs, [bath], params, [rho0], 1.0 + 0.0j, 0.0, unique=unique)
                dyn = mft.compute(N * dt, progress_type="silent")
                st = list(dyn.system_dynamics[0]._states)
            out[unique] = st
        obs = [Ob.holds("degeneracy maps group exactly equal keys (concrete precondition)", maps_ok(bath)),
               Ob.holds("N+1 states both ways", len(out[False]) == N + 1 and len(out[True]) == N + 1)]
        for n in range(N + 1):
            obs.append(Ob.eq("step %d" % n, out[True][n], out[False][n]))
        return obs


class H1mf2(Case):
    """MeanFieldTempo with TWO systems whose baths have different coupling operators: every bath must be
    reduced with ITS OWN degeneracy classes"""
    stubs = STUBS
    env = {"np_proxy_modules": ("oqupy.tempo",)}
    functions = H1.functions

    def __init__(self, c1, c2, N, K):
        self.c1, self.c2, self.N, self.K = c1, c2, N, K
        self.id = "H1mf2/%s+%s_N%d_K%s" % (c1, c2, N, K)
        self.bounds = {"method": "mf", "couplings": [c1, c2], "N": N, "dkmax": K}
        self.timeout_s = 600

    def run(self, inp):
        N, K = self.N, self.K
        dt = 0.5
        params = ph.parameters(dt, K, None)
        baths, systems, rhos = [], [], []
        for s_, c in enumerate((self.c1, self.c2)):
            corr = ph.SymCorrelations(inp, name="eta%d" % s_)
            bath = ph.bath_for(SPECTRA[c], corr)
            d = bath.dimension
            P1 = [lib.tp_prop(inp, "p%d_%d" % (s_, k), d) for k in range(N)]
            P2 = [lib.tp_prop(inp, "q%d_%d" % (s_, k), d) for k in range(N)]
            baths.append(bath)
            systems.append(FieldSystem(d, P1, P2))
            rhos.append(inp.arr("r%d" % s_, (d, d)))
        out = {}
        for unique in (False, True):
            mfs = oqupy.MeanFieldSystem(systems, field_eom=lambda t, states, a: 0.0 * a)
            mft = oqupy.MeanFieldTempo(mfs, baths, params, rhos, 1.0 + 0.0j, 0.0, unique=unique)
            dyn = mft.compute(N * dt, progress_type="silent")
            out[unique] = [list(sdyn._states) for sdyn in dyn.system_dynamics]
        obs = []
        for s_ in range(2):
            for n in range(N + 1):
                obs.append(Ob.eq("system %d step %d" % (s_, n), out[True][s_][n], out[False][s_][n]))
        return obs


_H1R_SCRIPT = r"""
import json, sys, warnings
import numpy as np
warnings.simplefilter("ignore")
import oqupy
out = {}
corr = oqupy.PowerLawSD(alpha=0.1, zeta=1.0, cutoff=2.0, cutoff_type="exponential", temperature=0.5)
params = oqupy.TempoParameters(dt=0.2, dkmax=2, epsrel=1e-9, add_correlation_time=0.4)
for name, op in (("tenths", np.diag([0.1, 0.2, 0.3])), ("thirds", np.diag([1/3, 2/3, 1.0])), ("sevenths", np.diag([1/7, 3/7, 5/7, 1.0]))):
    d = op.shape[0]
    h = np.ones((d, d)) * 0.3 + np.diag(np.arange(d) * 0.5)
    rho = np.ones((d, d), dtype=complex) / d
    res = {}
    for method in ("tempo", "pt", "mf"):
        st = {}
        for unique in (False, True):
            try:
                bath = oqupy.Bath(op, corr)
                if method == "tempo":
                    dyn = oqupy.Tempo(oqupy.System(h), bath, params, rho, 0.0, unique=unique).compute(0.8, progress_type="silent")
                    st[unique] = np.array(dyn.states)
                elif method == "pt":
                    pt = oqupy.PtTempo(bath, 0.0, 0.8, params, unique=unique).get_process_tensor(progress_type="silent")
                    st[unique] = np.array(oqupy.compute_dynamics(oqupy.System(h), initial_state=rho, process_tensor=pt, progress_type="silent").states)
                else:
                    sysf = oqupy.TimeDependentSystemWithField(lambda t, a: h)
                    mfs = oqupy.MeanFieldSystem([sysf], field_eom=lambda t, states, a: 0.0 * a)
                    dyn = oqupy.MeanFieldTempo(mfs, [bath], params, [rho], 1.0 + 0j, 0.0, unique=unique).compute(0.8, progress_type="silent")
                    st[unique] = np.array(dyn.system_dynamics[0].states)
            except Exception as e:
                st[unique] = "%s: %s" % (type(e).__name__, str(e)[:80])
        if isinstance(st[True], str) or isinstance(st[False], str):
            res[method] = {"error": [str(st[False])[:120] if isinstance(st[False], str) else None, str(st[True])[:120] if isinstance(st[True], str) else None]}
        else:
            res[method] = {"dev": float(abs(st[True] - st[False]).max()) if st[True].shape == st[False].shape else 1e9}
    out[name] = res
print("H1R" + json.dumps(out))
"""


class H1r(Case):
    """CONCRETE double-precision observation (no solver contribution; complements H1, whose symbolic spectra are exactly
    representable): coupling spectra whose differences coincide only up to rounding (0.2-0.1 vs 0.3-0.2) -- the degeneracy
    detection rounds to 12 decimals, so every place that selects class representatives must use the same rounded keys.
    Real stack in a fresh interpreter: unique=True runs, and its states agree with unique=False to 1e-8."""
    stubs = ()
    functions = ("Tempo._influence", "PtTempo._influence", "MeanFieldTempo._get_influence", "Bath.__init__")
    validate = False

    def __init__(self):
        self.id = "H1r/rounding_level_coincidences"
        self.bounds = {"spectra": ["(0.1,0.2,0.3)", "(1/3,2/3,1)", "(1/7,3/7,5/7,1)"], "N": 4, "dkmax": 2, "add_correlation_time": 0.4,
                       "arithmetic": "IEEE double, real stack, fresh interpreter"}

    def run(self, inp):
        import json, os, subprocess, sys
        from vf.core import REPO
        envv = dict(os.environ, PYTHONPATH=REPO, OMP_NUM_THREADS="1")
        r = subprocess.run([sys.executable, "-c", _H1R_SCRIPT], capture_output=True, text=True, env=envv, timeout=600)
        line = [l for l in r.stdout.splitlines() if l.startswith("H1R")]
        if not line:
            return [Ob.holds("real-stack run completed (stderr: %s)" % r.stderr[-200:], False, key="ran")]
        res = json.loads(line[0][3:])
        obs = []
        for spec, per in sorted(res.items()):
            for method, v in sorted(per.items()):
                if "error" in v:
                    obs.append(Ob.holds("%s/%s: unique=True and unique=False both run (%s)" % (spec, method, v["error"]), False, key="runs"))
                else:
                    obs.append(Ob.holds("%s/%s: |states(unique) - states(full)| = %.2e <= 1e-8" % (spec, method, v["dev"]), v["dev"] <= 1e-8, key="agree"))
        return obs


def cases(tier):
    cs = []
    for m in ("tempo", "pt", "mf"):
        cs += [H1(m, "sz", 3, 1, True), H1(m, "sz", 3, None), H1(m, "id2", 3, 1), H1(m, "d3_001", 2, 1), H1(m, "d3_012", 2, None)]
    cs += [H1("tempo", "sx", 2, 1), H1("pt", "sx", 2, 1), H1("tempo", "d3_111", 2, 1), H1("pt", "d3_m101", 2, 1),
           H1("tempo", "sz_frac", 2, 1), H1("pt", "sz_frac", 2, 1), H1("mf", "sz_frac", 2, None), H1("pt", "d3_frac_rep", 2, 1),
           H1("tempo", "d3_frac", 2, 1), H1mf2("sz", "sz_shift", 2, 1), H1mf2("sz_frac", "id2", 2, None), H1mf2("sz", "d3_001", 2, 1), H0(), H1r()]
    if tier == "thorough":
        # (the non-diagonal d=3 operator with a repeated eigenvalue "d3_perm" and sigma_x at N=3 give `unknown`:
        #  not used; sigma_x at N=2 and the diagonal d=3 patterns are the stated bound)
        for m in ("tempo", "pt", "mf"):
            cs += [H1(m, "sz", 4, 2, True), H1(m, "id2", 4, None), H1(m, "d3_013", 2, 1), H1(m, "d3_m101", 2, None),
                   H1(m, "d3_111", 2, None), H1(m, "sx", 2, None), H1(m, "d3_012", 2, 1, True)]
    return cs
