"""C16 -- process tensors survive export, import and file-backed computation unchanged.

V0  the in-memory stand-in for h5py (vf/h5stub.py) is validated against the REAL h5py on a
    scripted operation sequence at the start of every run (disagreement -> exit 2).
H1  real SimpleProcessTensor.export -> FileProcessTensor(mode='read') ->
    import_process_tensor(type in {'file','simple'}) on symbolic rank-3/rank-4 MPO tensors,
    caps, optional dt, transforms, names: every getter returns the same symbols, meta data
    equal, the imported object is accepted by compute_dynamics and gives the same states
    (and the states of the explicit index-sum oracle of C03).
H1/initial_tensor  dedicated cases for the initial-tensor slot of the in-memory class
    (SimpleProcessTensor.set_initial_tensor), see findings/C16.json.
H2  PT-TEMPO (real PtTempoBackend.initialize/compute_step/update_process_tensor) writing
    directly into a FileProcessTensor vs. into a SimpleProcessTensor on the same symbolic
    influences: same tensors/caps/meta data, same dynamics, also after close + re-import.

H2/pt_tempo_init_*  the same, with both process tensors created by the REAL
    PtTempo._init_simple_process_tensor / _init_file_process_tensor from a complex bath unitary.
H3  PtTempo._init_file_process_tensor vs _init_simple_process_tensor on a SYMBOLIC complex bath
    unitary W: same transforms (and their documented action), dt, dimension, name, description,
    also after close + re-import; W = 1 -> no transforms.
H4  name / description assigned after construction reach the file (re-import 'file'/'simple').

In sym/frac mode the module globals `h5py` and `os` of oqupy.process_tensor are the stand-in;
in real mode (stub validation, replay of counterexamples) the same harness runs on the REAL
h5py in a temporary directory.
"""
import shutil
import tempfile
import warnings

import numpy as np

import oqupy.process_tensor as ptm
import oqupy.system_dynamics as sd

from vf import core, h5stub, lib
from vf.core import Case, Ob
from checks.c03 import build_pt

ASSUMPTIONS = [
    "exact real/complex arithmetic (floating-point rounding of tensor arithmetic outside the claim)",
    "conjugation-free contraction code is a polynomial map: identity over real symbols implies identity over complex values",
    "the HDF5 library is modelled by the in-memory stand-in vf/h5stub.py (documented h5py contract as used by "
    "oqupy/process_tensor.py), validated against the real h5py on a scripted operation sequence at the start of every "
    "run and by running every harness on the real h5py at seeded points; the on-disk format, complex128 serialisation "
    "and large tensors are outside the claim",
]

ENV = {"noconj": True, "np_proxy_modules": ("oqupy.process_tensor",), "extra": dict(h5stub.ENV_EXTRA)}


class Workspace:
    """file names + existence test for the current mode: the stand-in's file-system dict
    (sym/frac) or a real temporary directory with the real h5py (real)"""

    def __init__(self, inp):
        self.real = inp.mode == "real"
        self.dir = None

    def __enter__(self):
        if self.real:
            import h5py
            if ptm.h5py is not h5py:
                raise RuntimeError("real mode must run on the real h5py")
            self.dir = tempfile.mkdtemp(prefix="vf_pt_")
        else:
            if ptm.h5py is not h5stub.MODULE or ptm.os is not h5stub.OS:
                raise RuntimeError("stand-in for h5py/os is not installed in oqupy.process_tensor (hook point moved?)")
            h5stub.reset()
            self.dir = "/virtual"
        return self

    def path(self, name):
        return self.dir + "/" + name

    def exists(self, fn):
        import os
        return os.path.exists(fn) if self.real else h5stub.exists(fn)

    def __exit__(self, *a):
        if self.real:
            shutil.rmtree(self.dir, ignore_errors=True)
        else:
            h5stub.reset()
        return False


def concretise_frac(inp, obs):
    """frac mode only: File.compute_caps multiplies the 1/sqrt(d) trace vectors, so values
    carry the algebraic symbol sqrt_p_q; evaluate it (40 digits) so that the concrete
    comparison of the validation run works.  No effect in sym/real mode."""
    if inp.mode != "frac":
        return obs
    import z3
    from decimal import Decimal, getcontext
    from fractions import Fraction
    from vf import sym
    getcontext().prec = 50
    sub = []
    for q, v in sym._SQ.items():
        r = (Decimal(q.numerator) / Decimal(q.denominator)).sqrt()
        sub.append((v, z3.RealVal(str(r))))
    if not sub:
        return obs

    def term(t):
        if isinstance(t, Fraction):
            return t
        x = z3.simplify(z3.substitute(t, *sub))
        if z3.is_rational_value(x):
            return Fraction(x.numerator_as_long(), x.denominator_as_long())
        return t

    def conv(a):
        if isinstance(a, sym.S):
            return sym.S(term(a.re), term(a.im))
        if isinstance(a, np.ndarray) and a.dtype == object:
            out = np.empty(a.shape, dtype=object)
            for idx in np.ndindex(*a.shape):
                out[idx] = conv(a[idx])
            return out
        if isinstance(a, list):
            return [conv(x) for x in a]
        return a
    for o in obs:
        if o.kind == "eq":
            o.got, o.exp = conv(o.got), conv(o.exp)
    return obs


def reduce_sqrt(inp, obs, only=("dynamics",)):
    """sym mode only; applied to the (large) obligations whose label starts with one of `only`
    -- the small cap-tensor identities stay as they are and are decided by z3 with the axiom.  Values computed by FileProcessTensor.compute_caps contain the algebraic
    symbol s = sqrt(p/q) of the 1/sqrt(d) trace vectors (always in pairs).  Rewrite every
    term into the normal form A + B*s using ONLY the axiom s*s = p/q (exact, sound), so that
    the solver is not asked to rediscover that through nlsat on a large polynomial."""
    if inp.mode != "sym":
        return obs
    import z3
    from fractions import Fraction
    from vf import sym
    if len(sym._SQ) != 1:
        return obs
    (q, sv), = sym._SQ.items()
    qv = z3.RealVal(str(q))
    sid = sv.get_id()
    memo = {}
    ZERO = None          # structural zero of the s-coefficient

    def mul(a, b):
        if a is ZERO or b is ZERO:
            return ZERO
        return a * b

    def add(a, b):
        if a is ZERO:
            return b
        if b is ZERO:
            return a
        return a + b

    class Bail(Exception):
        pass

    def red(t):
        """-> (A, B) with t == A + B*s; A a z3 term, B a z3 term or ZERO"""
        i = t.get_id()
        if i in memo:
            return memo[i]
        if i == sid:
            r = (z3.RealVal(0), z3.RealVal(1))
        elif t.num_args() == 0:
            r = (t, ZERO)
        else:
            k = t.decl().kind()
            ch = [red(c) for c in t.children()]
            if all(b is ZERO for _, b in ch):
                r = (t, ZERO)
            elif k == z3.Z3_OP_ADD:
                A, B = ch[0]
                for a, b in ch[1:]:
                    A, B = A + a, add(B, b)
                r = (A, B)
            elif k == z3.Z3_OP_SUB:
                A, B = ch[0]
                for a, b in ch[1:]:
                    A = A - a
                    B = add(B, ZERO if b is ZERO else -b)
                r = (A, B)
            elif k == z3.Z3_OP_UMINUS:
                a, b = ch[0]
                r = (-a, ZERO if b is ZERO else -b)
            elif k == z3.Z3_OP_MUL:
                A, B = ch[0]
                for a, b in ch[1:]:
                    nA = A * a
                    bb = mul(B, b)
                    if bb is not ZERO:
                        nA = nA + bb * qv
                    nB = add(mul(A, b), mul(B, a))
                    A, B = nA, nB
                r = (A, B)
            elif k == z3.Z3_OP_DIV and ch[1][1] is ZERO:
                a, b = ch[0]
                r = (a / ch[1][0], ZERO if b is ZERO else b / ch[1][0])
            else:
                raise Bail()
        memo[i] = r
        return r

    def term(x):
        if isinstance(x, Fraction):
            return x
        A, B = red(x)
        if B is ZERO:
            return A
        Bs = z3.simplify(B)
        if z3.is_rational_value(Bs) and Bs.numerator_as_long() == 0:
            return A
        return A + B * sv

    def conv(a):
        if isinstance(a, sym.S):
            return sym.S(term(a.re), term(a.im))
        if isinstance(a, np.ndarray) and a.dtype == object:
            out = np.empty(a.shape, dtype=object)
            for idx in np.ndindex(*a.shape):
                out[idx] = conv(a[idx])
            return out
        if isinstance(a, list):
            return [conv(x) for x in a]
        return a
    try:
        for o in obs:
            if o.kind == "eq" and o.label.startswith(tuple(only)):
                g, e = conv(o.got), conv(o.exp)
                o.got, o.exp = g, e
    except Bail:
        pass
    return obs


def _import(fn, kind):
    """-> (object, list of warning messages)"""
    with warnings.catch_warnings(record=True) as w:
        warnings.simplefilter("always")
        obj = ptm.import_process_tensor(fn, kind)
    return obj, [str(x.message) for x in w]


def _is_defect_sentinel(t):
    """signature of the recorded defect C16/H1/initial_tensor: set_initial_tensor(None) stored
    np.array(None, dtype=NpDtype) (0-d array holding None resp. NaN)"""
    if not isinstance(t, np.ndarray) or t.shape != ():
        return False
    v = t[()]
    return v is None or (isinstance(v, (complex, float, np.number)) and v != v)


def _raw(pt, k):
    """the tensor as it was stored (rank preserved)"""
    if isinstance(pt, ptm.FileProcessTensor):
        return pt.get_mpo_tensor(k, transformed=False)
    return pt._mpo_tensors[k]


def _get(obs, label, fn):
    """value of a getter of the object under test; a raising getter is a failed obligation
    (with the exception in `info`), not a harness error"""
    try:
        return True, fn()
    except Exception as e:  # noqa
        obs.append(Ob.holds(label + " does not raise", False, info="%s: %s" % (type(e).__name__, e)))
        return False, None


def compare(tag, orig, imp, N, want_type=None, skip_initial=False):
    """obligations: `imp` is the same process tensor as `orig` (all getters / meta data)"""
    obs = []
    if want_type is not None:
        obs.append(Ob.holds(tag + " type", type(imp) is want_type))
    ok, n_imp = _get(obs, tag + " len()", lambda: len(imp))
    obs.append(Ob.holds(tag + " len", ok and n_imp == len(orig) == N))
    if not ok or n_imp != N:
        return obs          # everything below is per step of a process tensor of the right length
    obs.append(Ob.holds(tag + " max_step", imp.max_step == orig.max_step))
    obs.append(Ob.holds(tag + " hilbert_space_dimension", imp.hilbert_space_dimension == orig.hilbert_space_dimension
                        and isinstance(imp.hilbert_space_dimension, int)))
    if orig.dt is None:
        obs.append(Ob.holds(tag + " dt is None", imp.dt is None))
    else:
        obs.append(Ob.holds(tag + " dt is not None", imp.dt is not None))
        if imp.dt is not None:
            obs.append(Ob.eq(tag + " dt", imp.dt, orig.dt))
    obs.append(Ob.holds(tag + " name", imp.name == orig.name and isinstance(imp.name, str)))
    obs.append(Ob.holds(tag + " description", imp.description == orig.description and isinstance(imp.description, str)))
    for nm in ("transform_in", "transform_out"):
        a, b = getattr(orig, nm), getattr(imp, nm)
        if a is None:
            obs.append(Ob.holds(tag + " %s is None" % nm, b is None))
        else:
            obs.append(Ob.holds(tag + " %s is not None" % nm, b is not None))
            if b is not None:
                obs.append(Ob.eq(tag + " " + nm, b, a))
    for k in range(N):
        ok, t = _get(obs, tag + " stored mpo %d" % k, lambda: _raw(imp, k))
        if ok:
            obs.append(Ob.eq(tag + " stored mpo %d" % k, t, _raw(orig, k)))
        ok, t = _get(obs, tag + " get_mpo_tensor(%d)" % k, lambda: imp.get_mpo_tensor(k))
        if ok:
            obs.append(Ob.eq(tag + " get_mpo_tensor(%d)" % k, t, orig.get_mpo_tensor(k)))
        if type(imp) is type(orig):
            ok, t = _get(obs, tag + " get_mpo_tensor(%d, transformed=False)" % k, lambda: imp.get_mpo_tensor(k, transformed=False))
            if ok:
                obs.append(Ob.eq(tag + " get_mpo_tensor(%d, transformed=False)" % k, t, orig.get_mpo_tensor(k, transformed=False)))
    try:
        imp.get_mpo_tensor(N)
        oob = False
    except IndexError:
        oob = True
    except Exception:  # noqa
        oob = False
    obs.append(Ob.holds(tag + " get_mpo_tensor(len) raises IndexError", oob))
    for k in range(N + 1):
        ok, c = _get(obs, tag + " get_cap_tensor(%d)" % k, lambda: imp.get_cap_tensor(k))
        if not ok:
            continue
        oc = orig.get_cap_tensor(k)
        if oc is None:
            # the original has no cap for this step (caps never set/computed)
            obs.append(Ob.holds(tag + " cap %d absent as in the original" % k, c is None))
            continue
        obs.append(Ob.holds(tag + " cap %d present" % k, c is not None))
        if c is not None:
            obs.append(Ob.eq(tag + " get_cap_tensor(%d)" % k, c, oc))
    ok, c = _get(obs, tag + " get_cap_tensor(len+1)", lambda: imp.get_cap_tensor(N + 1))
    if ok:
        obs.append(Ob.holds(tag + " get_cap_tensor(len+1) is None", c is None))
    if not skip_initial:
        ok, t = _get(obs, tag + " get_initial_tensor()", lambda: imp.get_initial_tensor())
        if ok:
            obs.append(Ob.holds(tag + " get_initial_tensor() is None", t is None and orig.get_initial_tensor() is None))
    ok, bi = _get(obs, tag + " get_bond_dimensions()", lambda: imp.get_bond_dimensions())
    if ok:
        bo = orig.get_bond_dimensions()
        obs.append(Ob.holds(tag + " bond dimensions", [int(x) for x in bo] == [int(x) for x in bi] and len(bi) == N + 1))
    return obs


def dynamics(pt, d, P1, P2, rho0, dt_kw):
    kw = {} if pt.dt is not None else {"dt": dt_kw}
    dyn = sd.compute_dynamics(lib.FakeSystem(d, P1, P2), initial_state=rho0, process_tensor=pt,
                              progress_type="silent", **kw)
    return lib.dynamics_states(dyn)


def work_around_known_initial_tensor_defect(orig, imp):
    """The 'simple' import path of the pinned tree leaves a 0-d NaN/None array in the
    initial-tensor slot (recorded: C16/H1/initial_tensor, dedicated cases below).  So that
    the REST of the round trip is still checked for 'simple', the generic cases clear
    exactly that sentinel; anything else in the slot stays and fails the obligations."""
    if isinstance(imp, ptm.SimpleProcessTensor) and orig.get_initial_tensor() is None \
            and _is_defect_sentinel(imp.get_initial_tensor()):
        imp._initial_tensor = None
        return True
    return False


def build_pt_x(inp, name, d, N, bond, rank, transforms, dt=0.1):
    """checks.c03.build_pt plus EXACTLY ONE fully symbolic transform ('in_full' / 'out_full');
    'in' / 'out' (one sparse transform) are handled by build_pt itself"""
    if transforms not in ("in_full", "out_full"):
        return build_pt(inp, name, d, N, bond, rank, transforms, dt=dt)
    from checks.c03 import _apply_tr
    D = d * d
    base, Meff, caps = build_pt(inp, name, d, N, bond, rank, False, dt=dt)
    T = inp.arr(name + ("Ti" if transforms == "in_full" else "To"), (D, D))
    tin, tout = (T, None) if transforms == "in_full" else (None, T)
    pt = ptm.SimpleProcessTensor(hilbert_space_dimension=d, dt=dt, transform_in=tin, transform_out=tout)
    for k in range(N):
        pt.set_mpo_tensor(k, base._mpo_tensors[k])
    for k in range(N + 1):
        pt.set_cap_tensor(k, caps[k])
    return pt, [_apply_tr(M, tin, tout) for M in Meff], caps


TR_NAMES = {False: "notr", True: "tr", "full": "trfull", "in": "trin", "out": "trout", "in_full": "trinfull", "out_full": "troutfull"}


class H1(Case):
    functions = ("SimpleProcessTensor.export", "FileProcessTensor.__init__", "FileProcessTensor._create_file",
                 "FileProcessTensor._read_file", "FileProcessTensor.close", "_set_data_and_shape", "_get_data_and_shape",
                 "_is_hdf5_none", "import_process_tensor", "FileProcessTensor.get_*", "SimpleProcessTensor.get_*",
                 "system_dynamics.compute_dynamics")
    stubs = h5stub.STUB_TEXT + ("System.get_propagators -> symbolic half-step propagators",)
    env = ENV
    real_env = {}

    def __init__(self, kind, N, bond, rank, transforms, dt, overwrite=False, named=True, oracle=False, d=2, direct=False):
        self.kind, self.N, self.bond, self.rank, self.transforms, self.dt = kind, N, bond, rank, transforms, dt
        self.overwrite, self.named, self.oracle, self.d = overwrite, named, oracle, d
        self.direct = direct      # write through a FileProcessTensor created directly instead of export()
        self.id = "H1/%s_N%d_b%d_r%d_%s_dt%s%s%s%s%s" % (kind, N, bond, rank, TR_NAMES[transforms],
                                                         dt, "_ow" if overwrite else "", "" if named else "_unnamed",
                                                         "_oracle" if oracle else "", "_direct" if direct else "")
        self.bounds = {"d": d, "N": N, "bond": bond, "rank": rank, "transforms": str(transforms), "dt": str(dt),
                       "import_type": kind}
        self.timeout_s = 300

    def run(self, inp):
        d, N = self.d, self.N
        with Workspace(inp) as ws:
            if self.dt == "sym":
                dt = inp.real("dt", lo=0.01, hi=1)
            else:
                dt = {"none": None, "c": 0.1}[self.dt]
            pt, Meff, caps = build_pt_x(inp, "e", d, N, self.bond, self.rank, self.transforms, dt=dt)
            if self.named:
                pt.name = "a process tensor"
                pt.description = "two\nlines"
            fn = ws.path("pt.hdf5")
            if self.overwrite:
                # an older, different file is in the way and overwriting is requested
                old, _, _ = build_pt(inp, "o", d, 1, 1, 4, False, dt=0.5)
                old.export(fn)
            if self.direct:
                f = ptm.FileProcessTensor(mode="overwrite" if self.overwrite else "write", filename=fn, hilbert_space_dimension=d,
                                          dt=dt, transform_in=pt.transform_in, transform_out=pt.transform_out,
                                          **({"name": pt.name, "description": pt.description} if self.named else {}))
                try:
                    for k in range(N):
                        f.set_mpo_tensor(k, pt._mpo_tensors[k])
                    for k in range(N + 1):
                        f.set_cap_tensor(k, caps[k])
                    obs0 = compare("file-backed object before close", pt, f, N, want_type=ptm.FileProcessTensor)
                finally:
                    f.close()
            else:
                obs0 = []
                pt.export(fn, overwrite=self.overwrite)
            obs = obs0 + [Ob.holds("file exists after export", ws.exists(fn))]
            imp, _ = _import(fn, self.kind)
            try:
                work_around_known_initial_tensor_defect(pt, imp)
                obs += compare("import", pt, imp, N,
                               want_type=ptm.FileProcessTensor if self.kind == "file" else ptm.SimpleProcessTensor)
                if self.dt != "sym" and len(imp) == N:
                    P1 = [lib.gen_prop(inp, "p%d" % k, d) for k in range(N)]
                    P2 = [lib.gen_prop(inp, "q%d" % k, d) for k in range(N)]
                    rho0 = inp.arr("r", (d, d))
                    a = dynamics(pt, d, P1, P2, rho0, 0.1)
                    b = dynamics(imp, d, P1, P2, rho0, 0.1)
                    obs.append(Ob.holds("number of states", len(a) == len(b) == N + 1))
                    for n in range(N + 1):
                        obs.append(Ob.eq("dynamics from imported == from original, step %d" % n, b[n], a[n]))
                        if self.oracle:
                            exp = lib.oracle_pt_dynamics(rho0, [(Meff, caps)], P1, P2, n).reshape(d, d)
                            obs.append(Ob.eq("dynamics from imported == explicit index sum, step %d" % n, b[n], exp))
            finally:
                if isinstance(imp, ptm.FileProcessTensor):
                    imp.close()
        return concretise_frac(inp, obs)


class H1Init(Case):
    """the initial-tensor slot (dedicated keys: C16/H1/initial_tensor/...)"""
    functions = ("SimpleProcessTensor.set_initial_tensor", "SimpleProcessTensor.get_initial_tensor", "import_process_tensor",
                 "FileProcessTensor.set_initial_tensor", "FileProcessTensor.get_initial_tensor",
                 "system_dynamics._compute_dynamics_input_parse")
    stubs = h5stub.STUB_TEXT + ("System.get_propagators -> symbolic half-step propagators",)
    env = ENV
    real_env = {}

    def __init__(self, variant):
        self.variant = variant
        self.id = "H1/initial_tensor/" + variant
        self.bounds = {"d": 2, "N": 1, "variant": variant}

    def run(self, inp):
        d, N = 2, 1
        obs = []
        with Workspace(inp) as ws:
            fn = ws.path("pt.hdf5")
            if self.variant == "none_simple":
                pt, Meff, caps = build_pt(inp, "e", d, N, 1, 4, False, dt=0.1)
                pt.export(fn)
                imp, _ = _import(fn, "simple")
                obs.append(Ob.holds("import 'simple' of a file without initial tensor: get_initial_tensor() is None",
                                    imp.get_initial_tensor() is None, key="get_initial_tensor_none"))
                P1 = [lib.gen_prop(inp, "p%d" % k, d) for k in range(N)]
                P2 = [lib.gen_prop(inp, "q%d" % k, d) for k in range(N)]
                rho0 = inp.arr("r", (d, d))
                a = dynamics(pt, d, P1, P2, rho0, 0.1)
                try:
                    b = dynamics(imp, d, P1, P2, rho0, 0.1)
                except NotImplementedError:
                    b = None
                obs.append(Ob.holds("import 'simple' object accepted by compute_dynamics", b is not None,
                                    key="compute_dynamics_accepts"))
                if b is not None:
                    for n in range(N + 1):
                        obs.append(Ob.eq("dynamics step %d" % n, b[n], a[n], key="compute_dynamics_states"))
            elif self.variant == "value_simple":
                # a file-backed process tensor with an initial tensor, re-imported both ways
                T = inp.arr("T", (2, 4))
                f = ptm.FileProcessTensor(mode="write", filename=fn, hilbert_space_dimension=d, dt=0.1)
                f.set_initial_tensor(T)
                f.set_mpo_tensor(0, inp.arr("M", (1, 1, 4)))
                obs.append(Ob.eq("file-backed object returns its initial tensor", f.get_initial_tensor(), T, key="file_get"))
                f.close()
                g, _ = _import(fn, "file")
                obs.append(Ob.eq("import 'file' returns the initial tensor", g.get_initial_tensor(), T, key="file_import"))
                g.close()
                s, _ = _import(fn, "simple")
                obs.append(Ob.eq("import 'simple' returns the initial tensor", s.get_initial_tensor(), T, key="simple_import"))
            elif self.variant == "value_set":
                T = inp.arr("T", (2, 4))
                s = ptm.SimpleProcessTensor(hilbert_space_dimension=d, dt=0.1)
                s.set_mpo_tensor(0, inp.arr("M", (1, 1, 4)))
                s.set_initial_tensor(T)
                obs.append(Ob.eq("SimpleProcessTensor.set_initial_tensor(T) stores T", s.get_initial_tensor(), T, key="simple_set"))
                s.export(fn)
                g, _ = _import(fn, "file")
                obs.append(Ob.eq("export writes the initial tensor", g.get_initial_tensor(), T, key="simple_export"))
                g.close()
                s.set_initial_tensor(None)
                obs.append(Ob.holds("set_initial_tensor(None) clears the slot", s.get_initial_tensor() is None, key="simple_clear"))
        return obs


def _unitary_transforms(inp, which):
    """transforms exactly as PtTempo._init_*_process_tensor builds them from the bath's
    unitary (left_right_super(U^dagger, U).T / left_right_super(U, U^dagger).T)"""
    from oqupy.operators import left_right_super
    if which == "real":
        U = np.array([[0.6, 0.8], [-0.8, 0.6]])
    else:
        U = np.array([[0.6, 0.8j], [0.8j, 0.6]])
    tin = left_right_super(U.conjugate().T, U).T
    tout = left_right_super(U, U.conjugate().T).T
    return inp.const(tin), inp.const(tout)


ENV_PT = {"noconj": False, "np_proxy_modules": ("oqupy.process_tensor", "oqupy.pt_tempo"), "extra": dict(h5stub.ENV_EXTRA)}


def bath_unitary(inp, which):
    """the bath's `unitary_transform` W handed to PtTempo._init_*_process_tensor"""
    dt = complex if inp.mode == "real" else object
    if which == "su2":
        # generic complex (not real-symmetric) matrix of SU(2) shape; the claims made with it are
        # polynomial identities in a, b (no normalisation needed: both objects get the same W)
        a, b = inp.cplx("a"), inp.cplx("b")
        return np.array([[a, -b.conjugate()], [b, a.conjugate()]], dtype=dt)
    if which == "gen":
        return inp.arr("W", (2, 2), cplx=True)
    if which == "cunit":
        # exact complex unitary that is neither real nor symmetric: a = (1+2i)/3, b = 2/3
        a, b = (1 + 2j) / 3, 2.0 / 3
        return inp.const(np.array([[a, -b], [b, a.conjugate()]]))
    if which == "sy":
        # eigenbasis of sigma_y (columns (1, i)/sqrt2, (1, -i)/sqrt2)
        r = 1 / np.sqrt(2.0)
        return inp.const(np.array([[r, r], [1j * r, -1j * r]]))
    raise ValueError(which)


class PtTempoShell:
    """A PtTempo object created with PtTempo.__new__ carrying exactly the attributes that the
    REAL PtTempo._init_simple_process_tensor / _init_file_process_tensor read (bath unitary,
    dimension, parameters.dt, name, description)."""

    def __init__(self, W, d=2, dt=0.1, name="pt", description="descr"):
        import oqupy.base_api
        import oqupy.pt_tempo as ptmod
        p = ptmod.PtTempo.__new__(ptmod.PtTempo)
        oqupy.base_api.BaseAPIClass.__init__(p, name, description)

        class Bath_:
            unitary_transform = W

        class Par_:
            pass
        Par_.dt = dt
        p._bath, p._dimension, p._parameters = Bath_(), d, Par_()
        p._process_tensor = None
        self.p = p

    def simple(self):
        self.p._init_simple_process_tensor()
        return self.p._process_tensor

    def file(self, filename, overwrite=False):
        self.p._init_file_process_tensor(filename, overwrite)
        return self.p._process_tensor


class H2(Case):
    functions = ("PtTempoBackend.initialize", "PtTempoBackend.compute_step", "PtTempoBackend.update_process_tensor",
                 "FileProcessTensor.set_mpo_tensor", "FileProcessTensor.compute_caps", "SimpleProcessTensor.compute_caps",
                 "FileProcessTensor.get_*", "import_process_tensor", "system_dynamics.compute_dynamics", "NodeArray.*")
    stubs = h5stub.STUB_TEXT + ("tensornetwork numpy backend svd -> exact non-truncating factorisation",
                                "System.get_propagators -> symbolic half-step propagators")
    assumptions = ("transforms of a PT-TEMPO process tensor are the unitary basis change of the bath (as built by PtTempo)",)
    env = ENV
    real_env = {}

    def __init__(self, N, K, transforms=None, reimport=("file", "simple"), named_file=True, via_init=None):
        self.N, self.K, self.transforms, self.reimport, self.named_file = N, K, transforms, reimport, named_file
        self.via_init = via_init
        self.id = "H2/pt_tempo_file_N%d_K%s_%s%s" % (N, K, transforms or "notr", "" if named_file else "_tmpfile")
        self.bounds = {"d": 2, "N": N, "dkmax": K, "transforms": str(transforms)}
        if via_init:
            # both process tensors are created by the REAL PtTempo._init_simple_process_tensor /
            # _init_file_process_tensor from the bath unitary `via_init`
            self.id = "H2/pt_tempo_init_%s_N%d_K%s%s" % (via_init, N, K, "" if named_file else "_tmpfile")
            self.bounds = {"d": 2, "N": N, "dkmax": K, "bath_unitary": via_init}
            self.env = ENV_PT
            self.functions = H2.functions + ("PtTempo._init_simple_process_tensor", "PtTempo._init_file_process_tensor",
                                             "operators.left_right_super")
        self.timeout_s = 600

    def run(self, inp):
        d, N, K = 2, self.N, self.K
        with Workspace(inp) as ws:
            tin = tout = None
            if self.transforms:
                tin, tout = _unitary_transforms(inp, self.transforms)
            infl = lib.Influences(inp, d, K)

            shell = PtTempoShell(bath_unitary(inp, self.via_init)) if self.via_init else None

            def simple():
                if shell is not None:
                    return shell.simple()
                return ptm.SimpleProcessTensor(hilbert_space_dimension=d, dt=0.1, transform_in=tin, transform_out=tout,
                                               name="pt", description="descr")
            # run 1: in memory
            mem = simple()
            pt_tempo(infl, N, K, d, mem)
            # run 2: the same computation writing directly into a file
            fn = ws.path("pt.hdf5") if self.named_file else None
            if shell is not None:
                fpt = shell.file(fn, overwrite=False)
            else:
                fpt = ptm.FileProcessTensor(mode="write", filename=fn, hilbert_space_dimension=d, dt=0.1, transform_in=tin,
                                            transform_out=tout, name="pt", description="descr")
            fn = fpt.filename
            closed = False
            imp = None
            try:
                pb2 = pt_tempo(infl, N, K, d, fpt)
                # the tensor network of run 2 written into an in-memory process tensor as well: the
                # reference for tensor-level comparisons on the real stack (two separate real runs
                # may differ by an SVD gauge in degenerate subspaces; their dynamics may not)
                mem2 = simple()
                pb2._process_tensor = mem2
                pb2.update_process_tensor()
                pb2._process_tensor = fpt
                obs = []
                P1 = [lib.gen_prop(inp, "p%d" % k, d) for k in range(N)]
                P2 = [lib.gen_prop(inp, "q%d" % k, d) for k in range(N)]
                rho0 = inp.arr("r", (d, d))
                a = dynamics(mem, d, P1, P2, rho0, 0.1)
                obs.append(Ob.holds("file-backed len", len(fpt) == N))
                if len(fpt) == N:
                    b = dynamics(fpt, d, P1, P2, rho0, 0.1)
                    obs.append(Ob.holds("number of states", len(a) == len(b) == N + 1))
                    for n in range(N + 1):
                        obs.append(Ob.eq("dynamics file-backed == in-memory run, step %d" % n, b[n], a[n]))
                obs += compare("file-backed", mem2, fpt, N)
                if inp.mode != "real":
                    obs += compare("file-backed vs separate in-memory run", mem, fpt, N)
                # name / description assigned AFTER construction must reach the file as well
                for o in (mem, mem2, fpt):
                    o.description = "a new description"
                    o.name = "renamed"
                obs.append(Ob.holds("file-backed: name/description after assignment",
                                    fpt.name == "renamed" and fpt.description == "a new description"))
                fpt.close()
                closed = True
                for kind in self.reimport:
                    imp, _ = _import(fn, kind)
                    work_around_known_initial_tensor_defect(mem, imp)
                    if len(imp) == N:
                        c = dynamics(imp, d, P1, P2, rho0, 0.1)
                        for n in range(N + 1):
                            obs.append(Ob.eq("dynamics re-import %s == in-memory run, step %d" % (kind, n), c[n], a[n]))
                    obs += compare("re-import " + kind, mem2, imp, N)
                    if inp.mode != "real":
                        obs += compare("re-import %s vs separate in-memory run" % kind, mem, imp, N)
                    if isinstance(imp, ptm.FileProcessTensor):
                        imp.close()
                    imp = None
            finally:
                if not closed:
                    fpt.close()
                if isinstance(imp, ptm.FileProcessTensor):
                    imp.close()
                if not self.named_file and ws.exists(fn):
                    import os
                    (os.remove if ws.real else h5stub.OS.remove)(fn)
        return reduce_sqrt(inp, concretise_frac(inp, obs))


class H3(Case):
    """PtTempo chooses a file-backed or an in-memory process tensor: the REAL
    PtTempo._init_file_process_tensor(filename, overwrite) and PtTempo._init_simple_process_tensor()
    must build the same object (transforms from the bath's unitary, dt, dimension, name,
    description) for a symbolic complex bath unitary W; W = 1 gives no transforms in both."""
    functions = ("PtTempo._init_simple_process_tensor", "PtTempo._init_file_process_tensor", "operators.left_right_super",
                 "FileProcessTensor.__init__", "FileProcessTensor._create_file", "FileProcessTensor._read_file", "import_process_tensor")
    stubs = h5stub.STUB_TEXT
    env = ENV_PT
    real_env = {}

    def __init__(self, which, overwrite=False, named=True):
        self.which, self.overwrite, self.named = which, overwrite, named
        self.id = "H3/pt_tempo_init_transforms_%s%s%s" % (which, "_ow" if overwrite else "", "" if named else "_tmpfile")
        self.bounds = {"d": 2, "bath_unitary": which, "overwrite": overwrite}

    def run(self, inp):
        from oqupy.operators import left_right_super
        d = 2
        obs = []
        with Workspace(inp) as ws:
            W = bath_unitary(inp, self.which) if self.which != "identity" else inp.const(np.identity(2))
            shell = PtTempoShell(W, dt=0.25, name="the name", description="the description")
            mem = shell.simple()
            fn = ws.path("pt.hdf5") if self.named else None
            if self.overwrite:
                old, _, _ = build_pt(inp, "o", d, 1, 1, 4, False, dt=0.5)
                old.export(fn)
            fpt = shell.file(fn, overwrite=self.overwrite)
            fn = fpt.filename
            try:
                def meta(tag, x):
                    out = [Ob.holds(tag + " dt", x.dt is not None and float(x.dt) == 0.25),
                           Ob.holds(tag + " hilbert_space_dimension", x.hilbert_space_dimension == d),
                           Ob.holds(tag + " name/description", x.name == "the name" and x.description == "the description")]
                    for nm in ("transform_in", "transform_out"):
                        a, b = getattr(mem, nm), getattr(x, nm)
                        out.append(Ob.holds(tag + " %s None-ness" % nm, (a is None) == (b is None)))
                        if a is not None and b is not None:
                            out.append(Ob.eq(tag + " %s == in-memory object's" % nm, b, a))
                    return out
                obs.append(Ob.holds("file-backed object created", isinstance(fpt, ptm.FileProcessTensor) and ws.exists(fn)))
                obs += meta("file-backed", fpt)
                if self.which == "identity":
                    obs.append(Ob.holds("no transforms for the identity", mem.transform_in is None and mem.transform_out is None))
                elif mem.transform_in is not None:
                    # documented meaning (BaseProcessTensor.transform_in/out): system basis -> PT basis
                    # (rho -> W^dagger rho W) and back (rho -> W rho W^dagger), stored transposed
                    Wd = W.conjugate().T
                    v = inp.arr("v", (d, d), cplx=True)
                    for tag, x in (("in-memory", mem), ("file-backed", fpt)):
                        if x.transform_in is not None and x.transform_out is not None:
                            obs.append(Ob.eq(tag + " transform_in acts as rho -> W^dagger rho W",
                                             x.transform_in.T.dot(v.reshape(-1)), (Wd @ v @ W).reshape(-1)))
                            obs.append(Ob.eq(tag + " transform_out acts as rho -> W rho W^dagger",
                                             x.transform_out.T.dot(v.reshape(-1)), (W @ v @ Wd).reshape(-1)))
                fpt.set_mpo_tensor(0, inp.arr("M", (1, 1, 4)))
                fpt.close()
                for kind in ("file", "simple"):
                    imp, _ = _import(fn, kind)
                    obs += meta("re-import " + kind, imp)
                    if isinstance(imp, ptm.FileProcessTensor):
                        imp.close()
            finally:
                try:
                    fpt.close()
                except Exception:  # noqa
                    pass
                if not self.named and ws.exists(fn):
                    import os
                    (os.remove if ws.real else h5stub.OS.remove)(fn)
        return obs


class H4(Case):
    """name / description assigned to a file-backed process tensor AFTER construction (and to an
    in-memory one before export) are the ones a re-import returns"""
    functions = ("FileProcessTensor.name", "FileProcessTensor.description", "FileProcessTensor._create_file",
                 "FileProcessTensor._read_file", "import_process_tensor", "SimpleProcessTensor.export")
    stubs = h5stub.STUB_TEXT
    env = ENV
    real_env = {}
    ORDERS = {"name_then_description": ("name", "description"), "description_then_name": ("description", "name"),
              "description_only": ("description",), "name_only": ("name",), "twice": ("name", "description", "description", "name")}

    def __init__(self, order, initial=True):
        self.order, self.initial = order, initial
        self.id = "H4/meta_assigned_later_%s%s" % (order, "" if initial else "_unnamed_at_creation")
        self.bounds = {"assignments": list(self.ORDERS[order]), "named_at_creation": initial}

    def run(self, inp):
        d = 2
        obs = []
        with Workspace(inp) as ws:
            fn = ws.path("pt.hdf5")
            kw = {"name": "first name", "description": "first description"} if self.initial else {}
            fpt = ptm.FileProcessTensor(mode="write", filename=fn, hilbert_space_dimension=d, dt=0.1, **kw)
            mem = ptm.SimpleProcessTensor(hilbert_space_dimension=d, dt=0.1, **kw)
            M, c0, c1 = inp.arr("M", (1, 1, 4)), inp.arr("c0", (1,)), inp.arr("c1", (1,))
            for o in (fpt, mem):
                o.set_mpo_tensor(0, M)
                o.set_cap_tensor(0, c0)
                o.set_cap_tensor(1, c1)
            count = {"name": 0, "description": 0}
            for what in self.ORDERS[self.order]:
                count[what] += 1
                for o in (fpt, mem):
                    setattr(o, what, "%s no. %d" % (what, count[what]))
            obs.append(Ob.holds("file-backed object: name/description as assigned", fpt.name == mem.name and fpt.description == mem.description))
            fpt.close()
            for kind in ("file", "simple"):
                imp, _ = _import(fn, kind)
                work_around_known_initial_tensor_defect(mem, imp)
                obs += compare("file-backed, re-import " + kind, mem, imp, 1)
                if isinstance(imp, ptm.FileProcessTensor):
                    imp.close()
            fn2 = ws.path("exported.hdf5")
            mem.export(fn2)
            for kind in ("file", "simple"):
                imp, _ = _import(fn2, kind)
                work_around_known_initial_tensor_defect(mem, imp)
                obs += compare("exported, re-import " + kind, mem, imp, 1)
                if isinstance(imp, ptm.FileProcessTensor):
                    imp.close()
        return obs


class H5(Case):
    """compute_caps() on a file-backed process tensor (tensors written step by step, caps then computed from the
    MPO) == compute_caps() of the in-memory object with the same tensors == explicit index sum over the
    transformed tensors with the trace vector (cap_N = [1], cap_k[a] = sum_{b,i,j} Meff_k[a,b,i,j] cap_{k+1}[b] tr_i tr_j,
    tr = vec(1)/sqrt(d), so tr_i tr_j = 1/d on the identity entries)"""
    functions = ("FileProcessTensor.compute_caps", "SimpleProcessTensor.compute_caps", "FileProcessTensor.get_mpo_tensor",
                 "FileProcessTensor.set_mpo_tensor", "FileProcessTensor.set_cap_tensor", "FileProcessTensor.get_cap_tensor",
                 "BaseProcessTensor.__init__ (trace vectors)", "_set_data_and_shape", "_get_data_and_shape")
    stubs = h5stub.STUB_TEXT
    env = ENV
    real_env = {}

    def __init__(self, N, bond, rank, transforms, d=2):
        self.N, self.bond, self.rank, self.transforms, self.d = N, bond, rank, transforms, d
        self.id = "H5/compute_caps_N%d_b%d_r%d_%s" % (N, bond, rank, TR_NAMES[transforms])
        self.bounds = {"d": d, "N": N, "bond": bond, "rank": rank, "transforms": str(transforms)}
        self.timeout_s = 300

    def run(self, inp):
        d, N = self.d, self.N
        D = d * d
        with Workspace(inp) as ws:
            pt, Meff, _ = build_pt_x(inp, "e", d, N, self.bond, self.rank, self.transforms, dt=0.1)
            f = ptm.FileProcessTensor(mode="write", filename=ws.path("pt.hdf5"), hilbert_space_dimension=d, dt=0.1,
                                      transform_in=pt.transform_in, transform_out=pt.transform_out)
            obs = []
            try:
                for k in range(N):
                    f.set_mpo_tensor(k, pt._mpo_tensors[k])
                pt.compute_caps()
                f.compute_caps()
                from fractions import Fraction
                tr = np.identity(d).reshape(D)
                w = Fraction(1, d)
                exp = [None] * (N + 1)
                exp[N] = np.array([1.0], dtype=object)
                for k in reversed(range(N)):
                    M = Meff[k]
                    c = np.zeros((M.shape[0],), dtype=object)
                    for a in range(M.shape[0]):
                        acc = 0
                        for b in range(M.shape[1]):
                            for i in range(D):
                                for j in range(D):
                                    if tr[i] != 0 and tr[j] != 0:
                                        acc = acc + M[a, b, i, j] * exp[k + 1][b]
                        c[a] = acc * w
                    exp[k] = c
                for k in range(N + 1):
                    ok, cf = _get(obs, "file-backed get_cap_tensor(%d)" % k, lambda: f.get_cap_tensor(k))
                    cs = pt.get_cap_tensor(k)
                    obs.append(Ob.eq("in-memory compute_caps cap %d == explicit index sum" % k, cs, exp[k]))
                    if ok:
                        obs.append(Ob.eq("file-backed compute_caps cap %d == explicit index sum" % k, cf, exp[k]))
            finally:
                f.close()
        return concretise_frac(inp, obs)


class H6(Case):
    """pt_tempo_compute() is the documented shortcut for PtTempo(...).compute(); get_process_tensor(): every argument
    (bath, times, parameters, unique, process_tensor_file, overwrite, backend_config, name, description) must reach
    PtTempo unchanged -- for BOTH values of the symbolic flags `overwrite` and `unique` and all symbolic times.
    The recorder binds the call to the REAL PtTempo.__init__ signature, so positional and keyword calls are equivalent."""
    functions = ("oqupy/pt_tempo.py:pt_tempo_compute",)
    stubs = ("oqupy.pt_tempo.PtTempo -> recorder bound to the real constructor's signature (compute / get_process_tensor record their calls)",)
    env = {}
    real_env = {}

    def __init__(self):
        self.id = "H6/pt_tempo_compute_forwards_arguments"
        import oqupy      # concrete bath / parameters (only passed through), built outside the symbolic environment
        self.bath = oqupy.Bath(0.5 * oqupy.operators.sigma("z"), oqupy.PowerLawSD(alpha=0.1, zeta=1.0, cutoff=1.0, cutoff_type="exponential"))
        self.params = oqupy.TempoParameters(dt=0.1, dkmax=2, epsrel=1e-4)
        self.bounds = {"flags": "overwrite, unique symbolic Booleans", "start": [-5, 5], "span": [1, 5]}

    def run(self, inp):
        import inspect
        import oqupy
        import oqupy.pt_tempo as ptt
        from vf.env import patched
        from vf import sym
        real_sig = inspect.signature(ptt.PtTempo.__init__)
        rec, calls = {}, []

        class Recorder:
            def __init__(self_, *a, **kw):
                b = real_sig.bind(self_, *a, **kw)
                b.apply_defaults()
                rec.update(b.arguments)

            def compute(self_, progress_type=None):
                calls.append(("compute", progress_type))

            def get_process_tensor(self_, *a, **kw):
                calls.append(("get_process_tensor",))
                return "the process tensor"
        ow, uq = inp.bool("overwrite"), inp.bool("unique")
        start = inp.real("start", lo=-5, hi=5)
        span = inp.real("span", lo=1, hi=5)
        bath, params = self.bath, self.params
        cfg = {"some": "config"}
        with patched({"oqupy.pt_tempo.PtTempo": Recorder}):
            out = ptt.pt_tempo_compute(bath, start, start + span, parameters=params, unique=uq, process_tensor_file="some file.hdf5",
                                       overwrite=ow, backend_config=cfg, progress_type="silent", name="a name", description="a description")

        def same_flag(got, want):
            if got is want:
                return True
            return sym.SB(sym.tob(got) == sym.tob(want))
        obs = [Ob.holds("overwrite reaches PtTempo unchanged", same_flag(rec.get("overwrite"), ow), key="overwrite"),
               Ob.holds("unique reaches PtTempo unchanged", same_flag(rec.get("unique"), uq), key="unique"),
               Ob.holds("bath, parameters, file name, backend_config, name, description reach PtTempo unchanged",
                        rec.get("bath") is bath and rec.get("parameters") is params and rec.get("process_tensor_file") == "some file.hdf5"
                        and rec.get("backend_config") is cfg and rec.get("name") == "a name" and rec.get("description") == "a description", key="others"),
               Ob.eq("start_time reaches PtTempo unchanged", rec.get("start_time"), start, key="times"),
               Ob.eq("end_time reaches PtTempo unchanged", rec.get("end_time"), start + span, key="times"),
               Ob.holds("compute(progress_type) then get_process_tensor(); its result is returned",
                        calls == [("compute", "silent"), ("get_process_tensor",)] and out == "the process tensor", key="calls")]
        return obs


def pt_tempo(infl, N, K, d, pt):
    """real PtTempoBackend.initialize / compute_step / update_process_tensor -> the backend"""
    from oqupy.backends.pt_tempo_backend import PtTempoBackend
    D = d * d
    pb = PtTempoBackend(d, infl, pt, np.ones(D), np.ones(D), N, (K if K is not None else N), lib.EPS_REAL, {})
    pb.initialize()
    while pb.compute_step():
        pass
    pb.update_process_tensor()
    return pb


def cases(tier):
    cs = []
    # quick: every factor (type, N, bond, rank, transforms, dt, overwrite, names) appears; pairs mixed
    cs += [H1("file", 1, 1, 4, False, "c"), H1("simple", 1, 1, 3, True, "none"),
           H1("file", 2, 2, 3, True, "c", oracle=True), H1("simple", 2, 2, 4, True, "c", oracle=True),
           H1("file", 2, 2, 4, "full", "none", named=False), H1("simple", 2, 2, 3, "full", "c", overwrite=True),
           H1("file", 3, 2, 4, False, "sym"), H1("simple", 3, 2, 3, True, "sym", named=False),
           H1("file", 3, 2, 3, False, "c", overwrite=True), H1("simple", 3, 2, 4, False, "none")]
    # exactly one of the two transforms (sparse and full), export and direct file creation
    cs += [H1("file", 2, 2, 4, "in", "c", oracle=True), H1("simple", 2, 2, 3, "out", "c", oracle=True),
           H1("simple", 1, 1, 4, "in_full", "none", direct=True), H1("file", 2, 2, 3, "out_full", "c", direct=True),
           H1("file", 1, 1, 3, "out", "c", direct=True, overwrite=True), H1("simple", 2, 2, 4, "in", "sym", direct=True),
           H1("file", 2, 2, 4, "out_full", "none", named=False), H1("simple", 2, 2, 3, "in_full", "c")]
    cs += [H1Init("none_simple"), H1Init("value_simple"), H1Init("value_set")]
    cs += [H2(2, None), H2(3, 1), H2(2, None, "real", named_file=False), H2(2, None, via_init="cunit")]
    cs += [H3("su2"), H3("gen", overwrite=True), H3("identity", named=False), H3("sy")]
    cs += [H4("name_then_description"), H4("description_then_name"), H4("description_only", initial=False)]
    cs += [H6()]
    # rank-3 tensors WITH transforms are not demanded (which trace weights are meant is not fixed by the property, see C03/H6)
    cs += [H5(1, 1, 4, "full"), H5(1, 1, 4, "in_full"), H5(3, 2, 3, False), H5(2, 2, 4, "out"), H5(2, 2, 4, True)]
    if tier == "thorough":
        cs += [H5(N, 2 if N > 1 else 1, rank, tr) for N in (1, 2, 3) for rank in (3, 4)
               for tr in (False, True, "full", "in", "out", "in_full", "out_full")
               if not (tr == "full" and N > 1)       # two full symbolic transforms with N >= 2: solver unknown at 300 s (probed), outside the bound
               and not (N == 3 and rank == 4 and tr) and not (rank == 3 and tr)]  # N = 3, rank 4 with any symbolic transform: not decided within 150 s (probed), outside the bound
        cs = [c for i, c in enumerate(cs) if not any(c.id == x.id for x in cs[:i])]
        for kind in ("file", "simple"):
            for N in (1, 2, 3):
                for rank in (3, 4):
                    for tr in (False, True, "full"):
                        for dt in ("none", "c", "sym"):
                            bond = 2 if N > 1 else 1
                            c = H1(kind, N, bond, rank, tr, dt, overwrite=(N == 2 and rank == 3), named=(dt != "none"),
                                   oracle=(tr is not True and N <= 2) or (tr is True and N == 2))
                            if not any(c.id == x.id for x in cs):
                                cs.append(c)
        cs += [H1("file", 3, 1, 4, True, "c"), H1("simple", 3, 1, 3, False, "c")]
        for kind in ("file", "simple"):
            for tr in ("in", "out", "in_full", "out_full"):
                for direct in (False, True):
                    for rank in (3, 4):
                        c = H1(kind, 2 if rank == 4 else 3, 2, rank, tr, "c" if direct else "none", direct=direct, oracle=(rank == 4))
                        if not any(c.id == x.id for x in cs):
                            cs.append(c)
        cs += [H1("file", 2, 2, 4, True, "c", direct=True), H1("simple", 3, 2, 3, "full", "none", direct=True), H1("file", 1, 1, 3, False, "sym", direct=True)]
        cs += [H2(3, 1, via_init="sy"), H2(3, None, via_init="cunit", named_file=False), H3("su2", named=False), H3("cunit", overwrite=True),
               H4("name_only"), H4("twice"), H4("description_only"), H4("name_then_description", initial=False)]
        cs += [H2(3, None), H2(3, 2, "real"), H2(2, 1, "complex"), H2(3, None, "complex", named_file=False), H2(4, 2)]
    return cs


def main(tier, seed, args):
    v = h5stub.validation_result()
    return core.run_property("C16", "checks.c16", tier, seed, jobs=args.jobs, only=args.only, extra_results=[v])
