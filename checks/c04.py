"""C04 -- every reported state is a physical density matrix (trace, Hermiticity,
Lindblad generator structure, Gibbs normalisation).  Positivity: not applicable."""
import numpy as np

import oqupy
import oqupy.system as sysm
import oqupy.system_dynamics as sd
from oqupy.backends.tempo_backend import MeanFieldTempoBackend

from vf.core import Case, Ob
from vf import lib
from vf import physical as ph

ASSUMPTIONS = [
    "exact arithmetic, SVD without truncation: 'up to the truncation tolerance' and positive semidefiniteness are outside the claim",
    "influence matrices have the trace structure / Hermiticity symmetry proved for the real influence_matrix in C01/H2(c,d)",
    "expm of a trace-annihilating, Hermiticity-preserving generator preserves trace and Hermiticity (mathematical glue, not checked)",
]
STUBS = ("tensornetwork numpy backend svd -> exact non-truncating factorisation",
         "System.get_propagators -> symbolic trace-preserving half-step propagators")


def trace(rho_mat):
    d = rho_mat.shape[0]
    t = rho_mat[0, 0]
    for i in range(1, d):
        t = t + rho_mat[i, i]
    return t


class H1(Case):
    """trace(rho_n) == trace(rho_0) at every step"""
    stubs = STUBS
    env = {"noconj": True}
    functions = ("TempoBackend.*", "PtTempoBackend.*", "SimpleProcessTensor.compute_caps", "system_dynamics.compute_dynamics",
                 "MeanFieldTempoBackend.*")

    def __init__(self, method, N, K, tau=False, d=2):
        self.method, self.N, self.K, self.tau, self.d = method, N, K, tau, d
        self.id = "H1/%s_N%d_K%s%s%s" % (method, N, K, "_tau" if tau else "", "" if d == 2 else "_d%d" % d)
        self.bounds = {"method": method, "d": d, "N": N, "dkmax": K, "add_correlation_time": tau}
        self.timeout_s = 300

    def run(self, inp):
        d, N, K = self.d, self.N, self.K
        D = d * d
        infl = lib.Influences(inp, d, K, tau_add=self.tau)
        P1 = [lib.tp_prop(inp, "p%d" % k, d) for k in range(N)]
        P2 = [lib.tp_prop(inp, "q%d" % k, d) for k in range(N)]
        rho0 = inp.arr("r", (D,))
        if self.method == "tempo":
            states = [s.reshape(d, d) for s in lib.run_tempo(inp, rho0, infl, P1, P2, N, K, d)]
        elif self.method == "pt":
            pt = lib.run_pt_tempo(inp, infl, N, K, d)
            states = lib.dynamics_states(sd.compute_dynamics(lib.FakeSystem(d, P1, P2), initial_state=rho0.reshape(d, d),
                                                             process_tensor=pt, progress_type="silent"))
        else:  # mean-field TEMPO back-end: field-dependent propagators = fresh trace-preserving symbols per step
            fields = [inp.cplx("a%d" % k) if False else inp.real("a%d" % k) for k in range(N + 1)]
            be = MeanFieldTempoBackend([rho0], fields[0], [infl], [np.identity(d)],
                                       [lambda step, field, deriv: (P1[step], P2[step])],
                                       lambda step, sl, f, nsl: fields[step + 1], lambda step, sl, f: f,
                                       [np.ones(D)], [np.ones(D)], K, lib.EPS_REAL, {}, degeneracy_maps_list=[None], dim_list=[d])
            be.initialize()
            states = [rho0.reshape(d, d)]
            for _ in range(N):
                _, sl, f = be.compute_step()
                states.append(sl[0].reshape(d, d))
        t0 = trace(rho0.reshape(d, d))
        return [Ob.eq("trace at step %d" % n, trace(states[n]), t0) for n in range(N + 1)]


def herm_state(inp, name, d):
    m = inp.arr(name, (d, d), cplx=True)
    for i in range(d):
        m[i, i] = m[i, i].real if inp.mode != "real" else m[i, i].real + 0j
        for j in range(i):
            m[i, j] = m[j, i].conjugate()
    return m


def bar(i, d):
    return (i % d) * d + i // d


def hp_matrix(inp, name, d, ones_cols=()):
    """Liouville matrix with M[bar i, bar j] = conj M[i, j] (Hermiticity preserving)"""
    D = d * d
    m = inp.arr(name, (D, D), cplx=True)
    for i in range(D):
        for j in range(D):
            bi, bj = bar(i, d), bar(j, d)
            if (bi, bj) < (i, j):
                m[i, j] = m[bi, bj].conjugate()
            elif (bi, bj) == (i, j):
                m[i, j] = m[i, j].real if inp.mode != "real" else m[i, j].real + 0j
    for j in ones_cols:
        for i in range(D):
            m[i, j] = inp.one() if inp.mode != "real" else 1.0 + 0j
    return m


class HermInfluences(lib.Influences):
    def __init__(self, inp, d, K, tau_add=False):
        super().__init__(inp, d, K, tau_add=tau_add, cplx=True)

    def _mat(self, nm):
        return hp_matrix(self.inp, nm, self.d, ones_cols=lib.diag_positions(self.d))

    def __call__(self, dk):
        if dk == 0 and 0 not in self.cache:
            d = self.d
            D = d * d
            v = self.inp.arr(self.name + "0", (D,), cplx=True)
            for i in range(D):
                if bar(i, d) < i:
                    v[i] = v[bar(i, d)].conjugate()
            for j in lib.diag_positions(d):
                v[j] = self.inp.one() if self.inp.mode != "real" else 1.0 + 0j
            self.cache[0] = np.diag(v) if self.inp.mode == "real" else lib._odiag(v)
        return super().__call__(dk)


class H2(Case):
    """Hermitian rho_0, Hermiticity-preserving propagators and influences => rho_n Hermitian"""
    stubs = STUBS
    functions = H1.functions

    def __init__(self, method, N, K):
        self.method, self.N, self.K = method, N, K
        self.id = "H2/herm_%s_N%d_K%s" % (method, N, K)
        self.bounds = {"method": method, "d": 2, "N": N, "dkmax": K}
        self.timeout_s = 600

    def run(self, inp):
        d, N, K = 2, self.N, self.K
        infl = HermInfluences(inp, d, K)
        P1 = [hp_matrix(inp, "p%d" % k, d) for k in range(N)]
        P2 = [hp_matrix(inp, "q%d" % k, d) for k in range(N)]
        rho0 = herm_state(inp, "r", d)
        if self.method == "tempo":
            states = [s.reshape(d, d) for s in lib.run_tempo(inp, rho0.reshape(d * d), infl, P1, P2, N, K, d)]
        else:
            pt = lib.run_pt_tempo(inp, infl, N, K, d)
            states = lib.dynamics_states(sd.compute_dynamics(lib.FakeSystem(d, P1, P2), initial_state=rho0,
                                                             process_tensor=pt, progress_type="silent"))
        obs = []
        for n in range(N + 1):
            s = states[n]
            sd_ = np.array([[_conj(s[j, i]) for j in range(d)] for i in range(d)], dtype=s.dtype)
            obs.append(Ob.eq("hermitian at step %d" % n, s, sd_))
        return obs


def _conj(x):
    return x.conjugate()


class H3(Case):
    """Lindblad generator: tr o L = 0 and L Hermiticity preserving"""
    functions = ("system._liouvillian", "System.liouvillian", "operators.commutator", "operators.acommutator",
                 "operators.left_right_super")

    def __init__(self, d, ndiss):
        self.d, self.ndiss = d, ndiss
        self.id = "H3/lindblad_d%d_k%d" % (d, ndiss)
        self.bounds = {"d": d, "dissipators": ndiss}
        self.timeout_s = 300

    def run(self, inp):
        d = self.d
        D = d * d
        H = herm_state(inp, "H", d)
        gammas = [inp.real("g%d" % k, lo=0) for k in range(self.ndiss)]
        As = [inp.arr("A%d" % k, (d, d), cplx=True) for k in range(self.ndiss)]
        system = oqupy.System(np.zeros((d, d)))
        system._hamiltonian = H
        system._gammas = gammas
        system._lindblad_operators = As
        L = system.liouvillian()
        obs = []
        dp = lib.diag_positions(d)
        colsum = [sum((L[i, j] for i in dp[1:]), L[dp[0], j]) for j in range(D)]
        obs.append(Ob.eq("trace annihilated", np.array(colsum, dtype=L.dtype), np.zeros(D, dtype=L.dtype) if inp.mode == "real" else inp.const(np.zeros(D))))
        Lb = np.array([[_conj(L[bar(i, d), bar(j, d)]) for j in range(D)] for i in range(D)], dtype=L.dtype)
        obs.append(Ob.eq("hermiticity preserving", L, Lb))
        # explicit formula of the documented generator on a symbolic rho
        rho = inp.arr("r", (d, d), cplx=True)
        Hm = H
        exp = (Hm @ rho - rho @ Hm) * (-1j if inp.mode == "real" else _mi())
        for g, A in zip(gammas, As):
            Ad = np.array([[_conj(A[j, i]) for j in range(d)] for i in range(d)], dtype=A.dtype)
            exp = exp + g * (A @ rho @ Ad - (Ad @ A @ rho + rho @ Ad @ A) * (0.5 if inp.mode == "real" else _half()))
        obs.append(Ob.eq("documented generator", L.dot(rho.reshape(D)), exp.reshape(D)))
        return obs


def _mi():
    from vf.sym import S
    return S(0, -1)


def _half():
    from vf.sym import S
    from fractions import Fraction
    return S(Fraction(1, 2))


def two_site_vec(rho, dl, dr):
    """rho[(al ar),(bl br)] -> v[((al bl),(ar br))]: the ordering of kron(site_l Liouville, site_r Liouville)"""
    out = np.empty(dl * dl * dr * dr, dtype=rho.dtype)
    for al in range(dl):
        for bl in range(dl):
            for ar in range(dr):
                for br in range(dr):
                    out[(al * dl + bl) * dr * dr + ar * dr + br] = rho[al * dr + ar, bl * dr + br]
    return out


def _dag(A):
    return np.array([[_conj(A[j, i]) for j in range(A.shape[0])] for i in range(A.shape[1])], dtype=A.dtype)


class H3c(Case):
    """SystemChain: the site and nearest-neighbour Liouvillians equal the documented generators
    (hence annihilate the trace and preserve Hermiticity); get_nn_full_liouvillians splits the
    site terms with the documented weights"""
    functions = ("SystemChain.add_site_hamiltonian", "SystemChain.add_site_dissipation", "SystemChain.add_nn_hamiltonian",
                 "SystemChain.add_nn_dissipation", "SystemChain.get_nn_full_liouvillians", "operators.cross_*")

    def __init__(self, term, dims=None):
        self.term, self.dims = term, dims
        self.id = "H3c/chain_%s%s" % (term, "" if dims is None else "_d%d%d" % dims)
        self.bounds = {"d": 2 if dims is None else list(dims), "sites": 2 if term != "full3" else 3, "term": term}
        self.timeout_s = 300

    def run(self, inp):
        d = 2
        if self.dims is not None:
            return self.run_mixed(inp)
        I1 = 1j if inp.mode == "real" else _i()
        half = 0.5 if inp.mode == "real" else _half()
        if self.term == "full2":
            ch = oqupy.SystemChain([d, d])
            Ls = [inp.arr("L%d" % k, (d * d, d * d)) for k in range(2)]
            N0 = inp.arr("N0", (d ** 4, d ** 4))
            for k in range(2):
                ch.add_site_liouvillian(k, Ls[k])
            ch.add_nn_liouvillian(0, N0)
            full = ch.get_nn_full_liouvillians()
            idm = np.identity(d * d)
            return [Ob.holds("one bond", len(full) == 1),
                    Ob.eq("single bond carries both site terms with weight 1", full[0], np.kron(Ls[0], idm) + np.kron(idm, Ls[1]) + N0)]
        if self.term == "full3":
            ch = oqupy.SystemChain([d, d, d])
            Ls = [inp.arr("L%d" % k, (d * d, d * d)) for k in range(3)]
            Ns = [inp.arr("N%d" % k, (d ** 4, d ** 4)) for k in range(2)]
            for k in range(3):
                ch.add_site_liouvillian(k, Ls[k])
            for k in range(2):
                ch.add_nn_liouvillian(k, Ns[k])
            full = ch.get_nn_full_liouvillians()
            idm = np.identity(d * d)
            exp0 = np.kron(Ls[0], idm) + np.kron(idm, Ls[1]) * half + Ns[0]
            exp1 = np.kron(Ls[1], idm) * half + np.kron(idm, Ls[2]) + Ns[1]
            return [Ob.holds("two bonds", len(full) == 2), Ob.eq("bond 0: site terms weighted 1 / 0.5", full[0], exp0),
                    Ob.eq("bond 1: site terms weighted 0.5 / 1", full[1], exp1)]
        ch = oqupy.SystemChain([d, d])
        obs = []
        if self.term == "site":
            H = herm_state(inp, "H", d)
            A = inp.arr("A", (d, d), cplx=True)
            g = inp.real("g", lo=0)
            ch.add_site_hamiltonian(1, H)
            ch.add_site_dissipation(1, A, g)
            rho = inp.arr("r", (d, d), cplx=True)
            Ad = _dag(A)
            exp = (H @ rho - rho @ H) * (-I1) + g * (A @ rho @ Ad - (Ad @ A @ rho + rho @ Ad @ A) * half)
            obs.append(Ob.eq("site generator", ch.site_liouvillians[1].dot(rho.reshape(d * d)), exp.reshape(d * d)))
            obs.append(Ob.eq("other site untouched", ch.site_liouvillians[0], np.zeros((d * d, d * d)) if inp.mode == "real" else inp.const(np.zeros((d * d, d * d)))))
            return obs
        rho = inp.arr("r", (d * d, d * d), cplx=True)
        if self.term == "nn_ham":
            Hl = herm_state(inp, "Hl", d)
            Hr = herm_state(inp, "Hr", d)
            ch.add_nn_hamiltonian(0, Hl, Hr)
            Hh = np.kron(Hl, Hr)
            exp = (Hh @ rho - rho @ Hh) * (-I1)
        else:
            Al = inp.arr("Al", (d, d), cplx=True)
            Ar = inp.arr("Ar", (d, d), cplx=True)
            g = inp.real("g", lo=0)
            ch.add_nn_dissipation(0, Al, Ar, g)
            A = np.kron(Al, Ar)
            Ad = _dag(A)
            exp = g * (A @ rho @ Ad - (Ad @ A @ rho + rho @ Ad @ A) * half)
        got = ch.nn_liouvillians[0].dot(two_site_vec(rho, d, d))
        obs.append(Ob.eq("two-site generator", got, two_site_vec(exp, d, d)))
        return obs


def _i():
    from vf.sym import S
    return S(0, 1)


def _run_mixed(self, inp):
    """two neighbouring sites of DIFFERENT dimensions (dl, dr): the nearest-neighbour generators must still be the
    documented ones in the kron(site_l, site_r) Liouville layout"""
    dl, dr = self.dims
    I1 = 1j if inp.mode == "real" else _i()
    half = 0.5 if inp.mode == "real" else _half()
    ch = oqupy.SystemChain([dl, dr])
    rho = inp.arr("r", (dl * dr, dl * dr), cplx=True)
    if self.term == "nn_ham":
        Hl, Hr = herm_state(inp, "Hl", dl), herm_state(inp, "Hr", dr)
        ch.add_nn_hamiltonian(0, Hl, Hr)
        Hh = np.kron(Hl, Hr)
        exp = (Hh @ rho - rho @ Hh) * (-I1)
    else:
        Al, Ar = inp.arr("Al", (dl, dl), cplx=True), inp.arr("Ar", (dr, dr), cplx=True)
        g = inp.real("g", lo=0)
        ch.add_nn_dissipation(0, Al, Ar, g)
        A = np.kron(Al, Ar)
        Ad = _dag(A)
        exp = g * (A @ rho @ Ad - (Ad @ A @ rho + rho @ Ad @ A) * half)
    got = ch.nn_liouvillians[0].dot(two_site_vec(rho, dl, dr))
    return [Ob.eq("two-site generator", got, two_site_vec(exp, dl, dr))]


H3c.run_mixed = _run_mixed


class H5(Case):
    """GibbsTempo.get_state(): unit trace whenever the trace of the last stored state is non-zero"""
    functions = ("GibbsTempo.get_state",)

    def __init__(self, d=2):
        self.d = d
        self.id = "H5/gibbs_norm_d%d" % d
        self.bounds = {"d": d}

    def run(self, inp):
        from oqupy.dynamics import Dynamics
        d = self.d
        g = oqupy.GibbsTempo.__new__(oqupy.GibbsTempo)
        st = inp.arr("s", (d, d), cplx=True)
        tr = trace(st)
        if inp.mode == "sym":
            inp.assume((tr.real != 0) | (tr.imag != 0))
        else:
            inp.assume(abs(complex(tr)) > 1e-3)
        dyn = Dynamics.__new__(Dynamics)
        dyn._states = [st]
        dyn._times = [0.0]
        dyn._shape = (d, d)
        g._dynamics = dyn
        out = g.get_state()
        # out * tr == st  (division encoded multiplicatively) and trace(out) * tr == tr
        return [Ob.eq("state*trace", out * tr, st), Ob.eq("unit trace", trace(out) * tr, tr)]


def cases(tier):
    cs = [H1("tempo", 3, 1), H1("tempo", 3, None), H1("tempo", 2, 3, True), H1("tempo", 4, 2, True),
          H1("pt", 3, 1, True), H1("pt", 3, None), H1("pt", 2, 2), H1("pt", 4, 2),
          H1("mf", 3, 1), H1("mf", 3, None), H1("mf", 4, 2, True),
          H2("tempo", 2, 1), H2("pt", 2, 1), H2("tempo", 2, None),
          H3(2, 1), H3(2, 2), H3(3, 1), H3c("site"), H3c("nn_ham"), H3c("nn_diss"), H3c("full3"), H3c("full2"), H3c("nn_diss", (2, 3)), H3c("nn_ham", (3, 2)), H5(2), H5(3)]
    if tier == "thorough":
        cs += [H1("tempo", 5, 2, True), H1("pt", 5, 2, True), H1("mf", 5, 3), H1("tempo", 2, 1, d=3), H1("pt", 2, 1, d=3),
               H2("tempo", 3, 1), H2("pt", 3, 1), H2("pt", 3, None), H3(3, 2), H1("mf", 4, 1, True), H1("tempo", 4, None),
               H1("pt", 4, 1, True), H1("tempo", 2, None, d=3), H1("mf", 2, 1, d=3), H2("tempo", 2, 2), H2("pt", 2, None)]
    return cs
