"""C15 -- covariance under translation of the time origin.

Every place where a time is handed to user code or reported is run twice on symbolic inputs,
    run A: (start,       H(t),       control/correlation times t_c)
    run B: (start + tau, H(t - tau), t_c + tau)
with symbolic start, tau, dt.  User callables, scipy's expm and quad_vec are opaque functions
(only congruence is assumed), so the two runs agree iff the real code hands the SAME shifted-back
arguments to them in the same order; reported times must differ by exactly tau.

E1 (exact reals, ties of round-to-nearest-step excluded):
  H1/TimeDependentSystem/{sample,integrate}             get_propagators closures, both subdiv_limit branches
  H1/TimeDependentSystemWithField/{sample,integrate}    same with (field, field_derivative)
  H1/compute_dynamics                                   real TimeDependentSystem + float-time controls, N steps
  H1/compute_dynamics_with_field                        real TimeDependentSystemWithField + field equation of motion
  H1/compute_dynamics_with_field/controls               the same with float-time pre/post controls (prepare_controls -> Control.get_controls)
  H1/compute_dynamics_with_field/control_selection      cheap variant (scalar propagators): which control is applied at which step
  H1/MeanFieldTempo.field                               _time, _compute_field, _compute_field_derivative
  H1/_estimate_dt_from_system/<system>                  sampling grid of guess_tempo_parameters / tempo_compute(parameters=None)
  H1/Tempo.compute, H1/MeanFieldTempo.compute           start_time handed to System.get_propagators, labels
  H1/PtTebd                                             PtTebd.time / results['time']
  H1/compute_correlations(_nt)                         the REAL correlation functions, real TimeDependentSystem, float correlation time
  H1/Control.get_controls                               float control times -> steps (concrete exact dt 1/4, 1/10)
  H1/_parse_times/{float,interval}                      float correlation times / intervals -> steps
E2 (fpx twin encoding, error model for 'holds'):
  H1f/_parse_times                                      float rounding of int(np.round((t-start)/dt)) for shifted vs unshifted doubles
"""
import multiprocessing as mp
import os
import sys
import time
from fractions import Fraction

import numpy as np
import z3

import oqupy
import oqupy.system as system_mod
import oqupy.system_dynamics as sd
import oqupy.tempo as tempo_mod
import oqupy.pt_tebd as pt_tebd_mod
from oqupy.control import Control
from oqupy.tempo import Tempo, MeanFieldTempo, TempoParameters
from oqupy.pt_tebd import PtTebd

from vf import core, fpx, sym, lib
from vf import env as venv
from vf.core import Case, Ob
from vf.fpx import FCase, FOb, FInputs
from vf.sym import S, SI
from vf import tsym
from vf.tsym import st, Opaque, exact_floats, congruence_axioms, guard_library_exceptions

from checks import c13 as _c13

PROP = "C15"

ASSUMPTIONS = [
    "exact real arithmetic for times in the E1 harnesses; the property is read 'up to rounding' (bit-equality of shifted floats is outside the claim)",
    "rounding to the nearest step: ties excluded (|frac - 1/2| > 0 in the real model, > 1e-6 in the float harness)",
    "user callables, scipy.linalg.expm and scipy.integrate.quad_vec are opaque functions: only 'same arguments -> same value' is assumed; "
    "quad_vec is modelled as a fixed 2-node quadrature rule (nodes a+(b-a)/4, a+3(b-a)/4), i.e. by the contract that a quadrature samples "
    "the integrand at affine images of fixed nodes",
    "dt > 0",
    "E1 harnesses: |start_time|, |tau| <= 4 and float control/correlation times within [-8, 8] (bounded step indices); cases that round a float "
    "time to a step use a concrete exact dt (1/4, 1/10)",
]

MODS = ("oqupy.system", "oqupy.system_dynamics", "oqupy.control", "oqupy.tempo", "oqupy.util", "oqupy.dynamics", "oqupy.pt_tebd")
SX = np.array([[0, 1], [1, 0]], dtype=complex)
SZ = np.array([[1, 0], [0, -1]], dtype=complex)
SM = np.array([[0, 0], [1, 0]], dtype=complex)

_scale = _c13._scale


def _to_complex(a):
    return core._as_complex(np.asarray(a, dtype=object)) if isinstance(a, np.ndarray) and a.dtype == object else np.asarray(a, dtype=complex)


def _expm_concrete(m):
    from scipy.linalg import expm
    out = expm(_to_complex(m))
    return sym.lift(out) if isinstance(m, np.ndarray) and m.dtype == object else out


class _QuadStub:
    """scipy.integrate stand-in: fixed 2-node rule"""

    @staticmethod
    def quad_vec(f, a, b, epsrel=None, limit=None, **kw):
        w = b - a
        return (f(a + w / 4.0) + f(a + w * 3.0 / 4.0)) * (w / 2.0), 0.0


def _env():
    extra = fpx.shadows(*MODS)
    for m in MODS:
        extra.update(venv.shadow_builtins(m, names=("complex",)))
    extra["oqupy.system.expm"] = Opaque("expm", _expm_concrete, shape=(4, 4), cplx=True)
    extra["oqupy.system.integrate"] = _QuadStub
    extra["oqupy.control.print"] = lambda *a, **k: None
    return {"extra": extra}


class _Base(Case):
    stubs = ("scipy.linalg.expm -> opaque function (atoms per distinct argument)",
             "scipy.integrate.quad_vec -> fixed 2-node quadrature rule",
             "user Hamiltonian / rates / Lindblad operators / field equation of motion -> opaque functions of their time argument")
    assumptions = ("dt > 0", "ties excluded where a float time is rounded to a step")
    real_env = {"oqupy.control.print": lambda *a, **k: None}
    timeout_s = 120
    tol = 1e-7

    @property
    def env(self):
        return _env()          # fresh opaque tables per execution

    dt = None      # cases that round float times to steps use a CONCRETE exact dt (Fraction): all their queries are linear

    TMAX = 4       # |start_time|, |tau| <= TMAX, float control / correlation times within [-2*TMAX, 2*TMAX]: keeps the rounded
                   # step indices bounded (z3's mixed integer/real arithmetic diverges on the unbounded version)

    def tpoint(self, inp, name):
        return st(inp.real(name, lo=-2 * self.TMAX, hi=2 * self.TMAX))

    def times(self, inp):
        start = st(inp.real("start", lo=-self.TMAX, hi=self.TMAX))
        tau = st(inp.real("tau", lo=-self.TMAX, hi=self.TMAX))
        if self.dt is not None:
            dt = float(self.dt) if inp.mode == "real" else st(S(Fraction(self.dt)))
        else:
            dt = st(inp.real("dt", lo=Fraction(1, 8), hi=2))
        return start, tau, dt


class _User:
    """the user's time-dependent model: H(t) = h(t) sz + g(t) sx, rate gam(t), Lindblad operator l(t) s-"""

    def __init__(self, inp):
        self.h = Opaque("h", lambda t: 0.3 + 0.5 * t + 0.25 * t * t)
        self.g = Opaque("g", lambda t: 0.7 - 0.125 * t * t)
        self.gam = Opaque("gam", lambda t: 0.2 + 0.0625 * t * t)
        self.l = Opaque("l", lambda t: 1.0 + 0.25 * t)
        self.sx, self.sz, self.sm = inp.const(SX), inp.const(SZ), inp.const(SM)

    def all(self):
        return [self.h, self.g, self.gam, self.l] + list(getattr(self, "extra", ()))

    def take(self):
        """time arguments the user callables received since the last take()"""
        out = {}
        for f in (self.h, self.g, self.gam, self.l) + tuple(getattr(self, "extra", ())):
            out[f.name] = [a[0] for a in f.calls]
            f.calls = []
        return out

    def system(self, shift):
        def H(t):
            t = t - shift
            return _scale(self.sz, self.h(t)) + _scale(self.sx, self.g(t))
        return oqupy.TimeDependentSystem(H, gammas=[lambda t: self.gam(t - shift)],
                                         lindblad_operators=[lambda t: _scale(self.sm, self.l(t - shift))])

    def field_system(self, shift):
        def H(t, a):
            t = t - shift
            return _scale(self.sz, self.h(t)) + _scale(self.sx, self.g(t) * a)
        return oqupy.TimeDependentSystemWithField(H, gammas=[lambda t: self.gam(t - shift)],
                                                  lindblad_operators=[lambda t: _scale(self.sm, self.l(t - shift))])


def _assume_congruence(inp, *ops):
    """opaque functions are functions: equal arguments -> equal values (side condition of every query)"""
    if not inp.symbolic:
        return
    ops = list(ops)
    if isinstance(system_mod.expm, Opaque):
        ops.append(system_mod.expm)
    for op in ops:
        for ax in congruence_axioms(op):
            inp.assume(ax)


def _trace_obs(ta, tb):
    """cheap (linear) obligations first: every user callable is called equally often and receives the same
    shifted-back time argument in both runs"""
    obs = []
    for name in ta:
        a, b = ta[name], tb[name]
        obs.append(Ob.holds("%s: same number of calls in both runs" % name, len(a) == len(b), key="trace"))
        for i in range(min(len(a), len(b))):
            obs.append(Ob.eq("%s call %d: same time argument after shifting back" % (name, i), b[i], a[i], key="trace"))
    return obs


class _RecControl(Control):
    """the real Control; get_controls additionally logs what it returned"""

    def get_controls(self, step, dt=None, start_time=0.0):
        out = super().get_controls(step, dt=dt, start_time=start_time)
        self.__dict__.setdefault("log", []).append((step,) + tuple(out))
        return out


def _zero(inp):
    return 0.0 if inp.mode == "real" else st(S(0))


# --------------------------------------------------------------------------
class Propagators(_Base):
    functions = ("oqupy/system.py:TimeDependentSystem.get_propagators", "TimeDependentSystem.liouvillian", "oqupy/system.py:_liouvillian")
    N = 3

    def __init__(self, branch):
        self.branch = branch
        self.id = "H1/TimeDependentSystem/%s" % branch
        self.bounds = {"steps": self.N, "d": 2, "subdiv_limit": None if branch == "sample" else 64}

    @guard_library_exceptions
    def run(self, inp):
        start, tau, dt = self.times(inp)
        u = _User(inp)
        lim = None if self.branch == "sample" else 64
        with exact_floats():
            pa = u.system(_zero(inp)).get_propagators(dt, start, lim, 1e-8)
            pb = u.system(tau).get_propagators(dt, start + tau, lim, 1e-8)
            u.take()
            ra = [pa(k) for k in range(self.N)]
            ta = u.take()
            rb = [pb(k) for k in range(self.N)]
            obs = _trace_obs(ta, u.take())
            for k in range(self.N):
                a1, a2 = ra[k]
                b1, b2 = rb[k]
                obs += [Ob.eq("step %d first half propagator" % k, b1, a1, key="propagator"),
                        Ob.eq("step %d second half propagator" % k, b2, a2, key="propagator")]
        _assume_congruence(inp, *u.all())
        return obs


class FieldPropagators(_Base):
    functions = ("oqupy/system.py:TimeDependentSystemWithField.get_propagators", "TimeDependentSystemWithField.liouvillian",
                 "TimeDependentSystemWithField._linearised_field")
    N = 2

    def __init__(self, branch):
        self.branch = branch
        self.id = "H1/TimeDependentSystemWithField/%s" % branch
        self.bounds = {"steps": self.N, "d": 2, "subdiv_limit": None if branch == "sample" else 64}

    @guard_library_exceptions
    def run(self, inp):
        start, tau, dt = self.times(inp)
        u = _User(inp)
        lim = None if self.branch == "sample" else 64
        with exact_floats():
            pa = u.field_system(_zero(inp)).get_propagators(dt, start, lim, 1e-8)
            pb = u.field_system(tau).get_propagators(dt, start + tau, lim, 1e-8)
            u.take()
            fld = [(inp.cplx("a%d" % k), inp.cplx("da%d" % k)) for k in range(self.N)]
            ra = [pa(k, *fld[k]) for k in range(self.N)]
            ta = u.take()
            rb = [pb(k, *fld[k]) for k in range(self.N)]
            obs = _trace_obs(ta, u.take())
            for k in range(self.N):
                a1, a2 = ra[k]
                b1, b2 = rb[k]
                obs += [Ob.eq("step %d first half propagator" % k, b1, a1, key="propagator"),
                        Ob.eq("step %d second half propagator" % k, b2, a2, key="propagator")]
        _assume_congruence(inp, *u.all())
        return obs


class ComputeDynamics(_Base):
    """real compute_dynamics + real TimeDependentSystem + float-time controls"""
    functions = ("oqupy/system_dynamics.py:compute_dynamics", "oqupy/control.py:Control.get_controls", "Control.add_single",
                 "oqupy/system.py:TimeDependentSystem.get_propagators")
    N = 2
    max_paths = 400

    def __init__(self, dt=Fraction(1, 4)):
        self.dt = Fraction(dt)
        self.id = "H1/compute_dynamics" + ("" if self.dt == Fraction(1, 4) else "/dt=%s" % self.dt)
        self.bounds = {"steps": self.N, "d": 2, "float-time controls": 2, "dt": str(self.dt)}

    @guard_library_exceptions
    def run(self, inp):
        start, tau, dt = self.times(inp)
        u = _User(inp)
        tc1 = self.tpoint(inp, "tc1")
        tc2 = self.tpoint(inp, "tc2")
        C1 = inp.arr("C1", (4, 4))
        C2 = inp.arr("C2", (4, 4))
        rho0 = inp.arr("r", (2, 2))
        out, traces, logs = [], [], []
        with exact_floats():
            for shift in (_zero(inp), tau):
                ctrl = _RecControl(2)
                ctrl.add_single(tc1 + shift, C1, post=False)
                ctrl.add_single(tc2 + shift, C2, post=True)
                system = u.system(shift)
                u.take()
                dyn = sd.compute_dynamics(system, initial_state=rho0, dt=dt, num_steps=self.N, start_time=start + shift,
                                          control=ctrl, subdiv_limit=None, progress_type="silent")
                traces.append(u.take())
                logs.append(ctrl.log)
                out.append((list(dyn._times), list(dyn._states)))
        (ta, sa), (tb, sb) = out
        obs = _trace_obs(*traces)
        obs.append(Ob.holds("controls queried for the same steps", [l[0] for l in logs[0]] == [l[0] for l in logs[1]], key="trace"))
        for la, lb in zip(*logs):
            for nm, x, y in (("pre", la[1], lb[1]), ("post", la[2], lb[2])):
                obs.append(Ob.holds("step %d: %s control applied in both runs or in neither" % (la[0], nm), (x is None) == (y is None), key="controls"))
                if x is not None and y is not None:
                    obs.append(Ob.eq("step %d: same %s control" % (la[0], nm), y, x, key="controls"))
        obs.append(Ob.holds("same number of states", len(ta) == len(tb) == self.N + 1, key="len"))
        for k in range(min(len(ta), len(tb))):
            obs.append(Ob.eq("times[%d] shifted by exactly tau" % k, tb[k], ta[k] + tau, key="times"))
            obs.append(Ob.eq("state %d unchanged" % k, sb[k], sa[k], key="states"))
        _assume_congruence(inp, *u.all())
        return obs


class ComputeDynamicsWithField(_Base):
    functions = ("oqupy/system_dynamics.py:compute_dynamics_with_field", "oqupy/system.py:TimeDependentSystemWithField.get_propagators",
                 "oqupy/dynamics.py:MeanFieldDynamics.add")
    N = 2

    def __init__(self):
        self.id = "H1/compute_dynamics_with_field"
        self.bounds = {"steps": self.N, "d": 2}

    @guard_library_exceptions
    def run(self, inp):
        start, tau, dt = self.times(inp)
        u = _User(inp)
        f = Opaque("eom", lambda t, r, a: (0.1 + 0.25 * t) * r - 0.5 * a + 0.125 * t * t, cplx=True)
        u.extra = (f,)
        rho0 = inp.arr("r", (2, 2))
        a0 = inp.cplx("a0")
        out, traces = [], []
        with exact_floats():
            for shift in (_zero(inp), tau):
                mfs = oqupy.MeanFieldSystem([u.field_system(shift)], field_eom=lambda t, states, a: 0.0 * a)
                mfs._field_eom = (lambda sh: (lambda t, states, a: f(t - sh, states[0][0, 1], a)))(shift)
                u.take()
                dyn = sd.compute_dynamics_with_field(mfs, initial_field=a0, dt=dt, num_steps=self.N, initial_state_list=[rho0],
                                                     start_time=start + shift, subdiv_limit=None, progress_type="silent")
                traces.append(u.take())
                out.append((list(dyn._times), list(dyn._fields), list(dyn._system_dynamics[0]._states)))
        (ta, fa, sa), (tb, fb, sb) = out
        obs = _trace_obs(*traces)
        obs.append(Ob.holds("same number of states", len(ta) == len(tb) == self.N + 1, key="len"))
        for k in range(min(len(ta), len(tb))):
            obs.append(Ob.eq("times[%d] shifted by exactly tau" % k, tb[k], ta[k] + tau, key="times"))
            obs.append(Ob.eq("field %d unchanged" % k, fb[k], fa[k], key="fields"))
            obs.append(Ob.eq("state %d unchanged" % k, sb[k], sa[k], key="states"))
        _assume_congruence(inp, *u.all())
        return obs


class ComputeDynamicsWithFieldControls(_Base):
    """real compute_dynamics_with_field + real TimeDependentSystemWithField + field equation + float-time pre/post controls"""
    functions = ("oqupy/system_dynamics.py:compute_dynamics_with_field (prepare_controls)", "oqupy/control.py:Control.get_controls",
                 "Control.add_single", "oqupy/system.py:TimeDependentSystemWithField.get_propagators")
    N = 2
    max_paths = 60           # the intact code needs 4 paths

    def __init__(self, dt=Fraction(1, 4)):
        self.dt = Fraction(dt)
        self.id = "H1/compute_dynamics_with_field/controls" + ("" if self.dt == Fraction(1, 4) else "/dt=%s" % self.dt)
        self.bounds = {"steps": self.N, "d": 2, "float-time controls": "pre + post at one float time", "dt": str(self.dt)}

    @guard_library_exceptions
    def run(self, inp):
        start, tau, dt = self.times(inp)
        u = _User(inp)
        f = Opaque("eom", lambda t, r, a: (0.1 + 0.25 * t) * r - 0.5 * a + 0.125 * t * t, cplx=True)
        u.extra = (f,)
        tc1 = tc2 = self.tpoint(inp, "tc1")      # pre and post control at the same float time (keeps the path count small;
        C1 = inp.arr("C1", (4, 4))                # independent times: H1/compute_dynamics_with_field/control_selection)
        C2 = inp.arr("C2", (4, 4))
        rho0 = inp.arr("r", (2, 2))
        a0 = inp.cplx("a0")
        out, traces, logs = [], [], []
        with exact_floats():
            for shift in (_zero(inp), tau):
                ctrl = _RecControl(2)
                ctrl.add_single(tc1 + shift, C1, post=False)
                ctrl.add_single(tc2 + shift, C2, post=True)
                mfs = oqupy.MeanFieldSystem([u.field_system(shift)], field_eom=lambda t, states, a: 0.0 * a)
                mfs._field_eom = (lambda sh: (lambda t, states, a: f(t - sh, states[0][0, 1], a)))(shift)
                u.take()
                dyn = sd.compute_dynamics_with_field(mfs, initial_field=a0, dt=dt, num_steps=self.N, initial_state_list=[rho0],
                                                     start_time=start + shift, control_list=[ctrl], subdiv_limit=None,
                                                     progress_type="silent")
                traces.append(u.take())
                logs.append(ctrl.__dict__.get("log", []))
                out.append((list(dyn._times), list(dyn._fields), list(dyn._system_dynamics[0]._states)))
        (ta, fa, sa), (tb, fb, sb) = out
        # cheap obligations first: which control the real get_controls selected at which step
        obs = [Ob.holds("controls queried for the same steps", [l[0] for l in logs[0]] == [l[0] for l in logs[1]], key="controls")]
        for la, lb in zip(*logs):
            for nm, x, y in (("pre", la[1], lb[1]), ("post", la[2], lb[2])):
                obs.append(Ob.holds("step %d: %s control applied in both runs or in neither" % (la[0], nm), (x is None) == (y is None), key="controls"))
                if x is not None and y is not None:
                    obs.append(Ob.eq("step %d: same %s control" % (la[0], nm), y, x, key="controls"))
        obs += _trace_obs(*traces)
        obs.append(Ob.holds("same number of states", len(ta) == len(tb) == self.N + 1, key="len"))
        for k in range(min(len(ta), len(tb))):
            obs.append(Ob.eq("times[%d] shifted by exactly tau" % k, tb[k], ta[k] + tau, key="times"))
            obs.append(Ob.eq("field %d unchanged" % k, fb[k], fa[k], key="fields"))
            obs.append(Ob.eq("state %d unchanged" % k, sb[k], sa[k], key="states"))
        _assume_congruence(inp, *u.all())
        return obs


class WithFieldControlSelection(_Base):
    """which float-time control the real compute_dynamics_with_field applies at which step (prepare_controls ->
    Control.get_controls): cheap variant with per-step scalar propagators and da/dt = 0, two independent float times"""
    functions = ("oqupy/system_dynamics.py:compute_dynamics_with_field (prepare_controls)", "oqupy/control.py:Control.get_controls",
                 "Control.add_single")
    stubs = ("TimeDependentSystemWithField.get_propagators -> per-step symbolic multiples of the identity", "field equation of motion: da/dt = 0")
    N = 3
    max_paths = 1500

    def __init__(self, dt=Fraction(1, 4)):
        self.dt = Fraction(dt)
        self.id = "H1/compute_dynamics_with_field/control_selection" + ("" if self.dt == Fraction(1, 4) else "/dt=%s" % self.dt)
        self.bounds = {"steps": self.N, "d": 2, "float-time controls": "1 pre + 1 post, independent times", "dt": str(self.dt)}

    @guard_library_exceptions
    def run(self, inp):
        start, tau, dt = self.times(inp)
        tc1 = self.tpoint(inp, "tc1")
        tc2 = self.tpoint(inp, "tc2")
        C1 = inp.arr("C1", (4, 4))
        C2 = inp.arr("C2", (4, 4))
        rho0 = inp.arr("r", (2, 2))
        cs, P1, P2 = _c13._scaled_props(inp, self.N, 2)
        out, logs = [], []
        with exact_floats():
            for shift in (_zero(inp), tau):
                ctrl = _RecControl(2)
                ctrl.add_single(tc1 + shift, C1, post=False)
                ctrl.add_single(tc2 + shift, C2, post=True)
                mfs = oqupy.MeanFieldSystem([_c13._FakeFieldSystem(2, P1, P2)], field_eom=lambda t, states, a: 0.0 * a)
                dyn = sd.compute_dynamics_with_field(mfs, initial_field=inp.one() * 1, dt=dt, num_steps=self.N, initial_state_list=[rho0],
                                                     start_time=start + shift, control_list=[ctrl], progress_type="silent")
                logs.append(ctrl.__dict__.get("log", []))
                out.append((list(dyn._times), list(dyn._system_dynamics[0]._states)))
        (ta, sa), (tb, sb) = out
        obs = [Ob.holds("controls queried for the same steps", [l[0] for l in logs[0]] == [l[0] for l in logs[1]], key="controls")]
        for la, lb in zip(*logs):
            for nm, x, y in (("pre", la[1], lb[1]), ("post", la[2], lb[2])):
                obs.append(Ob.holds("step %d: %s control applied in both runs or in neither" % (la[0], nm), (x is None) == (y is None), key="controls"))
                if x is not None and y is not None:
                    obs.append(Ob.eq("step %d: same %s control" % (la[0], nm), y, x, key="controls"))
        obs.append(Ob.holds("same number of states", len(ta) == len(tb) == self.N + 1, key="len"))
        for k in range(min(len(ta), len(tb))):
            obs.append(Ob.eq("times[%d] shifted by exactly tau" % k, tb[k], ta[k] + tau, key="times"))
            obs.append(Ob.eq("state %d unchanged" % k, sb[k], sa[k], key="states"))
        return obs


class Correlations(_Base):
    """the REAL compute_correlations / compute_correlations_nt with a real TimeDependentSystem whose Hamiltonian,
    rate and Lindblad operator are opaque functions of time, an identity process tensor and float correlation times"""
    functions = ("oqupy/system_dynamics.py:compute_correlations", "compute_correlations_nt", "_compute_ordered_nt_correlations",
                 "_schedule_nt_correlations", "_parse_times", "compute_dynamics", "oqupy/dynamics.py:Dynamics.expectations")
    stubs = _Base.stubs + ("process tensor: bond-dimension-1 identity SimpleProcessTensor (no environment)",
                           "int() in oqupy.system_dynamics concretises the rounded step index (path fork over every feasible step)")
    N = 2
    max_paths = 600

    def __init__(self, api, order="ordered", dt=Fraction(1, 4)):
        self.api, self.order = api, order
        self.dt = Fraction(dt)
        self.id = "H1/%s/%s" % (api, order) + ("" if self.dt == Fraction(1, 4) else "/dt=%s" % self.dt)
        self.bounds = {"steps": self.N, "d": 2, "dt": str(self.dt), "times_a": "float", "times_b": "all steps"}

    @property
    def env(self):
        e = _env()
        e["extra"]["oqupy.system_dynamics.int"] = _conc_int
        e["extra"]["oqupy.system_dynamics.isinstance"] = _conc_isinstance
        return e

    @guard_library_exceptions
    def run(self, inp):
        start, tau, dt = self.times(inp)
        u = _User(inp)
        ta = self.tpoint(inp, "ta")
        A = inp.arr("A", (2, 2))
        B = inp.arr("B", (2, 2))
        rho0 = inp.arr("r", (2, 2))
        out, traces = [], []
        with exact_floats():
            for shift in (_zero(inp), tau):
                pt = _c13._identity_pt(inp, self.N)
                system = u.system(shift)
                u.take()
                try:
                    if self.api == "compute_correlations":
                        times, corr = sd.compute_correlations(system, pt, A, B, ta + shift, slice(None), time_order=self.order,
                                                              initial_state=rho0, start_time=start + shift, dt=dt, progress_type="silent")
                    else:
                        times, corr = sd.compute_correlations_nt(system, pt, [A, B], [ta + shift, slice(None)], ["left", "left"],
                                                                 initial_state=rho0, start_time=start + shift, dt=dt, progress_type="silent")
                    out.append(([list(t) for t in times], np.asarray(corr)))
                except IndexError:
                    out.append("IndexError")
                traces.append(u.take())
        ra, rb = out
        obs = [Ob.holds("IndexError in both runs or in neither", isinstance(ra, str) == isinstance(rb, str), key="selected")]
        if isinstance(ra, str) or isinstance(rb, str):
            return obs
        obs += _trace_obs(*traces)
        (ta_, ca), (tb_, cb) = ra, rb
        obs.append(Ob.holds("same shape of the time axes and of the correlation array",
                            [len(t) for t in ta_] == [len(t) for t in tb_] and ca.shape == cb.shape, key="len"))
        if [len(t) for t in ta_] == [len(t) for t in tb_] and ca.shape == cb.shape:
            for i, (x, y) in enumerate(zip(ta_, tb_)):
                for k in range(len(x)):
                    obs.append(Ob.eq("reported time axis %d entry %d shifted by exactly tau" % (i, k), y[k], x[k] + tau, key="times"))
            for idx in np.ndindex(*ca.shape):
                na, nb = _isnan(ca[idx]), _isnan(cb[idx])
                obs.append(Ob.holds("correlation %s: NaN (outside the time order) in both runs or in neither" % (idx,), na == nb, key="correlations"))
                if not na and not nb:
                    obs.append(Ob.eq("correlation %s unchanged" % (idx,), cb[idx], ca[idx], key="correlations"))
        _assume_congruence(inp, *u.all())
        return obs


def _conc_int(x, *a):
    """int() that turns a symbolic step index into a Python int (fork over every feasible value)"""
    r = fpx.fp_int(x, *a)
    return r.concretise() if isinstance(r, SI) else r


def _conc_isinstance(x, t):
    ts = t if isinstance(t, tuple) else (t,)
    return fpx.fp_isinstance(x, tuple(int if u is _conc_int else u for u in ts))


def _isnan(v):
    return isinstance(v, (complex, float, np.complexfloating, np.floating)) and v != v


def _sym_linspace(start, stop, num=50, endpoint=True, **kw):
    """np.linspace by its documented contract (num evenly spaced samples, end point included) -- numpy's own
    implementation branches on `step == 0` and refuses symbolic scalars"""
    if not venv._is_sym(start) and not venv._is_sym(stop):
        return np.linspace(start, stop, num, endpoint=endpoint, **kw)
    assert endpoint and num >= 2
    out = np.empty(num, dtype=object)
    for k in range(num):
        out[k] = start + (stop - start) * Fraction(k, num - 1) if k < num - 1 else stop + 0
    return out


def _ite_max(*a, **kw):
    """max() without path forks (If-terms): the estimator takes the maximum over ~30 sampled norms"""
    if len(a) == 1:
        a = tuple(a[0])
    if not any(isinstance(v, (S, SI)) for v in a):
        return max(*a, **kw) if len(a) > 1 else a[0]
    m = S.of(a[0])
    for v in a[1:]:
        v = S.of(v)
        if v.is_concrete() and m.is_concrete():
            m = v if v.re > m.re else m
        else:
            m = S(z3.If(sym.zr(v.re) > sym.zr(m.re), sym.zr(v.re), sym.zr(m.re)))
    return m


class EstimateDt(_Base):
    """_estimate_dt_from_system (guess_tempo_parameters / tempo_compute(parameters=None)): the time grid on which the
    user's Hamiltonian, rates and Lindblad operators are sampled must move with the time origin"""
    functions = ("oqupy/tempo.py:_estimate_dt_from_system", "oqupy/tempo.py:_max_tdependentsystem_frequency")
    stubs = ("oqupy.tempo._spectral_norm -> opaque function of the matrix (LAPACK eigvalsh is outside the claim)",
             "np.linspace -> its documented contract (num evenly spaced samples including both end points)",
             "max() over the sampled norms as an If-term (no path fork)") + _Base.stubs[2:]
    max_paths = 64
    MAX_SAMPLES = 25           # 11 and 22 samples (thorough: 50 -> 11, 22, 44)

    def __init__(self, kind):
        self.kind = kind
        self.id = "H1/_estimate_dt_from_system/%s" % kind
        self.bounds = {"max_samples": self.MAX_SAMPLES, "d": 2}

    @property
    def env(self):
        e = _env()
        self._norm = Opaque("norm", _norm_concrete)
        e["extra"]["oqupy.tempo._spectral_norm"] = self._norm
        e["extra"]["oqupy.tempo.max"] = _ite_max
        proxy = venv.NpProxy(dict(fpx.NP_OVERRIDES, linspace=_sym_linspace))
        e["extra"]["oqupy.tempo.np"] = proxy
        return e

    @guard_library_exceptions
    def run(self, inp):
        start, tau, _ = self.times(inp)
        span = st(inp.real("T", lo=Fraction(1, 2), hi=8))
        u = _User(inp)
        res, traces = [], []
        # opaque values keyed by the SIMPLIFIED argument here: the estimator makes several hundred calls, pairwise
        # congruence axioms would be quadratic; equal (normalised, linear) time arguments share their atom instead
        old_keys, tsym.SIMPLIFY_KEYS = tsym.SIMPLIFY_KEYS, True
        try:
            with exact_floats():
                for shift in (_zero(inp), tau):
                    system = u.system(shift) if self.kind == "TimeDependentSystem" else u.field_system(shift)
                    u.take()
                    import warnings
                    with warnings.catch_warnings():
                        warnings.simplefilter("ignore")
                        res.append(tempo_mod._estimate_dt_from_system(system, start + shift, start + shift + span, 1e-3, self.MAX_SAMPLES))
                    traces.append(u.take())
        finally:
            tsym.SIMPLIFY_KEYS = old_keys
        obs = _trace_obs(*traces)
        obs.append(Ob.eq("estimated dt unchanged", res[1], res[0], key="estimate"))
        return obs


def _z3_vars(e, acc):
    if z3.is_const(e) and e.decl().kind() == z3.Z3_OP_UNINTERPRETED:
        acc[e.get_id()] = e
    for c in e.children():
        _z3_vars(c, acc)
    return acc


def _normal(p):
    """exact normal form of one real part: a rational constant if z3's simplifier (sum-of-monomials) reduces the term to one"""
    if isinstance(p, Fraction):
        return p
    e = z3.simplify(sym.zr(p), som=True)
    if z3.is_rational_value(e):
        return Fraction(e.numerator_as_long(), e.denominator_as_long())
    return p


class _normalising:
    """context manager: results of ST arithmetic whose term reduces to a rational constant become that constant
    (exact rewriting), so that `(start + T) - start` is the number T and code that samples LAGS runs on numbers"""

    def __enter__(self):
        self.old = tsym._wrap

        def wrap(r):
            if isinstance(r, S):
                re, im = _normal(r.re), _normal(r.im)
                if isinstance(re, Fraction) and isinstance(im, Fraction):
                    return float(re) if im == 0 else complex(float(re), float(im))
                return tsym.ST(re, im)
            return r
        tsym._wrap = wrap

    def __exit__(self, *a):
        tsym._wrap = self.old


class _LagRecorder:
    """stationary bath autocorrelation C(lag): records the argument; the value is computed from the argument itself when it
    is a number, and at the witness point (all symbols = 1/4) when it still depends on the time origin (then the trace obligation fails anyway)"""

    def __init__(self):
        self.calls = []

    def __call__(self, t):
        self.calls.append(t)
        if isinstance(t, S):
            e = sym.zr(t.re) if not isinstance(t.re, Fraction) else None
            if e is None:
                v = float(t.re)
            else:
                vs = _z3_vars(e, {})
                r = z3.simplify(z3.substitute(e, *[(x, z3.RealVal("1/4")) for x in vs.values()]))
                v = float(Fraction(r.numerator_as_long(), r.denominator_as_long()))
        else:
            v = float(t)
        return complex(np.exp(-v * v) * (1 - 0.3j * v))


class EstimateDtBath(_Base):
    """_estimate_dt_dkmax_from_bath (guess_tempo_parameters / tempo_compute(parameters=None)): the bath autocorrelation is a
    function of the LAG only, so the arguments at which it is sampled, and the guessed dt / dkmax, must not depend on the origin"""
    functions = ("oqupy/tempo.py:_estimate_dt_dkmax_from_bath", "oqupy/tempo.py:_analyse_correlation")
    stubs = ("bath.correlations.correlation -> recorder of its argument (value from the argument; witness value if the argument depends on the origin)",
             "np.linspace -> its documented contract (num evenly spaced samples including both end points)",
             "ST arithmetic: terms that z3's simplifier reduces to a rational constant are replaced by it (exact)") + _Base.stubs[2:]
    max_paths = 8

    def __init__(self, span):
        self.span = span
        self.id = "H1/_estimate_dt_dkmax_from_bath/span%s" % span
        self.bounds = {"span": str(span), "tolerance": "1e-2"}

    @property
    def env(self):
        e = _env()
        proxy = venv.NpProxy(dict(fpx.NP_OVERRIDES, linspace=_sym_linspace))
        e["extra"]["oqupy.tempo.np"] = proxy
        return e

    @guard_library_exceptions
    def run(self, inp):
        start, tau, _ = self.times(inp)
        span = Fraction(self.span) if inp.mode != "real" else float(self.span)
        res, traces = [], []
        import warnings
        with exact_floats(), _normalising():
            for shift in (_zero(inp), tau):
                rec = _LagRecorder()

                class _B:
                    class correlations:
                        correlation = rec
                with warnings.catch_warnings():
                    warnings.simplefilter("ignore")
                    s0 = start + shift
                    res.append(tempo_mod._estimate_dt_dkmax_from_bath(_B, s0, s0 + span, 1e-2))
                traces.append({"correlation": rec.calls})
        obs = _trace_obs(*traces)
        obs.append(Ob.eq("guessed dt unchanged", res[1][0], res[0][0], key="estimate"))
        obs.append(Ob.holds("guessed dkmax unchanged", res[1][1] == res[0][1], key="estimate"))
        return obs


def _norm_concrete(m):
    c = _to_complex(m)
    v = float(np.max(np.abs(np.linalg.eigvalsh(np.conj(c.T) @ c))))
    return sym.lift(np.array(v)).item() if isinstance(m, np.ndarray) and m.dtype == object else v


class MeanFieldTempoField(_Base):
    functions = ("oqupy/tempo.py:MeanFieldTempo._time", "MeanFieldTempo._compute_field", "MeanFieldTempo._compute_field_derivative")

    def __init__(self):
        self.id = "H1/MeanFieldTempo.field"
        self.bounds = {"steps": 3}

    @guard_library_exceptions
    def run(self, inp):
        start, tau, dt = self.times(inp)
        f = Opaque("eom", lambda t, r, a: (0.1 + 0.25 * t) * r - 0.5 * a + 0.125 * t * t, cplx=True)
        s0 = inp.arr("s", (4,))
        s1 = inp.arr("n", (4,))
        a = inp.cplx("a")
        res = []
        with exact_floats():
            for shift in (_zero(inp), tau):
                o = _c13._standin(MeanFieldTempo, start + shift, dt)
                o._parsed_parameters_dict = {"hs_dim": [2]}

                class _MFS:
                    field_eom = staticmethod((lambda sh: (lambda t, states, fld: f(t - sh, states[0][0, 1], fld)))(shift))
                o._mean_field_system = _MFS()
                res.append([(o._time(k), o._compute_field(k, [s0], a, [s1]), o._compute_field_derivative(k, [s0], a)) for k in range(3)])
        obs = []
        for k in range(3):
            (ta, fa, da), (tb, fb, db) = res[0][k], res[1][k]
            obs += [Ob.eq("_time(%d) shifted by exactly tau" % k, tb, ta + tau, key="times"),
                    Ob.eq("_compute_field(%d) unchanged" % k, fb, fa, key="fields"),
                    Ob.eq("_compute_field_derivative(%d) unchanged" % k, db, da, key="fields")]
        _assume_congruence(inp, f)
        return obs


class _RecordingSystem(oqupy.System):
    def __init__(self):
        super().__init__(np.zeros((2, 2)))
        self.calls = []

    def get_propagators(self, dt, start_time, subdiv_limit, epsrel):
        self.calls.append((dt, start_time))
        return lambda step: (np.identity(4), np.identity(4))


class _RecordingFieldSystem(oqupy.TimeDependentSystemWithField):
    def __init__(self):
        super().__init__(lambda t, a: np.zeros((2, 2)) + 0 * a)
        self.calls = []

    def get_propagators(self, dt, start_time, subdiv_limit, epsrel):
        self.calls.append((dt, start_time))
        return lambda step, field, fd: (np.identity(4), np.identity(4))


class TempoLayer(_Base):
    """the real Tempo / MeanFieldTempo constructors hand start_time and dt to the system; compute() labels"""
    N = 2
    stubs = _Base.stubs + ("System.get_propagators -> recording stub", "TempoBackend / MeanFieldTempoBackend replaced by a counting stub after construction")

    def __init__(self, kind):
        self.kind = kind
        self.id = "H1/%s.compute" % kind
        self.bounds = {"steps": self.N}
        self.bath = _c13._tiny_bath()          # built outside the symbolic environment
        self.functions = ("oqupy/tempo.py:%s.__init__" % kind, "%s._prepare_backend" % kind, "%s.compute" % kind, "%s._time" % kind,
                          "TempoParameters.__init__")

    @guard_library_exceptions
    def run(self, inp):
        start, tau, dt = self.times(inp)
        th = inp.real("th", lo=0, hi=Fraction(3, 4))
        rho0 = inp.arr("r", (2, 2))
        cs = [inp.real("c%d" % k) for k in range(self.N)]
        bath = self.bath
        res = []
        with exact_floats():
            for shift in (_zero(inp), tau):
                params = TempoParameters(dt=dt, epsrel=1e-3, dkmax=1)
                if self.kind == "Tempo":
                    rs = _RecordingSystem()
                    o = Tempo(rs, bath, params, np.array(rho0), start + shift)
                else:
                    rs = _RecordingFieldSystem()
                    mfs = oqupy.MeanFieldSystem([rs], field_eom=lambda t, states, a: 0.0 * a)
                    o = MeanFieldTempo(mfs, [bath], params, [np.array(rho0)], 1.0 + 0j, start + shift)
                o._backend_instance = _c13._CountingBackend(rho0, cs, mean_field=(self.kind != "Tempo"))
                dyn = o.compute(start + shift + (self.N + th) * dt, progress_type="silent")
                res.append((rs.calls, list(dyn._times)))
        (ca, ta), (cb, tb) = res
        obs = [Ob.holds("get_propagators called once per run", len(ca) == 1 and len(cb) == 1, key="calls"),
               Ob.holds("same number of states", len(ta) == len(tb) == self.N + 1, key="len")]
        if ca and cb:
            obs += [Ob.eq("start_time handed to the system shifted by exactly tau", cb[0][1], ca[0][1] + tau, key="start_time"),
                    Ob.eq("start_time handed to the system is start_time", ca[0][1], start, key="start_time"),
                    Ob.eq("dt handed to the system unchanged", cb[0][0], ca[0][0], key="start_time")]
        for k in range(min(len(ta), len(tb))):
            obs.append(Ob.eq("times[%d] shifted by exactly tau" % k, tb[k], ta[k] + tau, key="times"))
        return obs


class PtTebdTimes(_Base):
    env_extra = {"oqupy.pt_tebd.compute_tebd_propagator": lambda **kw: _c13._FakeTebdProp(), "oqupy.pt_tebd.PtTebdBackend": _c13._FakeTMps}
    real_env = dict(_Base.real_env, **env_extra)
    stubs = ("compute_tebd_propagator, PtTebdBackend -> recording stubs (no tensor network)",)
    functions = ("oqupy/pt_tebd.py:PtTebd.compute", "PtTebd.time", "PtTebd._append_results")
    N = 3

    def __init__(self):
        self.id = "H1/PtTebd"
        self.bounds = {"steps": self.N, "start_step": [0, 2]}

    @property
    def env(self):
        e = _env()
        e["extra"].update(self.env_extra)
        return e

    @guard_library_exceptions
    def run(self, inp):
        start, tau, dt = self.times(inp)
        s0 = int(inp.int("s0", 0, 2))
        res = []
        for shift in (_zero(inp), tau):
            o = PtTebd.__new__(PtTebd)
            p = pt_tebd_mod.PtTebdParameters.__new__(pt_tebd_mod.PtTebdParameters)
            p._dt, p._epsrel, p._order = dt, 1e-6, 2
            o._parameters, o._start_time, o._start_step = p, start + shift, s0
            o._system_chain, o._process_tensors, o._backend_config = None, [None], {}

            class _Mps:
                gammas, lambdas = [], []
            o._initial_augmented_mps = _Mps()
            o._dynamics_sites = []
            o._tebd_propagator = o._t_mps = o._results = o._step = None

            class _NoControl:
                def get_single_site_controls(self, step, post):
                    return None
            o._chain_control = _NoControl()
            r = o.compute(s0 + self.N, progress_type="silent")
            res.append(list(r["time"]))
        ta, tb = res
        obs = [Ob.holds("same number of times", len(ta) == len(tb) == self.N + 1, key="len")]
        for k in range(min(len(ta), len(tb))):
            obs.append(Ob.eq("time[%d] shifted by exactly tau" % k, tb[k], ta[k] + tau, key="times"))
        return obs


class ControlTimes(_Base):
    functions = ("oqupy/control.py:Control.get_controls", "Control.add_single")
    max_paths = 2000

    def __init__(self, npre, N, dt=Fraction(1, 4)):
        self.npre, self.N = npre, N
        self.dt = Fraction(dt)
        self.id = "H1/Control.get_controls/pre%d_N%d" % (npre, N) + ("" if self.dt == Fraction(1, 4) else "/dt=%s" % self.dt)
        self.bounds = {"steps": [0, N], "float-time controls": "%d pre + 1 post" % npre, "dt": str(self.dt)}

    @guard_library_exceptions
    def run(self, inp):
        start, tau, dt = self.times(inp)
        n = self.npre + 1
        tcs = [self.tpoint(inp, "tc%d" % i) for i in range(n)]
        Cs = [inp.arr("C%d" % i, (4, 4)) for i in range(n)]
        if self.npre == 2:
            if inp.symbolic:
                inp.assume(tcs[0] != tcs[1])
            elif tcs[0] == tcs[1]:
                raise core.PreconditionFailed()
        res = []
        with exact_floats():
            for shift in (_zero(inp), tau):
                c = Control(2)
                for i in range(self.npre):
                    c.add_single(tcs[i] + shift, Cs[i], post=False)
                c.add_single(tcs[-1] + shift, Cs[-1], post=True)
                res.append([c.get_controls(k, dt=dt, start_time=start + shift) for k in range(self.N + 1)])
        obs = []
        for k in range(self.N + 1):
            (pa, qa), (pb, qb) = res[0][k], res[1][k]
            for nm, x, y in (("pre", pa, pb), ("post", qa, qb)):
                obs.append(Ob.holds("step %d: %s control present in both runs or in neither" % (k, nm), (x is None) == (y is None), key="selected"))
                if x is not None and y is not None:
                    obs.append(Ob.eq("step %d: same %s control" % (k, nm), y, x, key="selected"))
        return obs


class ParseTimes(_Base):
    functions = ("oqupy/system_dynamics.py:_parse_times",)
    MAXSTEP = 4
    max_paths = 1000

    def __init__(self, kind, dt=Fraction(1, 4)):
        self.kind = kind
        self.dt = Fraction(dt)
        self.id = "H1/_parse_times/%s" % kind + ("" if self.dt == Fraction(1, 4) else "/dt=%s" % self.dt)
        self.bounds = {"max_step": self.MAXSTEP, "dt": str(self.dt)}

    def _call(self, times, dt, start):
        try:
            return list(sd._parse_times(times, self.MAXSTEP, dt, start))       # SI entries stay symbolic
        except IndexError:
            return "IndexError"

    @guard_library_exceptions
    def run(self, inp):
        start, tau, dt = self.times(inp)
        t1 = self.tpoint(inp, "t1")
        t2 = self.tpoint(inp, "t2")
        with exact_floats():
            if self.kind == "float":
                ra = self._call(t1, dt, start)
                rb = self._call(t1 + tau, dt, start + tau)
            else:
                ra = self._call((t1, t2), dt, start)
                rb = self._call((t1 + tau, t2 + tau), dt, start + tau)
        both_err = isinstance(ra, str) and isinstance(rb, str)
        same_kind = isinstance(ra, str) == isinstance(rb, str)
        obs = [Ob.holds("IndexError in both runs or in neither", same_kind, key="selected", info="A=%s B=%s" % (ra, rb))]
        if same_kind and not both_err:
            obs.append(Ob.holds("same number of steps selected", len(ra) == len(rb), key="selected"))
            if len(ra) == len(rb):
                obs.append(Ob.eq("same steps selected", rb, ra, key="selected", info="A=%s B=%s" % (ra, rb)))
        return obs


# --------------------------------------------------------------------------
# E2: float rounding of the step index for shifted doubles
# --------------------------------------------------------------------------
class ParseTimesFloat(FCase):
    env = {"extra": fpx.shadows("oqupy.system_dynamics")}
    timeout_s = 120
    ETA = Fraction(1, 10 ** 6)
    assumptions = ("t = start + (k+theta)*dt exactly with |theta| <= 1/2 - 1e-6; shifted doubles start' = fl(start+tau), t' = fl(t+tau)",
                   "|start|, |tau| <= 1000, 1e-3 <= dt <= 10, k <= 1000")

    def __init__(self):
        self.id = "H1f/_parse_times"
        self.bounds = {"k_max": 1000, "dt": [1e-3, 10], "start": [-1000, 1000], "tau": [-1000, 1000]}
        self.functions = ("oqupy/system_dynamics.py:_parse_times (float branch)",)

    def fp_instances(self, fi):
        k, st_, tau = fi.fpvars["k"], fi.fpvars["start"], fi.fpvars["tau"]
        z = st_ == z3.FPVal(0.0, fpx.F64)
        return [("start=0, k<=15", [z, z3.ULE(k, 15)]), ("start=0", [z]), ("k<=15", [z3.ULE(k, 15)])]

    def run(self, inp):
        fi = FInputs.wrap(inp)
        start = fi.double("start", -1000.0, 1000.0)
        tau = fi.double("tau", -1000.0, 1000.0)
        dt = fi.double("dt", 1e-3, 10.0)
        k = fi.count("k", 0, 1000)
        eta = self.ETA
        half = Fraction(1, 2)
        if fi.symbolic:
            t = fi.double("t", -2000.0, 12000.0)
            kr = z3.ToReal(k.re)
            kf = z3.fpUnsignedToFP(fpx.RNE, k.nb, fpx.F64)

            def at(c):
                return z3.fpAdd(fpx.RNE, start.fp, z3.fpMul(fpx.RNE, z3.fpAdd(fpx.RNE, kf, z3.FPVal(c, fpx.F64)), dt.fp))
            fi.assume(fp=z3.And(z3.fpGEQ(t.fp, at(-0.5 + 2e-6)), z3.fpLEQ(t.fp, at(0.5 - 2e-6))),
                      re=z3.And(t.re >= start.re + (kr - fpx._rq(half - eta)) * dt.re, t.re <= start.re + (kr + fpx._rq(half - eta)) * dt.re))
        else:
            if "t" in fi.values:
                t = float.fromhex(fi.values["t"])
            else:
                t = start + (k + fi.rnd.choice([-0.45, -0.2, 0.0, 0.0, 0.3, 0.49])) * dt
                fi.values["t"] = t.hex()
            d = Fraction(t) - Fraction(start)
            fi.assume(conc=(k - half + eta) * Fraction(dt) <= d <= (k + half - eta) * Fraction(dt))
        start_b, t_b = start + tau, t + tau                  # the user's shifted doubles (rounded sums)

        def call(tt, ss):
            try:
                return sd._parse_times(tt, 1000, dt, ss)[0]
            except IndexError:
                return -1
        ia = call(t, start)
        ib = call(t_b, start_b)
        info = None if fi.symbolic else "start=%r tau=%r dt=%r t=%r k=%d -> %r, %r" % (start, tau, dt, t, k, ia, ib)
        return [FOb("unshifted run selects step k", ia == k, key="index", outputs={"ia": ia}, info=info, fp_exact=False),
                FOb("shifted run selects the same step", ib == k, key="index_shifted", outputs={"ib": ib}, info=info, fp_exact=False)]


# --------------------------------------------------------------------------
def cases(tier):
    cs = [Propagators("sample"), Propagators("integrate"), FieldPropagators("sample"), FieldPropagators("integrate"),
          ComputeDynamics(), ComputeDynamicsWithField(), ComputeDynamicsWithFieldControls(), WithFieldControlSelection(), Correlations("compute_correlations_nt"), Correlations("compute_correlations", "anti"),
          EstimateDt("TimeDependentSystem"), EstimateDt("TimeDependentSystemWithField"), EstimateDtBath(2), EstimateDtBath(5),
          MeanFieldTempoField(), TempoLayer("Tempo"), TempoLayer("MeanFieldTempo"),
          PtTebdTimes(), ControlTimes(1, 2), ControlTimes(1, 2, Fraction(1, 10)), ParseTimes("float"), ParseTimes("interval"), ParseTimesFloat()]
    if tier == "thorough":
        for c in cs:
            # (compute_dynamics_with_field stays at N=2: with N=3 the satisfiability twin of the congruence side
            #  conditions is already 'unknown' for nlsat)
            if isinstance(c, (Propagators, FieldPropagators, ComputeDynamics, TempoLayer, PtTebdTimes)):
                c.N = c.N + (1 if isinstance(c, ComputeDynamics) else 2)
                c.bounds = dict(c.bounds, steps=c.N)
            if isinstance(c, ParseTimes):
                c.MAXSTEP = 6
                c.bounds = dict(c.bounds, max_step=6)
                c.max_paths = 4000
            if isinstance(c, EstimateDt):
                c.MAX_SAMPLES = 50
                c.bounds = dict(c.bounds, max_samples=50)
            if isinstance(c, ParseTimesFloat):
                c.validation_points, c.timeout_s, c.fp_timeout_s = 12, 600, 300
        cs += [ControlTimes(2, 3), ComputeDynamics(Fraction(1, 10)), ComputeDynamicsWithFieldControls(Fraction(1, 10)), WithFieldControlSelection(Fraction(1, 10)), Correlations("compute_correlations", "ordered", Fraction(1, 10)),
               ParseTimes("float", Fraction(1, 10)), ParseTimes("interval", Fraction(1, 10))]
    return cs


def main(tier, seed, args):
    return fpx.run_cases(PROP, sys.modules[__name__], tier, seed, args, hard_timeout_s=(300 if tier == "quick" else 1500))
