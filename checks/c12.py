"""C12 -- bath correlation functions and their 2D integrals are consistent and correct (partial).

H1  shape algebra of the real `CustomSD.correlation_2d_integral` over an uninterpreted
    eta function E (E(0)=0): rectangle/square tie, additivity, tiling of the big triangle,
    TEMPO row sums (through the real `tempo.influence_matrix` request pattern and real
    `TempoParameters`), matsubara -> real part.
H2  integration regions / integrand orientation of `CustomCorrelations.correlation_2d_integral`
    (recording `integrate.dblquad`).
H3  integrand algebra of the real `CustomSD.correlation` / `eta_function` closures at omega in
    {1, 2} and at a symbolic omega in [1/10, 6]: np.exp over generator symbols with their relations;
    documented thermal / zero-T / Matsubara kernels, C(-tau) = conj C(tau), overflow-guard branch
    bound, frequency ranges tile [0, inf).
H4  `PowerLawSD` j-function (integer zeta) and equivalence with a `CustomSD` of the same j.
H5  the three shapes of `CustomSD` equal the documented double integrals for every polynomial
    correlation function of degree <= 2 (E = double time integral of C, cf. H3).

Outside the claim: agreement with numerical quadrature (QUADPACK), the T=0 closed form (Gamma
functions), positivity, non-integer zeta.
"""
from fractions import Fraction as Fr

import numpy as np
import z3

import oqupy
import oqupy.bath_correlations as bc
import oqupy.tempo as tempo
from oqupy.config import INTEGRATE_EPSREL, SUBDIV_LIMIT

from vf.core import Case, Ob
from vf import sym
from vf.sym import S, zr
from vf import bathsym as bs

ASSUMPTIONS = [
    "exact real/complex arithmetic (floating-point rounding outside the claim)",
    "quadrature is replaced by stand-ins (evaluation functional / uninterpreted function); its accuracy is outside the claim",
    "np.exp is modelled by generator symbols with the relations e^x>0, e^x<1 iff x<0, cos^2+sin^2=1, "
    "exp(sum n_i g_i)=prod exp(g_i)^n_i (integer n_i); each decomposition is verified by the solver",
]

R = z3.RealSort()
_ETA = {False: (z3.Function("eta_re", R, R, R), z3.Function("eta_im", R, R, R)),
        True: (z3.Function("etaM_re", R, R, R), z3.Function("etaM_im", R, R, R))}


# --------------------------------------------------------------------------
# correlations objects whose eta function is E
# --------------------------------------------------------------------------
def _exact(x):
    """z3 value of a float WITHOUT the generic lifting (tiny tolerances must not become 0)"""
    if isinstance(x, S):
        return zr(x.re)
    return zr(Fr(float(x)))


def _eta_sym(tau, epsrel, matsubara):
    tau = S.of(tau)
    assert sym._isz(tau.im), "eta stub: real time expected"
    t = z3.simplify(zr(tau.re))
    e = _exact(epsrel)
    fr, fi = _ETA[bool(matsubara)]
    if matsubara:
        return S(fr(t, e))         # the real eta_function returns `-integral.real` for matsubara=True
    return S(fr(t, e), fi(t, e))


def _eta_frac(tau, epsrel, matsubara):
    t = S.of(tau)
    if matsubara:
        return S(Fr(1, 3)) * t * t + S(Fr(-2, 7)) * t * t * t + S(Fr(1, 9)) * t
    return S(Fr(3, 7), Fr(-1, 5)) * t * t + S(Fr(1, 11), Fr(2, 5)) * t * t * t + S(Fr(1, 6), Fr(1, 8)) * t


class _Rec:
    """records every public correlation_2d_integral call and its result (the real method runs)"""

    def correlation_2d_integral(self, *a, **kw):
        r = super().correlation_2d_integral(*a, **kw)
        self.log.append((a, kw, r))
        return r


class _EtaSD(_Rec, bc.CustomSD):
    log = ()

    def eta_function(self, tau, epsrel=INTEGRATE_EPSREL, subdiv_limit=SUBDIV_LIMIT, matsubara=False):
        return self._eta(tau, epsrel, matsubara)


class _RecPowerLaw(_Rec, bc.PowerLawSD):
    log = ()


def eta_corr(inp):
    """CustomSD whose eta function is: an uninterpreted E (sym), a fixed complex polynomial (frac),
    the untouched real quadrature of a PowerLawSD (real)."""
    if inp.mode == "real":
        c = _RecPowerLaw(alpha=0.3, zeta=1.0, cutoff=2.0, cutoff_type="exponential", temperature=0.7)
    else:
        c = _EtaSD(lambda w: w, cutoff=1.0, cutoff_type="exponential", temperature=0.5)
        c._eta = _eta_sym if inp.mode == "sym" else _eta_frac
        if inp.mode == "sym":
            e = _exact(INTEGRATE_EPSREL)
            for m in (False, True):
                inp.assumptions.append(z3.And(_ETA[m][0](0, e) == 0, _ETA[m][1](0, e) == 0))   # E(0) = 0
    c.log = []
    return c


def E(corr, t, matsubara=False):
    return corr.eta_function(t, epsrel=INTEGRATE_EPSREL, subdiv_limit=SUBDIV_LIMIT, matsubara=matsubara)


def re_(inp, x):
    return x.real if inp.mode == "real" else S.of(x).real


def im_(inp, x):
    return x.imag if inp.mode == "real" else S.of(x).imag


_H1_ENV = bs.bc_env(more={"oqupy.tempo.float": bs.bs_float})
_H1_FUN = ("bath_correlations.CustomSD.correlation_2d_integral",)
_H1_STUB = ("CustomSD.eta_function -> uninterpreted complex function E(tau, epsrel) with E(0)=0 "
            "(real mode: the untouched quadrature of a PowerLawSD)",)


class H1a(Case):
    """rectangle(t1, t1+delta) == square(t1)"""
    env, stubs, functions = _H1_ENV, _H1_STUB, _H1_FUN

    def __init__(self, matsubara=False):
        self.m = matsubara
        self.id = "H1a/rect_eq_square" + ("_matsubara" if matsubara else "")
        self.bounds = {"matsubara": matsubara}

    def run(self, inp):
        c = eta_corr(inp)
        d = inp.real("d", lo=Fr(1, 10), hi=1)
        t1 = inp.real("t1", lo=0, hi=3)
        kw = {"matsubara": True} if self.m else {}
        r = c.correlation_2d_integral(d, t1, time_2=t1 + d, shape="rectangle", **kw)
        s = c.correlation_2d_integral(d, t1, shape="square", **kw)
        return [Ob.eq("rectangle(t1,t1+d) == square(t1)", r, s)]


class H1b(Case):
    """rectangle(t1,t2) + rectangle(t2,t3) == rectangle(t1,t3)"""
    env, stubs, functions = _H1_ENV, _H1_STUB, _H1_FUN
    id = "H1b/rect_additive"

    def run(self, inp):
        c = eta_corr(inp)
        d = inp.real("d", lo=Fr(1, 10), hi=1)
        t1 = inp.real("t1", lo=0, hi=2)
        t2 = t1 + inp.real("u", lo=Fr(1, 10), hi=1)
        t3 = t2 + inp.real("v", lo=Fr(1, 10), hi=1)
        r12 = c.correlation_2d_integral(d, t1, time_2=t2, shape="rectangle")
        r23 = c.correlation_2d_integral(d, t2, time_2=t3, shape="rectangle")
        r13 = c.correlation_2d_integral(d, t1, time_2=t3, shape="rectangle")
        return [Ob.eq("r(t1,t2)+r(t2,t3) == r(t1,t3)", r12 + r23, r13)]


class H1c(Case):
    """tiling.  The triangle 0 <= t'' <= t' <= n*d is the disjoint union of n diagonal cells
    {j d <= t'' <= t' <= (j+1) d} (each, by stationarity, the 'upper-triangle' cell at 0) and, for
    every separation k = 1..n-1, (n-k) off-diagonal cells [j d,(j+1) d] x [(j-k) d,(j-k+1) d]
    (each, by stationarity, the 'square' cell at k d).  The integral over the big triangle is E(n d)."""
    env, stubs, functions = _H1_ENV, _H1_STUB, _H1_FUN
    tol = 1e-6

    def __init__(self, n):
        self.n = n
        self.id = "H1c/tiling_n%d" % n
        self.bounds = {"n": n}

    def run(self, inp):
        c = eta_corr(inp)
        n = self.n
        d = inp.real("d", lo=Fr(1, 10), hi=Fr(1, 2))
        tot = n * c.correlation_2d_integral(d, 0.0, shape="upper-triangle")
        for k in range(1, n):
            tot = tot + (n - k) * c.correlation_2d_integral(d, k * d, shape="square")
        return [Ob.eq("n*tri + sum (n-k)*square(k d) == E(n d)", tot, E(c, n * d)),
                Ob.eq("triangle at 0 == E(d)", c.correlation_2d_integral(d, 0.0, shape="upper-triangle"), E(c, d))]


def row_dks(n, K, tau_add):
    """documented TEMPO network, row of step n >= 1 (proved against the back-ends in C01/H1):
    separations 0..n-1 while n <= K (or no memory cut); beyond the cut the separations 0..K-1 plus
    the furthest cell, which is I_K, or -- when add_correlation_time is set -- the rectangle
    requested with dk = -(n-K)."""
    if K is None or n <= K:
        return list(range(0, n))
    if tau_add:
        return list(range(0, K)) + [-(n - K)]
    return list(range(0, K + 1))


class H1d(Case):
    """row sum of TEMPO step n == E(T) - E(T-d), T = min(n d, (K+1) d + tau_add)"""
    env, stubs = _H1_ENV, _H1_STUB
    functions = _H1_FUN + ("tempo.influence_matrix", "tempo.TempoParameters.__init__")
    tol = 1e-6

    def __init__(self, K, n, tau_add):
        self.K, self.n, self.ta = K, n, tau_add
        self.id = "H1d/rowsum_K%s_n%d_%s" % (K, n, "tauadd" if tau_add else "notau")
        self.bounds = {"dkmax": K, "step": n, "add_correlation_time": bool(tau_add)}

    def run(self, inp):
        K, n = self.K, self.n
        c = eta_corr(inp)
        d = inp.real("d", lo=Fr(1, 10), hi=Fr(1, 2))
        ta = inp.real("ta", lo=0, hi=2) if self.ta else None
        par = tempo.TempoParameters(d, INTEGRATE_EPSREL, dkmax=K, add_correlation_time=ta)
        comm = np.array([0.0, 1.0, -1.0, 0.0])
        acomm = np.array([1.0, 0.0, 0.0, -1.0])
        tot = None
        none_seen = False
        for dk in row_dks(n, K, self.ta):
            before = len(c.log)
            infl = tempo.influence_matrix(dk, par, c, acomm, comm)
            if infl is None:
                none_seen = True
                continue
            assert len(c.log) == before + 1
            r = c.log[-1][2]
            tot = r if tot is None else tot + r
        if K is None or n <= K:
            T = n * d
        elif ta is None:
            T = (K + 1) * d
        else:
            full, cut = n * d, (K + 1) * d + ta
            T = full if full <= cut else cut          # forks in sym mode
        obs = [Ob.holds("no None influence among requested cells", not none_seen),
               Ob.eq("row sum == E(T) - E(T-d)", tot, E(c, T) - E(c, T - d))]
        if K is not None and not self.ta:
            obs.append(Ob.holds("dk<0 gives None iff add_correlation_time is None",
                                tempo.influence_matrix(-1, par, c, acomm, comm) is None))
        return obs


class H1e(Case):
    """matsubara=True: real-valued shape combination of the (real) Matsubara eta function"""
    env, stubs, functions = _H1_ENV, _H1_STUB, _H1_FUN
    id = "H1e/matsubara_real"

    def run(self, inp):
        c = eta_corr(inp)
        d = inp.real("d", lo=Fr(1, 10), hi=1)
        t1 = inp.real("t1", lo=0, hi=2)
        t2 = t1 + inp.real("u", lo=Fr(1, 10), hi=1)
        EM = lambda t: E(c, t, True)
        obs = []
        exp = {"upper-triangle": EM(t1 + d) - EM(t1),
               "square": EM(t1 + d) - 2 * EM(t1) + EM(t1 - d),
               "rectangle": EM(t2) - EM(t1) - EM(t2 - d) + EM(t1 - d)}
        for shape, alg in exp.items():
            kw = {"time_2": t2} if shape == "rectangle" else {}
            r = c.correlation_2d_integral(d, t1, shape=shape, matsubara=True, **kw)
            obs.append(Ob.eq("%s matsubara: imaginary part 0" % shape, im_(inp, r), 0 * d))
            obs.append(Ob.eq("%s matsubara: real part of the combination" % shape, r, re_(inp, alg)))
        return obs


# --------------------------------------------------------------------------
# H2  CustomCorrelations regions
# --------------------------------------------------------------------------
_CF = (z3.Function("Cuser_re", R, R), z3.Function("Cuser_im", R, R))


def user_C(inp):
    if inp.mode == "sym":
        def C(t):
            t = zr(S.of(t).re)
            return S(_CF[0](t), _CF[1](t))
        return C
    # neither part even or odd in t, so that C(x-y) and C(y-x) differ in both parts
    return lambda t: (Fr(1, 3) + t * Fr(1, 5) + t * t * Fr(1, 11)) + 1j * (t * t * t * Fr(1, 7) - t * Fr(1, 4) + Fr(1, 9))


class H2(Case):
    """documented regions:  square  int_{t1}^{t1+D} dt' int_0^D dt'' ; upper-triangle
    int_{t1}^{t1+D} dt' int_0^{t'-t1} dt'' ; rectangle int_{t1}^{t2} dt' int_0^D dt'' ; integrand C(t'-t'')"""
    functions = ("bath_correlations.CustomCorrelations.correlation_2d_integral", "CustomCorrelations.correlation")
    stubs = ("integrate.dblquad -> recorder of (a, b, gfun(x), hfun(x), func(y, x)) at symbolic x, y (scipy contract: "
             "int_a^b dx int_g(x)^h(x) dy func(y, x)); returns fresh symbols", "user correlation function -> uninterpreted C(tau)")

    def __init__(self, shape):
        self.shape = shape
        self.id = "H2/regions_%s" % shape
        self.bounds = {"shape": shape}
        self.late = bs.Late()
        self.env = bs.bc_env(integrate=self.late)
        self.real_env = {bs.BC + ".integrate": self.late}

    def run(self, inp):
        shape = self.shape
        d = inp.real("d", lo=Fr(1, 10), hi=1)
        t1 = inp.real("t1", lo=0, hi=2)
        t2 = t1 + inp.real("u", lo=Fr(1, 10), hi=1)
        x, y = inp.real("x"), inp.real("y")
        rets = [inp.real("ret0"), inp.real("ret1")]
        rec = bs.DblRecorder(x, y, rets)
        self.late.set(rec)
        C = user_C(inp)
        cc = bc.CustomCorrelations(C)
        kw = {"time_2": t2} if shape == "rectangle" else {}
        out = cc.correlation_2d_integral(d, t1, shape=shape, epsrel=2.0 ** -20, **kw)
        obs = [Ob.holds("two dblquad calls (real, imaginary part)", len(rec.calls) == 2)]
        hi = {"square": d, "upper-triangle": x - t1, "rectangle": d}[shape]
        b = t2 if shape == "rectangle" else t1 + d
        cxy = C(x - y)
        for i, part in ((0, re_), (1, im_)):
            cl = rec.calls[i]
            obs += [Ob.eq("call %d: outer lower limit t1" % i, cl["a"], t1),
                    Ob.eq("call %d: outer upper limit" % i, cl["b"], b),
                    Ob.eq("call %d: inner lower limit 0" % i, cl["g"], 0 * d),
                    Ob.eq("call %d: inner upper limit" % i, cl["h"], hi),
                    Ob.eq("call %d: integrand is C(t'-t'')" % i, cl["f"], part(inp, cxy)),
                    Ob.holds("call %d: epsrel forwarded" % i, cl["epsrel"] == 2.0 ** -20)]
        obs.append(Ob.eq("result = real + i imag", out, rets[0] + 1j * rets[1]))
        obs.append(Ob.eq("correlation() is the user function", cc.correlation(x), C(x)))
        return obs


# --------------------------------------------------------------------------
# H3  integrand algebra
# --------------------------------------------------------------------------
_JF = z3.Function("j_user", R, R)


def user_j(inp):
    """real-valued user spectral density without cutoff"""
    if inp.mode == "sym":
        return lambda w: S(_JF(zr(S.of(w).re)))
    return lambda w: w * w * Fr(3, 4) + w * Fr(1, 2)


class H3(Case):
    functions = ("bath_correlations.CustomSD.correlation", "bath_correlations.CustomSD.eta_function",
                 "bath_correlations._complex_integral", "bath_correlations.CustomSD.__init__", "_exponential_cutoff",
                 "_gaussian_cutoff", "_hard_cutoff")
    stubs = ("integrate.quad -> evaluation functional at the frequency w0 (records integrand value and limits)",
             "np.exp -> generator symbols b=e^{-w0/T} in (0,1), p=e^{w0 tau}>0, (c,s)=(cos,sin)(w0 tau) with c^2+s^2=1; "
             "cut-off exponential x=e^{-w0/wc} resp. e^{-(w0/wc)^2} in (0,1)", "user j_function -> arbitrary real value at w0",
             "np.finfo(float).eps -> exact 2^-52", "np.heaviside -> fork on the sign")
    max_paths = 64

    def __init__(self, kind, regime, w0, cutoff_type, cold=False, hot=False):
        self.kind, self.regime, self.w0, self.ct, self.cold, self.hot = kind, regime, w0, cutoff_type, cold, hot
        self.id = "H3/%s_%s_w%s_%s%s" % (kind, regime, "sym" if w0 is None else "%d" % w0, cutoff_type,
                                         "_cold" if cold else ("_hot" if hot else ""))
        self.bounds = {"kind": kind, "regime": regime, "omega": "symbolic in [1/10, 6]" if w0 is None else w0, "cutoff_type": cutoff_type}
        self.late = bs.Late()
        self.env = bs.bc_env(integrate=self.late)
        self.real_env = {bs.BC + ".integrate": self.late}

    def run(self, inp):
        mode = inp.mode
        if self.w0 is None:
            w0 = inp.real("w0", lo=Fr(1, 10), hi=6)
        else:
            w0 = float(self.w0) if mode == "real" else S(self.w0)
        mats = self.regime == "matsubara"
        zero = self.regime == "zeroT"
        wc = inp.real("wc", lo=Fr(1, 2), hi=4)
        if self.ct == "hard":
            inp.assume(wc != w0)          # value of the step function at 0 is not documented
        if zero:
            T = 0.0
        elif self.cold:
            T = inp.real("T", lo=Fr(1, 100), hi=Fr(1, 50))     # b = e^{-w0/T} < eps: overflow-guard branch
        elif self.hot:
            T = inp.real("T", lo=40, hi=80)                    # w0 T > 36 > w0/T: far on the Bose side of the guard
        else:
            T = inp.real("T", lo=Fr(1, 4), hi=4)
        if not mats:
            tau = inp.real("tau", lo=-2, hi=2, nonzero=True)  # tau = 0: eta_function(-tau) is a memo hit
        elif self.cold:
            # imaginary time in the documented domain [0, 1/T], here within 1/2 of 1/T, where the thermal
            # term e^{-w(1/T - tau)} is of order one (a counterexample replays visibly on the real code)
            tau = 1 / T - inp.real("v", lo=0, hi=Fr(1, 2))
        else:
            tau = inp.real("u", lo=Fr(1, 16), hi=1) / T       # 0 < tau <= 1/T
        pq = bs.PointQuad(w0)
        self.late.set(pq)
        G = bs.ExpGens(inp)
        one = inp.one()
        # user j-function: an arbitrary real value at the frequency under consideration
        jv = inp.real("jv")
        if self.ct == "exponential":
            G.decay("x", -(w0 / wc), -1)                     # cut-off exponentials are generators too (no UF
        elif self.ct == "gaussian":                        # in the query: pure QF_NRA)
            G.decay("x", -((w0 / wc) * (w0 / wc)), -1)
        if not zero:
            b = G.decay("b", -w0 / T, -1)                  # e^{-w0/T}
            coth = (one + b) / (one - b)                   # coth(w0/2T) = (1+b)/(1-b)
        else:
            b, coth = None, one
        if mats:
            p = G.decay("p", w0 * tau, +1)                 # e^{w0 tau} > 1
            q = one / p
            ch, sh = (p + q) / 2, (p - q) / 2
            if mode == "sym":                              # 0 <= tau <= 1/T:  e^{-w0 (1/T - tau)} = b p <= 1
                inp.assumptions.append(sym.tob(b * p <= 1))
        else:
            c, s = G.phase("a", w0 * tau)
        eps = 2.0 ** -52 if mode == "real" else S(Fr(2) ** -52)     # exact (generic float lifting would give 0)
        # the caller's tolerances: symbolic epsrel in (0, 1), non-default subdivision limits
        tol = inp.real("epsrel", lo=Fr(1, 10 ** 9), hi=Fr(1, 2))
        lim = 137
        tkw = {"epsrel": tol, "subdiv_limit": lim}
        with G:
            corr = bc.CustomSD(lambda w: jv, wc, self.ct, T)
            J = corr.spectral_density(w0)
            if self.kind == "correlation":
                out = corr.correlation(tau, matsubara=mats, **tkw) if not zero else corr.correlation(tau, **tkw)
            else:
                out = corr.eta_function(tau, matsubara=mats, **tkw) if not zero else corr.eta_function(tau, **tkw)
            calls = list(pq.calls)
            del pq.calls[:]
            if not mats:
                out_neg = corr.correlation(-tau, **tkw) if self.kind == "correlation" else corr.eta_function(-tau, **tkw)
                calls_neg = list(pq.calls)
                del pq.calls[:]
            guard = True if zero else bool(b > eps)        # consistent with the branch taken by the code
        # documented kernels -------------------------------------------------
        lemmas = []
        if self.kind == "correlation":
            if mats:
                # J[cosh(w tau) coth(w/2T) - sinh(w tau)] in its cancellation-free form (lemma below)
                doc = J * (q + b * p) / (one - b) + 0j
                doc_cs = J * (ch * coth - sh) + 0j
            else:
                doc = J * (c * coth - 1j * s)
            sign = 1
        else:
            w2 = w0 * w0
            if mats:
                doc = J / w2 * ((one + b - q - b * p) / (one - b) - w0 * tau) + 0j
                doc_cs = J / w2 * ((one - ch) * coth + sh - w0 * tau) + 0j
            else:
                doc = J / w2 * ((one - c) * coth + 1j * (s - w0 * tau))
            sign = -1          # eta_function integrates minus the kernel and flips the sign at the end
        if mats and mode != "real":     # (floating point: the cosh/sinh form cancels catastrophically for large w tau)
            lemmas.append(Ob.eq("lemma: cancellation-free form == documented cosh/sinh/coth form of the Matsubara kernel", doc, doc_cs))
        nr = 1 if self.ct == "hard" else 2
        obs = [Ob.holds("number of quad calls", len(calls) == 2 * nr)]
        # every np.exp the code evaluates must have one of the documented exponents (integer combinations of
        # -w/T, the phase resp. w tau, and the cut-off exponent): decided by the solver for the recorded arguments
        if mode == "sym" and G.failed:
            for k, x in enumerate(G.failed):
                obs.append(Ob.holds("np.exp argument #%d is an integer combination of the documented exponents" % k,
                                    sym.SB(G.combination_formula(x)), key="exp_argument"))
        else:
            obs.append(Ob.holds("every np.exp argument is an integer combination of the documented exponents", True, key="exp_argument"))
        if len(calls) != 2 * nr:
            return obs
        # every quadrature (real and imaginary part, every range) receives the caller's epsrel and subdiv_limit
        for nm, cl, L in (("", calls, lim), ("f(-tau): ", calls_neg if not mats else [], lim)):
            for i, c_ in enumerate(cl):
                part = "re" if i % 2 == 0 else "im"
                obs.append(Ob.eq("%squad call %d (%s): epsrel is the caller's epsrel" % (nm, i, part),
                                 c_["epsrel"] if c_["epsrel"] is not None else -one, tol, key="tolerances_forwarded"))
                obs.append(Ob.holds("%squad call %d (%s): limit is the caller's subdiv_limit" % (nm, i, part),
                                    c_["limit"] is not None and c_["limit"] == L, key="tolerances_forwarded"))
        # frequency ranges tile [0, inf) (hard cut-off: [0, wc], J vanishes beyond)
        obs.append(Ob.eq("first range starts at 0", calls[0]["a"], 0 * wc))
        obs.append(Ob.eq("first range ends at the cutoff", calls[0]["b"], wc))
        if nr == 2:
            obs.append(Ob.eq("second range starts at the cutoff", calls[2]["a"], wc))
            obs.append(Ob.holds("second range ends at infinity", calls[2]["b"] == float("inf")))
        for r in range(nr):
            obs.append(Ob.holds("range %d: re/im calls use the same limits" % r,
                                calls[2 * r]["a"] is calls[2 * r + 1]["a"] or calls[2 * r]["a"] == calls[2 * r + 1]["a"]))
        obs += lemmas
        gots = [sign * (calls[2 * r]["v"] + 1j * calls[2 * r + 1]["v"]) for r in range(nr)]   # kernel integrated, documented sign
        if mats:
            obs.append(Ob.eq("matsubara result is real", im_(inp, out), 0 * wc))
        if guard:
            for r in range(nr):
                obs.append(Ob.eq("range %d: integrand == documented kernel" % r, gots[r], doc))
            obs.append(Ob.eq("result == sum over ranges of the kernel functional", out, nr * doc))
        else:
            # overflow-guard branch (b = e^{-w/T} <= eps): what is integrated may differ from the DOCUMENTED
            # finite-temperature kernel only by a bounded amount (never compared with a zero-T kernel):
            #   correlation:  |doc - got| <= 4 eps |J|          real time and Matsubara with 0 <= tau <= 1/T
            #                 (|e^{-i w tau}| = 1 resp. e^{-w tau}, e^{-w(1/T - tau)} <= 1; b/(1-b) <= 2 eps)
            #   eta:          |doc - got| <= 8 eps |J| / w^2    real time      (|e^{-i w tau}| = 1)
            #                 |doc - got| <= 4 eps |J| / w^2    Matsubara, 0 <= tau <= 1/T
            tot = None
            for r in range(nr):
                tot = gots[r] if tot is None else tot + gots[r]
                diff = doc - gots[r]
                dr, di = re_(inp, diff), im_(inp, diff)
                Dr, Di = re_(inp, doc), im_(inp, doc)
                if self.kind == "correlation":
                    br = bi = 4 * eps * abs(J)
                    what = "4 eps |J|"
                else:
                    br = bi = (4 if mats else 8) * eps * abs(J) / (w0 * w0)
                    what = "%d eps |J|/w^2" % (4 if mats else 8)
                slack = 0 if mode == "sym" else 1e-9 * (1.0 + abs(complex(doc) if mode != "real" else doc))   # rounding of the concrete runs
                obs.append(Ob.holds("guard branch, range %d: |Re(documented - integrated)| <= %s" % (r, what),
                                    _within(mode, dr, br, slack), key="guard_branch_bound"))
                obs.append(Ob.holds("guard branch, range %d: |Im(documented - integrated)| <= %s" % (r, what),
                                    _within(mode, di, bi, slack), key="guard_branch_bound"))
            obs.append(Ob.holds("guard branch taken only for b <= eps", b <= eps))
            obs.append(Ob.eq("result == sum over ranges of what was integrated (documented sign)", out, tot))
        if not mats:
            for r in range(nr):
                pos = calls[2 * r]["v"] + 1j * calls[2 * r + 1]["v"]
                neg = calls_neg[2 * r]["v"] + 1j * calls_neg[2 * r + 1]["v"]
                obs.append(Ob.eq("range %d: kernel(-tau) == conj kernel(tau)" % r, neg, _conj(inp, pos)))
            obs.append(Ob.eq("f(-tau) == conj f(tau)", out_neg, _conj(inp, out)))
        return obs


class H3tol(Case):
    """the documented tolerances reach every quadrature: correlation(), eta_function() and the three shapes of
    correlation_2d_integral() called with a symbolic epsrel in (0,1) and non-default subdiv_limit values;
    every recorded integrate.quad call (real and imaginary part, every frequency range) must carry exactly them."""
    functions = ("bath_correlations.CustomSD.correlation", "bath_correlations.CustomSD.eta_function",
                 "bath_correlations.CustomSD.correlation_2d_integral", "bath_correlations._complex_integral")
    stubs = ("integrate.quad -> evaluation functional at one frequency, records epsrel/limit of every call", "np.exp -> uninterpreted")
    max_paths = 256

    def __init__(self, cls, ct, thermal):
        self.cls, self.ct, self.thermal = cls, ct, thermal
        self.id = "H3/tolerances_%s_%s_%s" % (cls, ct, "thermal" if thermal else "zeroT")
        self.bounds = {"class": cls, "cutoff_type": ct, "thermal": thermal, "epsrel": "symbolic in (0,1)", "subdiv_limit": [137, 733, 29]}
        self.late = bs.Late()
        self.env = bs.bc_env(integrate=self.late)
        self.real_env = {bs.BC + ".integrate": self.late}

    def run(self, inp):
        mode = inp.mode
        w0 = inp.real("w0", lo=Fr(1, 2), hi=2)
        wc = inp.real("wc", lo=3, hi=4)
        al = inp.real("al", lo=Fr(1, 4), hi=1)
        T = inp.real("T", lo=Fr(1, 2), hi=2) if self.thermal else 0.0
        tau = inp.real("tau", lo=Fr(1, 2), hi=1)
        d = inp.real("d", lo=Fr(1, 8), hi=Fr(1, 4))
        tol = inp.real("epsrel", lo=Fr(1, 10 ** 9), hi=Fr(1, 2))
        pq = bs.PointQuad(w0)
        self.late.set(pq)
        if self.cls == "pl":
            corr = bc.PowerLawSD(al, 1, wc if mode == "real" else bs.sp(wc), self.ct, T)
        else:
            corr = bc.CustomSD(lambda w: al * w, wc, self.ct, T)
        nr = 1 if self.ct == "hard" else 2
        plan = [("correlation", lambda L: corr.correlation(tau, epsrel=tol, subdiv_limit=L), 137, 1),
                ("eta_function", lambda L: corr.eta_function(tau, epsrel=tol, subdiv_limit=L), 733, 1),
                ("2d upper-triangle", lambda L: corr.correlation_2d_integral(d, 0.0, shape="upper-triangle", epsrel=tol, subdiv_limit=L), 29, 2),
                ("2d square", lambda L: corr.correlation_2d_integral(d, tau, shape="square", epsrel=tol, subdiv_limit=L), 137, 3),
                ("2d rectangle", lambda L: corr.correlation_2d_integral(d, tau, time_2=tau + 2 * d, shape="rectangle", epsrel=tol, subdiv_limit=L),
                 733, 4)]
        obs = []
        for name, fn, L, neta in plan:
            del pq.calls[:]
            fn(L)
            cl = list(pq.calls)
            obs.append(Ob.holds("%s: number of quadratures (eta evaluations x ranges x re/im)" % name, len(cl) == neta * nr * 2,
                                key="tolerances_forwarded"))
            for i, c_ in enumerate(cl):
                part = "re" if i % 2 == 0 else "im"
                obs.append(Ob.eq("%s: quad call %d (%s) gets the caller's epsrel" % (name, i, part),
                                 c_["epsrel"] if c_["epsrel"] is not None else -inp.one(), tol, key="tolerances_forwarded"))
                obs.append(Ob.holds("%s: quad call %d (%s) gets the caller's subdiv_limit" % (name, i, part),
                                    c_["limit"] is not None and c_["limit"] == L, key="tolerances_forwarded"))
        return obs


def _within(mode, x, bound, slack):
    """|x| <= bound (+ slack for the rounding of concrete runs)"""
    if mode == "sym":
        return (x <= bound) & (x >= -bound)
    return abs(float(x)) <= float(bound) + slack


def _conj(inp, x):
    if inp.mode == "real":
        return np.conj(x)
    return S.of(x).conjugate_()


# --------------------------------------------------------------------------
# H4  PowerLawSD
# --------------------------------------------------------------------------
def doc_cutoff(inp, ct, w, wc):
    """documented X(w, wc): Theta(wc - w) / exp(-w/wc) / exp(-w^2/wc^2)"""
    if ct == "exponential":
        return bs.m_exp(inp, -(w / wc))
    if ct == "gaussian":
        return bs.m_exp(inp, -((w * w) / (wc * wc)))
    return inp.one() if w < wc else inp.zero()       # forks; w != wc assumed


class H4a(Case):
    functions = ("bath_correlations.PowerLawSD.__init__", "bath_correlations.CustomSD.spectral_density")
    stubs = ("np.exp of the cut-off -> uninterpreted (congruence)", "np.heaviside -> fork on the sign")

    def __init__(self, zeta, ct):
        self.zeta, self.ct = zeta, ct
        self.id = "H4a/jfunction_zeta%d_%s" % (zeta, ct)
        self.bounds = {"zeta": zeta, "cutoff_type": ct}
        self.env = bs.bc_env()

    def run(self, inp):
        z = self.zeta
        al = inp.real("al", lo=0, hi=2)
        wc = inp.real("wc", lo=Fr(1, 2), hi=4)
        w = inp.real("w", lo=Fr(1, 10), hi=6)
        if self.ct == "hard":
            inp.assume(w != wc)
        wcp = bs.sp(wc) if inp.mode != "real" else wc
        corr = bc.PowerLawSD(al, z, wcp, self.ct, 0.0)
        got = corr.spectral_density(w)
        one = inp.one()
        wz, wcz = one, one
        for _ in range(z):
            wz = wz * w
        for _ in range(z - 1):
            wcz = wcz * wc
        exp = 2 * al * wz / wcz * doc_cutoff(inp, self.ct, w, wc)
        return [Ob.eq("J(w) == 2 alpha w^zeta wc^(1-zeta) X(w,wc)", got, exp),
                Ob.eq("j_function(w) == 2 alpha w^zeta wc^(1-zeta)", corr.j_function(w), 2 * al * wz / wcz)]


class H4b(Case):
    """a CustomSD given the same j-function produces the same integrands and results"""
    functions = ("bath_correlations.PowerLawSD.__init__", "bath_correlations.CustomSD.correlation",
                 "bath_correlations.CustomSD.eta_function")
    stubs = ("integrate.quad -> evaluation functional at a symbolic frequency", "np.exp -> uninterpreted (congruence)")
    max_paths = 64

    def __init__(self, zeta, ct, thermal):
        self.zeta, self.ct, self.thermal = zeta, ct, thermal
        self.id = "H4b/custom_eq_powerlaw_zeta%d_%s_%s" % (zeta, ct, "thermal" if thermal else "zeroT")
        self.bounds = {"zeta": zeta, "cutoff_type": ct, "thermal": thermal}
        self.late = bs.Late()
        self.env = bs.bc_env(integrate=self.late)
        self.real_env = {bs.BC + ".integrate": self.late}

    def run(self, inp):
        z = self.zeta
        al = inp.real("al", lo=Fr(1, 10), hi=2)
        wc = inp.real("wc", lo=Fr(1, 2), hi=4)
        w = inp.real("w", lo=Fr(1, 10), hi=6)
        tau = inp.real("tau", lo=-2, hi=2)
        T = inp.real("T", lo=Fr(1, 4), hi=4) if self.thermal else 0.0
        if self.ct == "hard":
            inp.assume(w != wc)
        wcp = bs.sp(wc) if inp.mode != "real" else wc
        one = inp.one()

        def j(x):
            xz, wcz = one, one
            for _ in range(z):
                xz = xz * x
            for _ in range(z - 1):
                wcz = wcz * wc
            return 2 * al * xz / wcz
        obs = []
        outs = []
        for mk in (lambda: bc.PowerLawSD(al, z, wcp, self.ct, T), lambda: bc.CustomSD(j, wc, self.ct, T)):
            pq = bs.PointQuad(w)
            self.late.set(pq)
            corr = mk()
            r = [corr.correlation(tau), corr.eta_function(tau), corr.correlation_2d_integral(Fr(1, 4) * one if inp.mode != "real" else 0.25, tau)]
            outs.append((r, [cl["v"] for cl in pq.calls], [(cl["a"], cl["b"]) for cl in pq.calls]))
        (ra, va, la), (rb, vb, lb) = outs
        obs.append(Ob.holds("same number of quad calls", len(va) == len(vb)))
        for i in range(min(len(va), len(vb))):
            obs.append(Ob.eq("integrand %d equal" % i, va[i], vb[i]))
        for nm, x, y in zip(("correlation", "eta_function", "correlation_2d_integral"), ra, rb):
            obs.append(Ob.eq("%s equal" % nm, x, y))
        return obs


# --------------------------------------------------------------------------
# H5  shapes of CustomSD == documented double integrals for polynomial C
# --------------------------------------------------------------------------
class _PolyEtaSD(bc.CustomSD):
    def eta_function(self, tau, epsrel=INTEGRATE_EPSREL, subdiv_limit=SUBDIV_LIMIT, matsubara=False):
        # E(tau) = int_0^tau (tau - s) C(s) ds  for  C(s) = sum_k c_k s^k
        t = S.of(tau)
        out = S(0)
        for k, ck in enumerate(self._ck):
            out = out + ck * t ** (k + 2) / ((k + 1) * (k + 2))
        return out


def _doc_integral(ck, a, b, lo, hi_kind, hi, t1):
    """int_a^b dt' int_lo^{hi(t')} dt'' C(t'-t'') for C = sum c_k s^k, by antiderivatives (lo = 0):
    inner = [(t'-lo)^{k+1} - (t'-hi)^{k+1}]/(k+1)."""
    out = 0
    for k, c in enumerate(ck):
        def P(u, m):
            r = 1
            for _ in range(m):
                r = r * u
            return r
        first = (P(b - lo, k + 2) - P(a - lo, k + 2)) / (k + 2)
        if hi_kind == "const":
            second = (P(b - hi, k + 2) - P(a - hi, k + 2)) / (k + 2)
        else:   # hi(t') = t' - t1  ->  t' - hi = t1 (constant)
            second = P(t1, k + 1) * (b - a)
        out = out + c * (first - second) / (k + 1)
    return out


class H5(Case):
    """documented region of each shape (see H2) vs the real CustomSD shape algebra, for the family of
    polynomial correlation functions C(s)=c0+c1 s+c2 s^2 (complex symbolic coefficients), with
    eta(tau) = int_0^tau (tau-s) C(s) ds (double time integral, H3 + calculus).
    Real mode: untouched PowerLawSD vs a Gauss-Legendre rule of its own correlation() over the documented region."""
    functions = _H1_FUN
    stubs = ("CustomSD.eta_function -> exact double time integral of a symbolic polynomial correlation function",)
    tol = 1e-5
    validate = True

    def __init__(self, shape, offset):
        self.shape, self.offset = shape, offset
        self.id = "H5/doc_region_%s_%s" % (shape, "t1free" if offset else "t1zero")
        self.bounds = {"shape": shape, "time_1": "symbolic" if offset else 0, "C": "polynomial degree<=2"}
        self.env = bs.bc_env()

    def run(self, inp):
        shape = self.shape
        d = inp.real("d", lo=Fr(1, 4), hi=1)
        t1 = inp.real("t1", lo=Fr(1, 2), hi=2) if self.offset else (0.0 if inp.mode == "real" else S(0))
        t2 = t1 + inp.real("u", lo=Fr(1, 4), hi=1)
        kw = {"time_2": t2} if shape == "rectangle" else {}
        b = t2 if shape == "rectangle" else t1 + d
        if inp.mode == "real":
            c = bc.PowerLawSD(alpha=0.3, zeta=1.0, cutoff=2.0, cutoff_type="exponential", temperature=0.7)
            got = c.correlation_2d_integral(d, t1, shape=shape, **kw)
            hi = (lambda x: x - t1) if shape == "upper-triangle" else (lambda x: d)
            # tensor Gauss-Legendre rule over the documented region (smooth integrand; replay/validation only)
            xs, ws = np.polynomial.legendre.leggauss(10)
            exp = 0.0
            for xi, wi in zip(xs, ws):
                x = 0.5 * (b - t1) * xi + 0.5 * (b + t1)
                h = hi(x)
                for yj, wj in zip(xs, ws):
                    y = 0.5 * h * yj + 0.5 * h
                    exp = exp + wi * wj * 0.25 * (b - t1) * h * c.correlation(x - y)
        else:
            ck = [inp.cplx("c%d" % k) for k in range(3)]
            c = _PolyEtaSD(lambda w: w, cutoff=1.0, cutoff_type="exponential", temperature=0.5)
            c._ck = ck
            got = c.correlation_2d_integral(d, t1, shape=shape, **kw)
            exp = _doc_integral(ck, t1, b, 0, "tri" if shape == "upper-triangle" else "const", d, t1)
        return [Ob.eq("%s == documented double integral" % shape, got, exp)]


# --------------------------------------------------------------------------
def cases(tier):
    th = tier == "thorough"
    cs = [H1a(False), H1a(True), H1b(), H1e()]
    cs += [H1c(n) for n in range(1, 7 if not th else 9)]
    for K in ((1, 2, None) if not th else (1, 2, 3, None)):
        for ta in (False, True):
            if K is None and ta:
                continue
            top = (K or 2) + (3 if not th else 4)
            cs += [H1d(K, n, ta) for n in range(1, top + 1)]
    cs += [H2(s) for s in ("square", "upper-triangle", "rectangle")]
    kinds = ("correlation", "eta")
    if th:
        combos = [(w0, ct) for w0 in (1, 2) for ct in ("exponential", "gaussian", "hard")]
    else:
        combos = [(1, "exponential"), (2, "exponential"), (2, "hard"), (1, "gaussian")]
    for kind in kinds:
        for regime in ("zeroT", "thermal", "matsubara"):
            for w0, ct in combos:
                cs.append(H3(kind, regime, w0, ct))
        cs.append(H3(kind, "thermal", 2, "exponential", hot=True))
        cs.append(H3(kind, "matsubara", 1, "exponential", hot=True))
        cs.append(H3(kind, "thermal", 2, "exponential", cold=True))
        cs.append(H3(kind, "matsubara", 1, "exponential", cold=True))
    cs += [H3tol("sd", "exponential", True), H3tol("pl", "hard", False)]
    if th:
        cs += [H3tol("pl", "gaussian", True), H3tol("sd", "hard", True), H3tol("pl", "exponential", False)]
    if th:
        for kind in kinds:
            for regime in ("zeroT", "thermal", "matsubara"):
                for ct in ("exponential", "gaussian", "hard"):
                    cs.append(H3(kind, regime, None, ct))
    else:
        cs += [H3("correlation", "thermal", None, "exponential"), H3("eta", "thermal", None, "exponential")]
    for z in (1, 2, 3):
        for ct in (("exponential", "gaussian", "hard") if th or z == 2 else ("exponential",)):
            cs.append(H4a(z, ct))
    cs += [H4b(1, "exponential", True), H4b(3, "exponential", False), H4b(2, "hard", True)]
    if th:
        cs += [H4b(2, "gaussian", True), H4b(3, "hard", False), H4b(1, "gaussian", False)]
    for shape in ("square", "rectangle", "upper-triangle"):
        cs.append(H5(shape, False))
        cs.append(H5(shape, True))
    return cs
