"""C02 -- TEMPO and PT-TEMPO + compute_dynamics produce the same dynamics.

H1a real TempoBackend vs real PtTempoBackend + compute_caps + compute_dynamics on free
    symbolic influences (trace structure by construction), trace-preserving symbolic
    propagators (distinct per step = time dependent, non-unitary = Lindblad type):
    equality of the state at EVERY step; memory settings K in {None,1,2,3}, with and
    without add_correlation_time.
H1b the same through the real Tempo._influence / PtTempo._influence /
    influence_matrix with a symbolic-eta correlations stub and the real Bath degeneracy
    maps, unique in {False, True}.
H2  prefix: compute_dynamics(num_steps=n) on a length-N process tensor == dynamics of the
    process tensor built for exactly n steps.
"""
import numpy as np

import oqupy
import oqupy.system_dynamics as sd

from vf.core import Case, Ob
from vf import lib
from vf import physical as ph

ASSUMPTIONS = [
    "exact arithmetic, SVD without truncation (epsrel -> 0): 'agreement tightens with the tolerance' is outside the claim",
    "influence matrices have the trace structure proved separately in C01/H2(c); R_1 is tied to I_K (C12/H1(a))",
    "propagators are trace preserving (by construction: dependent entries eliminated)",
]
STUBS = ("tensornetwork numpy backend svd -> exact non-truncating factorisation M = M.1.I",
         "System.get_propagators -> symbolic half-step propagators")
FUNCS = ("TempoBackend.initialize", "TempoBackend.compute_step", "BaseTempoBackend.initialize_mps_mpo",
         "BaseTempoBackend.compute_system_step", "PtTempoBackend.initialize", "PtTempoBackend.compute_step",
         "PtTempoBackend.update_process_tensor", "SimpleProcessTensor.compute_caps", "system_dynamics.compute_dynamics",
         "NodeArray.zip_up/contract/svd_sweep/split/join/apply_vector")


class H1a(Case):
    functions, stubs = FUNCS, STUBS
    env = {"noconj": True}

    def __init__(self, N, K, tau, d=2):
        self.N, self.K, self.tau, self.d = N, K, tau, d
        self.id = "H1a/N%d_K%s_%s%s" % (N, K, "tau" if tau else "notau", "" if d == 2 else "_d%d" % d)
        self.bounds = {"d": d, "N": N, "dkmax": K, "add_correlation_time": tau}
        self.timeout_s = 600

    def run(self, inp):
        d, N, K = self.d, self.N, self.K
        infl = lib.Influences(inp, d, K, tau_add=self.tau)
        P1 = [lib.tp_prop(inp, "p%d" % k, d) for k in range(N)]
        P2 = [lib.tp_prop(inp, "q%d" % k, d) for k in range(N)]
        rho0 = inp.arr("r", (d * d,))
        ts = lib.run_tempo(inp, rho0, infl, P1, P2, N, K, d)
        pt = lib.run_pt_tempo(inp, infl, N, K, d)
        dyn = sd.compute_dynamics(lib.FakeSystem(d, P1, P2), initial_state=rho0.reshape(d, d),
                                  process_tensor=pt, progress_type="silent")
        st = lib.dynamics_states(dyn)
        obs = [Ob.holds("same number of states", len(st) == len(ts))]
        for n in range(N + 1):
            obs.append(Ob.eq("step %d" % n, ts[n].reshape(d, d), st[n]))
        return obs


class H1b(Case):
    functions = FUNCS + ("Tempo.__init__", "Tempo.compute", "PtTempo.__init__", "PtTempo.get_process_tensor", "Tempo._influence", "PtTempo._influence", "tempo.influence_matrix", "Bath.__init__", "bath._row_degeneracy")
    stubs = STUBS + ("correlations.correlation_2d_integral -> one complex symbol per requested (shape, time_1, time_2)",
                     "np.exp on symbolic arguments -> atoms identified by syntactic equality of the simplified argument (congruence only)")
    env = {"np_proxy_modules": ("oqupy.tempo",)}

    def __init__(self, N, K, tau, unique, coupling, layout="C"):
        self.N, self.K, self.tau, self.unique, self.coupling, self.layout = N, K, tau, unique, coupling, layout
        self.id = "H1b/%s_N%d_K%s_%s_%s%s" % (coupling, N, K, "tau" if tau else "notau", "unique" if unique else "full",
                                              "" if layout == "C" else "_layout" + layout)
        self.bounds = {"d": 2, "N": N, "dkmax": K, "add_correlation_time": tau, "unique": unique, "coupling": coupling,
                       "initial_state_layout": layout}
        self.timeout_s = 600

    def run(self, inp):
        d, N, K = 2, self.N, self.K
        dt = 0.5                       # N*dt/dt exact in binary: keeps C13's step-count rounding out of C02
        corr = ph.SymCorrelations(inp)
        bath = ph.bath_for(self.coupling, corr)
        params = ph.parameters(dt, K, 0.25 if self.tau else None)
        P1 = [lib.tp_prop(inp, "p%d" % k, d) for k in range(N)]
        P2 = [lib.tp_prop(inp, "q%d" % k, d) for k in range(N)]
        rho0 = inp.arr("r", (d, d))
        if self.layout == "F":         # column-major copy of the same matrix: both methods must read it as the same state
            rho0 = np.asfortranarray(rho0)
        t0 = 1.5                       # non-zero start time (exact in binary)
        sys_a, sys_b = lib.FakeSystem(d, P1, P2), lib.FakeSystem(d, P1, P2)
        times, ts, _ = ph.tempo_states(bath, params, sys_a, rho0, N, start_time=t0, unique=self.unique)
        pt, _ = ph.pt_tempo_process_tensor(bath, params, N, start_time=t0, unique=self.unique)
        dyn = sd.compute_dynamics(sys_b, initial_state=rho0, process_tensor=pt, start_time=t0, progress_type="silent")
        st = lib.dynamics_states(dyn)
        obs = [Ob.holds("N+1 states from both", len(st) == N + 1 and len(ts) == N + 1),
               Ob.holds("both methods ask the system for propagators with the same (dt, start_time) = (%s, %s): %s vs %s"
                        % (dt, t0, sys_a.calls, sys_b.calls), sys_a.calls == [(dt, t0)] and sys_b.calls == [(dt, t0)],
                        key="system receives dt and start_time"),
               Ob.holds("with the default TempoParameters / compute_dynamics arguments both methods ask the system for propagators "
                        "with the same integration settings (subdiv_limit, epsrel): %s vs %s" % (sys_a.calls_full, sys_b.calls_full),
                        sys_a.calls_full == sys_b.calls_full, key="same propagator integration settings"),
               Ob.holds("same time labels", list(times) == list(dyn._times) and list(times) == [t0 + k * dt for k in range(N + 1)],
                        key="time labels")]
        obs += [Ob.eq("step %d" % n, ts[n], st[n]) for n in range(N + 1)]
        return obs


class H2(Case):
    functions, stubs = FUNCS, STUBS
    env = {"noconj": True}

    def __init__(self, N, n, K, tau=False):
        self.N, self.n, self.K, self.tau = N, n, K, tau
        self.id = "H2/prefix_N%d_n%d_K%s%s" % (N, n, K, "_tau" if tau else "")
        self.bounds = {"d": 2, "N": N, "n": n, "dkmax": K, "add_correlation_time": tau}
        self.timeout_s = 600

    def run(self, inp):
        d, N, n, K = 2, self.N, self.n, self.K
        infl = lib.Influences(inp, d, K, tau_add=self.tau)
        P1 = [lib.tp_prop(inp, "p%d" % k, d) for k in range(N)]
        P2 = [lib.tp_prop(inp, "q%d" % k, d) for k in range(N)]
        rho0 = inp.arr("r", (d, d))
        ptN = lib.run_pt_tempo(inp, infl, N, K, d)
        ptn = lib.run_pt_tempo(inp, infl, n, K, d)
        a = lib.dynamics_states(sd.compute_dynamics(lib.FakeSystem(d, P1, P2), initial_state=rho0, process_tensor=ptN,
                                                    num_steps=n, progress_type="silent"))
        b = lib.dynamics_states(sd.compute_dynamics(lib.FakeSystem(d, P1, P2), initial_state=rho0, process_tensor=ptn,
                                                    progress_type="silent"))
        obs = [Ob.holds("n+1 states", len(a) == n + 1 and len(b) == n + 1)]
        obs += [Ob.eq("step %d" % k, a[k], b[k]) for k in range(n + 1)]
        return obs


def cases(tier):
    cs = []
    for N in (2, 3):
        for K in (None, 1, 2):
            for tau in (False, True):
                if K is None and tau:
                    continue
                cs.append(H1a(N, K, tau))
    cs += [H1a(4, 1, True), H1a(4, 2, False), H1a(4, None, False)]
    for unique in (False, True):
        cs += [H1b(3, 1, True, unique, "sz"), H1b(3, None, False, unique, "sz"), H1b(2, 1, False, unique, "id"),
               H1b(2, 1, False, unique, "syz")]
    cs += [H1b(2, 1, False, False, "sz", layout="F"), H1b(2, None, False, True, "syz", layout="F")]
    cs += [H2(3, 2, None), H2(3, 2, 1, True), H2(4, 2, 1), H2(4, 3, 2)]
    if tier == "thorough":
        # (N=5 does not finish within the per-case limits: z3 returns unknown on the step-5 identity;
        #  N<=4 is the stated bound)
        cs += [H1a(4, 2, True), H1a(4, 3, False), H1a(4, 1, False), H1a(4, 3, True),
               H1a(2, None, False, d=3), H1a(2, 1, True, d=3)]
        for unique in (False, True):
            cs += [H1b(4, 2, True, unique, "sz"), H1b(4, None, False, unique, "sz"), H1b(2, 1, False, unique, "sx")]
            cs += [H1b(2, 1, True, unique, "syz"), H1b(3, None, False, unique, "half"), H1b(4, 1, True, unique, "sz")]
        cs += [H2(4, 2, 2, True), H2(4, 3, 1, True), H2(4, 3, None), H2(4, 2, None), H2(4, 2, 3, True), H1a(2, 2, True, d=3)]
    return cs
