"""C17 -- an interrupted process-tensor file is never mistaken for a complete one; modes
write/overwrite/read; remove().   (model-level: the HDF5 library is the validated stand-in)

Crash model (assumption, the reader's worst case): a killed writer leaves exactly the effects
of the file operations completed before the crash point, and no close().

V0  stand-in vs. real h5py on the scripted operation sequence (every run; disagreement -> exit 2)
H1  the REAL writer (SimpleProcessTensor.export, or a file-backed PT-TEMPO run: FileProcessTensor
    creation, PtTempoBackend.update_process_tensor incl. compute_caps, close) runs through an
    operation recorder; a symbolic crash index k (z3 Int, every feasible value is a path) stops
    it before file operation k; the surviving file is re-opened with the real
    import_process_tensor:
      part 'writing_flag': k <= index of the operation that ends the writing phase (reset of
          attrs['writing'], else close): opening must raise or warn "may be corrupt";
      part 'clean': all later k (up to the normally closed file): opens, no such warning,
          complete content (same symbols as written).
    In real mode (validation, replay) the writer runs on the REAL h5py in a forked child that
    is killed (flush + os._exit, no close) before operation k.
      part 'exception': the second way a writer dies: file operation k (symbolic, after the file
          creation) RAISES (disk-full OSError / KeyboardInterrupt / MemoryError) instead of being
          performed; the exception unwinds through the real code's try/finally/except/with
          handlers (a close() in a finally does run and takes effect), then the process ends;
          re-opening must raise or warn unless the content is complete.
      '_anyversion' cases: symbolic 3-way choice of the file's oqupy_version attribute (running
          version / another version / attribute missing); the version warning is not a corruption
          warning.  '_nocaps' cases: export() of a process tensor whose caps were never set.
      'manual_*_relabel' cases: hand-driven FileProcessTensor write sequence (write/overwrite mode)
          in which pt.name / pt.description are assigned to the OPEN file at a symbolic position
          between the tensor writes (name / description / both per case); '_relabel'
          PT-TEMPO cases: symbolic Bool, relabelled right after creation.
H2  symbolic mode in {read, write, overwrite} x file exists/missing x filename given/None:
    'write' never replaces an existing file; remove() only for temporary / overwrite objects,
    never in read mode; untouched files keep their content.
H3  export(filename, overwrite) x exists.
H2b anonymous temporary files whose generated name may collide with an existing file (tempfile
    candidate names stubbed as an arbitrary choice, symbolic Bool 'collides').
H3c the shortcut oqupy.pt_tempo_compute x unique x overwrite x exists x named/temporary.
H3b the PT-TEMPO entry point (real PtTempo.__init__ / _init_file_process_tensor) x overwrite x
    exists x named/temporary.
"""
import os
import warnings

import numpy as np
import z3

import oqupy.process_tensor as ptm
from oqupy.backends.pt_tempo_backend import PtTempoBackend

from vf import core, h5stub, lib, sym
from vf.core import Case, Ob
from vf.env import patched
from vf.sym import SB
from checks.c03 import build_pt
from checks.c16 import Workspace, compare, concretise_frac, work_around_known_initial_tensor_defect, ENV, ENV_PT, PtTempoShell

ASSUMPTIONS = [
    "fault model 2: a mutating file operation raises (OSError disk full / KeyboardInterrupt / MemoryError) instead of being "
    "performed; the exception unwinds through the real code (handlers run and their file operations take effect); afterwards "
    "the process ends and what is still open is flushed but not close()d by OQuPy",
    "crash model: a killed writer leaves exactly the effects of the file operations (create/truncate, attribute set, "
    "create_dataset, resize, item assignment) completed before the crash point and no close(); real partial writes, "
    "HDF5 metadata caching/journaling are outside the claim (a file that cannot be opened satisfies the property trivially)",
    "the HDF5 library is modelled by the in-memory stand-in vf/h5stub.py, validated against the real h5py on a scripted "
    "operation sequence at the start of every run; every harness is also run on the real h5py (forked writer killed by "
    "os._exit after flush) at seeded points and for every reported counterexample",
    "exact real/complex arithmetic for tensor contents",
]

MODES = ("read", "write", "overwrite")


def implies(a, b):
    """a -> b for python bools / SB"""
    if isinstance(a, SB) or isinstance(b, SB):
        return SB(z3.Implies(sym.tob(a), sym.tob(b)))
    return (not a) or bool(b)


def read_back(fn, kind):
    """re-open with the real import_process_tensor -> dict(obj | raised, warnings, corrupt_warning)"""
    out = {"obj": None, "raised": None}
    with warnings.catch_warnings(record=True) as w:
        warnings.simplefilter("always")
        try:
            out["obj"] = ptm.import_process_tensor(fn, kind)
        except Exception as e:  # noqa  (any failure to open counts as "fails")
            out["raised"] = e.with_traceback(None)      # do not keep the half-built object (and its file handle) alive
    out["warnings"] = [str(x.message) for x in w if issubclass(x.category, UserWarning)]
    out["corrupt_warning"] = any("corrupt" in m for m in out["warnings"])
    return out


def close_quietly(obj):
    if isinstance(obj, ptm.FileProcessTensor):
        try:
            obj.close()
        except Exception:  # noqa
            pass


def kind_is_none(kind, k):
    return kind is None


def run_writer(ws, writer, fn, crash_at, fault=None, attr_map=None):
    """runs writer(fn) through an operation recorder.  -> (ops, outcome), outcome in
    'completed' | 'killed' | 'raised'.
    fault None : the writer is killed before operation crash_at (stand-in: the open handle is
                 abandoned; real h5py: forked child, flush + os._exit, no close()).
    fault name : operation crash_at raises that exception instead of being performed; it unwinds
                 through the real code (handlers run, their file operations take effect); then the
                 process ends: whatever is still open is abandoned (stand-in) / flushed and the
                 child exits (real h5py; same as the HDF5-level close at interpreter exit)."""
    factory = h5stub.FAULTS[fault] if fault else None
    if ws.real and crash_at is not None:
        import h5py
        pid = os.fork()
        if pid == 0:
            code = 3
            try:
                rec = h5stub.OpRecorder(h5py, crash_at, None if factory else h5stub.real_crash, fault=factory, attr_map=attr_map)
                try:
                    with patched({"oqupy.process_tensor.h5py": rec}):
                        writer(fn)
                    h5stub.flush_open(rec)      # normal return: a file the writer left open is released
                    code = 0                    # by the HDF5 library at interpreter exit, not by OQuPy
                except BaseException:  # noqa
                    if factory and rec.fired:
                        h5stub.flush_open(rec)
                        code = 18
            except BaseException:  # noqa
                code = 3
            finally:
                os._exit(code)
        _, status = os.waitpid(pid, 0)
        code = os.waitstatus_to_exitcode(status)
        if code not in (0, 17, 18):
            raise RuntimeError("writer child process failed (exit code %s)" % code)
        return None, {0: "completed", 17: "killed", 18: "raised"}[code]
    rec = h5stub.OpRecorder(ptm.h5py, crash_at, None if (ws.real or factory) else h5stub.stub_crash, fault=factory, attr_map=attr_map)
    outcome = "completed"
    with patched({"oqupy.process_tensor.h5py": rec}):
        try:
            writer(fn)
        except h5stub.Crash:
            outcome = "killed"
        except (sym.Abort, sym.Inconclusive, sym.SymbolicBranch, h5stub.StubLimit):
            raise
        except BaseException:  # noqa
            if not (factory and rec.fired):
                raise
            outcome = "raised"
    if ws.real:
        h5stub.flush_open(rec)
        for f in rec.files:          # a file the writer returned without closing: released at the
            try:                     # HDF5 level (as when the object is dropped), no OQuPy close()
                f.close()
            except Exception:  # noqa
                pass
    elif factory or outcome == "completed":
        h5stub.abandon_all()       # the process ends / the objects are dropped; nothing else happens to the file
    return rec.ops, outcome


def describe(ops, k):
    if k >= len(ops):
        return "after the last operation (closed normally)"
    return "before operation %d of %d: %s" % (k, len(ops), (ops[k],))


class H1(Case):
    functions = ("SimpleProcessTensor.export", "FileProcessTensor.__init__", "FileProcessTensor._create_file",
                 "FileProcessTensor._read_file", "FileProcessTensor.close", "FileProcessTensor.set_*", "FileProcessTensor.compute_caps",
                 "_set_data_and_shape", "_get_data_and_shape", "import_process_tensor", "PtTempoBackend.update_process_tensor")
    stubs = h5stub.STUB_TEXT + ("tensornetwork numpy backend svd -> exact non-truncating factorisation",)
    assumptions = ("crash model: effects of the completed file operations only, no close()",)
    env = ENV
    real_env = {}
    max_paths = 1500

    VERSIONS = ("written by the running version", "written by another version (oqupy_version differs)",
                "written by a version that sets no oqupy_version attribute")

    def __init__(self, part, seq, N, kind, rank=4, K=None, exc="OSError", version="same", caps=True, relabel=False, mode="write"):
        self.part, self.seq, self.N, self.kind, self.rank, self.K, self.exc = part, seq, N, kind, rank, K, exc
        self.version, self.caps, self.relabel, self.mode = version, caps, relabel, mode
        self.id = "H1/%s/%s_N%d%s_%s" % (part, seq, N, "_r%d" % rank if seq in ("export", "manual") else "_K%s" % K, kind)
        if seq == "manual":
            self.id += "_%s_relabel_%s" % (mode, relabel)   # hand-driven write sequence, open file relabelled at a symbolic position
        elif relabel:
            self.id += "_relabel"                # symbolic Bool: relabelled right after creation
        if part == "exception":
            self.id += "_" + exc
        if version == "sym":
            self.id += "_anyversion"       # symbolic 3-way choice of the file's oqupy_version attribute
        if not caps:
            self.id += "_nocaps"           # export() of a process tensor whose caps were never set
        self.bounds = {"sequence": seq, "N": N, "import_type": kind, "crash_points": "all in range of part '%s'" % part}
        self.timeout_s = 120

    # -- writers ---------------------------------------------------------------------
    def _export_writer(self, inp):
        pt, _, _ = build_pt(inp, "e", 2, self.N, 2 if self.N > 1 else 1, self.rank, True, dt=0.1)
        if not self.caps:
            full = pt
            pt = ptm.SimpleProcessTensor(hilbert_space_dimension=2, dt=0.1, transform_in=full.transform_in,
                                         transform_out=full.transform_out)
            for k in range(self.N):
                pt.set_mpo_tensor(k, full._mpo_tensors[k])
        pt.name = "exported"
        return pt, (lambda fn: pt.export(fn)), (lambda fn: pt.export(fn))

    RELABEL = ("no relabelling", "pt.name assigned", "pt.description assigned", "pt.name and pt.description assigned")

    def _manual_writer(self, inp):
        """hand-driven write sequence of a FileProcessTensor opened in write/overwrite mode: all MPO
        tensors, all caps, close(); at a symbolic position between the tensor writes (incl. before the
        first and after the last) the OPEN file is relabelled (name / description / both: per case)"""
        d, N = 2, self.N
        src, _, caps = build_pt(inp, "e", d, N, 2 if N > 1 else 1, self.rank, True, dt=0.1)
        wc = {"name": 1, "description": 2, "both": 3}[self.relabel]
        pos = inp.int("position", 0, 2 * N + 1)
        pc = int(pos)
        steps = [("mpo", k) for k in range(N)] + [("cap", k) for k in range(N + 1)]
        ref = ptm.SimpleProcessTensor(hilbert_space_dimension=d, dt=0.1, transform_in=src.transform_in, transform_out=src.transform_out,
                                      name="first name", description="first description")
        for k in range(N):
            ref.set_mpo_tensor(k, src._mpo_tensors[k])
        for k in range(N + 1):
            ref.set_cap_tensor(k, caps[k])
        if wc in (1, 3):
            ref.name = "second name"
        if wc in (2, 3):
            ref.description = "second description"
        self._relabel_info = "%s before tensor write no. %d of %d" % (self.RELABEL[wc], pc, len(steps))

        def write(fn):
            f = ptm.FileProcessTensor(mode=self.mode, filename=fn, hilbert_space_dimension=d, dt=0.1, transform_in=src.transform_in,
                                      transform_out=src.transform_out, name="first name", description="first description")
            for i, (kind, k) in enumerate(steps + [(None, None)]):
                if i == pc:
                    if wc in (1, 3):
                        f.name = "second name"
                    if wc in (2, 3):
                        f.description = "second description"
                if kind_is_none(kind, k):
                    break
                if kind == "mpo":
                    f.set_mpo_tensor(k, src._mpo_tensors[k])
                else:
                    f.set_cap_tensor(k, caps[k])
            f.close()
        return ref, write, write

    def _pt_tempo_writer(self, inp):
        d, N, K = 2, self.N, self.K
        infl = lib.Influences(inp, d, K)
        state = {}
        relabel = bool(inp.bool("relabel")) if self.relabel else False
        self._relabel_info = "file-backed process tensor relabelled after creation" if relabel else "no relabelling"

        def label(fpt):
            # the user renames the (still empty, open) file-backed process tensor of a PT-TEMPO run
            if relabel:
                fpt.description = "second description"
                fpt.name = "second name"

        def full(fn):
            # the complete file-backed PT-TEMPO run
            fpt = ptm.FileProcessTensor(mode="write", filename=fn, hilbert_space_dimension=d, dt=0.1, name="pt-tempo")
            label(fpt)
            pb = PtTempoBackend(d, infl, fpt, np.ones(d * d), np.ones(d * d), N, (K if K is not None else N), lib.EPS_REAL, {})
            pb.initialize()
            while pb.compute_step():
                pass
            pb.update_process_tensor()
            # reference content = the MPO tensors the writer itself holds before closing, and the
            # caps that belong to them (computed by the in-memory class's own compute_caps, so
            # "complete" also means: every cap is there and is the right one)
            mem = ptm.SimpleProcessTensor(hilbert_space_dimension=d, dt=0.1, name="pt-tempo")
            label(mem)
            for k in range(N):
                mem.set_mpo_tensor(k, fpt.get_mpo_tensor(k, transformed=False))
            mem.compute_caps()
            state["pb"], state["mem"] = pb, mem
            fpt.close()

        def again(fn):
            # same file-operation sequence (the tensor-network computation performs no file
            # operation): new file object, the real update_process_tensor writes into it
            fpt = ptm.FileProcessTensor(mode="write", filename=fn, hilbert_space_dimension=d, dt=0.1, name="pt-tempo")
            label(fpt)
            pb = state["pb"]
            pb._process_tensor = fpt
            pb.update_process_tensor()
            fpt.close()
        return state, full, again

    def run(self, inp):
        N = self.N
        obs = []
        with Workspace(inp) as ws:
            self._relabel_info = "no relabelling"
            if self.seq == "export":
                ref, full, again = self._export_writer(inp)
            elif self.seq == "manual":
                ref, full, again = self._manual_writer(inp)
            else:
                state, full, again = self._pt_tempo_writer(inp)
            amap, vwhat = None, self.VERSIONS[0]
            if self.version == "sym":
                ver = inp.int("version", 0, 2)
                vc = int(ver)
                amap = [None, {"oqupy_version": "0.0.0+another.version"}, {"oqupy_version": h5stub.DROP_ATTR}][vc]
                vwhat = self.VERSIONS[vc]
            self._amap, self._vwhat = amap, vwhat
            ops, outcome = run_writer(ws, full, ws.path("complete.hdf5"), None, attr_map=amap)
            if self.seq == "pt_tempo":
                ref = state["mem"]
            if outcome != "completed" or not ops:
                raise RuntimeError("dry run of the writer did not complete: %r" % (ops[-3:],))
            # L = number of file operations of the writer that returned normally.  The writing
            # phase ends with the flag reset / close(); a writer that returns without either is
            # still "completed normally" at k = L (its file is released when the object is dropped)
            L = len(ops)
            B = min(h5stub.reset_index(ops), L - 1)
            if self.part == "exception":
                return concretise_frac(inp, self._run_exception(inp, ws, ops, ref, again))
            if self.part == "writing_flag":
                k = inp.int("k", 0, B)
            else:
                k = inp.int("k", B + 1, L)
            kc = int(k)                       # symbolic: one path per feasible crash point
            fn = ws.path("crashed.hdf5")
            ops2, outcome = run_writer(ws, again, fn, kc, attr_map=amap)
            crashed = outcome == "killed"
            if crashed != (kc < L):
                raise RuntimeError("crash run inconsistent with dry run (k=%d, L=%d, crashed=%s)" % (kc, L, crashed))
            if ops2 is not None and ops2 != ops[:kc]:
                raise RuntimeError("operation sequence of the crash run differs from the dry run")
            res = read_back(fn, self.kind)
            try:
                where = describe(ops, kc) + "; file " + vwhat + "; " + self._relabel_info
                if self.part == "writing_flag":
                    detected = res["raised"] is not None or res["corrupt_warning"]
                    obs.append(Ob.holds("writer killed before the end of the writing phase: re-opening fails or warns 'may be corrupt'",
                                        implies(k <= B, detected), key="not_detected",
                                        info="writer killed %s; import_process_tensor(..., %r) %s, warnings=%r" % (
                                            where, self.kind, "raised %r" % (res["raised"],) if res["raised"] is not None
                                            else "returned an object of length %d" % len(res["obj"]), res["warnings"])))
                else:
                    opened = res["obj"] is not None
                    obs.append(Ob.holds("complete file opens", implies(k > B, opened), info=where + " / %r" % (res["raised"],)))
                    obs.append(Ob.holds("complete file: no 'may be corrupt' warning", implies(k > B, not res["corrupt_warning"]),
                                        info=where))
                    if opened:
                        work_around_known_initial_tensor_defect(ref, res["obj"])
                        obs += compare("complete file", ref, res["obj"], N)
            finally:
                close_quietly(res["obj"])
        return concretise_frac(inp, obs)


def _run_exception(self, inp, ws, ops, ref, again):
    """second way a writer dies: file operation k (symbolic, any mutating operation after the
    creation of the file) raises; the exception unwinds through the real code, then the process
    ends.  Re-opening must fail or warn unless the content is complete."""
    N, L = self.N, len(ops)
    k = inp.int("k", 1, L - 1)
    kc = int(k)
    fn = ws.path("died.hdf5")
    ops2, outcome = run_writer(ws, again, fn, kc, fault=self.exc, attr_map=self._amap)
    if ops2 is not None and ops2[:kc] != ops[:kc]:
        raise RuntimeError("operation sequence of the fault run differs from the dry run before the fault")
    res = read_back(fn, self.kind)
    obs = []
    try:
        detected = res["raised"] is not None or res["corrupt_warning"]
        opened = res["obj"] is not None
        after = None if ops2 is None else ops2[kc:]
        info = self._relabel_info + "; file " + self._vwhat + "; operation %d of %d %r raised %s; writer %s; file operations performed while unwinding: %r; import_process_tensor(..., %r) %s, warnings=%r" % (
            kc, L, ops[kc], self.exc, outcome, after, self.kind,
            "raised %r" % (res["raised"],) if not opened else "returned an object of length %s" % _len(res["obj"]), res["warnings"])
        obs.append(Ob.holds("writer died by an exception: re-opening fails, warns 'may be corrupt', or yields an object",
                            detected or opened, info=info))
        if not detected and opened:
            # opened silently: allowed only with complete content
            work_around_known_initial_tensor_defect(ref, res["obj"])
            for o in compare("writer died by an exception, file opens silently: content complete", ref, res["obj"], N):
                o.key = "silently_incomplete"
                o.info = info
                obs.append(o)
    finally:
        close_quietly(res["obj"])
    return obs


def _len(obj):
    try:
        return len(obj)
    except Exception:  # noqa
        return "?"


H1._run_exception = _run_exception


def _intact(tag, ws, fn, old, cond):
    """obligations: under `cond`, file `fn` still exists and holds the content of `old`"""
    obs = [Ob.holds(tag + ": file still exists", implies(cond, ws.exists(fn)))]
    if ws.exists(fn):
        r = read_back(fn, "simple")
        obs.append(Ob.holds(tag + ": file still opens", implies(cond, r["obj"] is not None)))
        if r["obj"] is not None:
            work_around_known_initial_tensor_defect(old, r["obj"])
            obs += compare(tag + ": content", old, r["obj"], len(old))
    return obs


class H2(Case):
    functions = ("FileProcessTensor.__init__", "FileProcessTensor._create_file", "FileProcessTensor._read_file",
                 "FileProcessTensor.remove", "FileProcessTensor.close")
    stubs = h5stub.STUB_TEXT
    env = ENV
    real_env = {}

    def __init__(self):
        self.id = "H2/modes_x_exists_x_named"
        self.bounds = {"modes": list(MODES), "exists": [True, False], "filename": ["given", None]}

    def run(self, inp):
        obs = []
        with Workspace(inp) as ws:
            m = inp.int("mode", 0, 2)
            ex = inp.bool("exists")
            named = inp.bool("named")
            mode = MODES[int(m)]
            exists = bool(ex)
            given = bool(named)
            is_read, is_write, is_over = m == 0, m == 1, m == 2
            F = ws.path("target.hdf5")
            old, _, _ = build_pt(inp, "o", 2, 2, 2, 4, False, dt=0.5)
            old.name = "old content"
            if exists:
                old.export(F)
            obj = err = None
            tmp = None
            try:
                try:
                    obj = ptm.FileProcessTensor(mode=mode, filename=F if given else None, hilbert_space_dimension=2, dt=0.1)
                    tmp = obj.filename
                except Exception as e:  # noqa
                    err = e
                created = obj is not None
                # --- creation -------------------------------------------------------------
                obs.append(Ob.holds("'write' onto an existing file is refused with FileExistsError",
                                    implies(_and(inp, is_write, ex, named), isinstance(err, FileExistsError))))
                obs.append(Ob.holds("'read' of a missing file / without file name fails",
                                    implies(_and(inp, is_read, _or(inp, _not(inp, ex), _not(inp, named))), err is not None)))
                obs.append(Ob.holds("'read' creates nothing", implies(_and(inp, is_read, _not(inp, ex)), not ws.exists(F))))
                obs.append(Ob.holds("'write'/'overwrite' without an obstacle succeed",
                                    implies(_or(inp, is_over, _and(inp, is_write, _or(inp, _not(inp, ex), _not(inp, named)))), created)))
                obs.append(Ob.holds("'read' of an existing file succeeds", implies(_and(inp, is_read, ex, named), created)))
                if created and mode != "read":
                    obs.append(Ob.holds("new file exists under the object's filename", ws.exists(obj.filename)))
                    obs.append(Ob.holds("temporary name differs from the given one", given or obj.filename != F))
                # the existing file is replaced only when overwriting it was requested
                untouched = _not(inp, _and(inp, is_over, named))
                if exists and not (mode == "overwrite" and given):
                    if created and mode == "read":
                        # content through the read-mode object itself
                        obs += compare("read-mode object", old, obj, len(old))
                    else:
                        obs += _intact("existing file not replaced", ws, F, old, untouched)
                # --- remove() -----------------------------------------------------------------
                if created:
                    target = obj.filename
                    entitled = (mode == "overwrite") or (mode == "write" and not given)
                    entitled_f = _or(inp, is_over, _and(inp, is_write, _not(inp, named)))
                    rerr = None
                    try:
                        obj.remove()
                    except Exception as e:  # noqa
                        rerr = e
                    obs.append(Ob.holds("remove() refused unless the file is a temporary or was created in overwrite mode",
                                        implies(_not(inp, entitled_f), rerr is not None and ws.exists(target))))
                    obs.append(Ob.holds("remove() never deletes in read mode", implies(is_read, rerr is not None and ws.exists(target))))
                    obs.append(Ob.holds("remove() deletes the file of an entitled object",
                                        implies(entitled_f, rerr is None and not ws.exists(target))))
                    if not entitled and mode == "read":
                        obs += _intact("after refused remove()", ws, F, old, _not(inp, entitled_f))
                    if exists and not given:
                        obs += _intact("other file after remove() of a temporary", ws, F, old, True)
                    obj = None
            finally:
                close_quietly(obj)
                if tmp is not None and tmp != F and ws.exists(tmp):
                    (os.remove if ws.real else h5stub.OS.remove)(tmp)
        return obs


def _and(inp, *xs):
    if inp.symbolic:
        return SB(z3.And(*[sym.tob(x) for x in xs]))
    return all(bool(x) for x in xs)


def _or(inp, *xs):
    if inp.symbolic:
        return SB(z3.Or(*[sym.tob(x) for x in xs]))
    return any(bool(x) for x in xs)


def _not(inp, x):
    if inp.symbolic:
        return SB(z3.Not(sym.tob(x)))
    return not bool(x)


class H3(Case):
    functions = ("SimpleProcessTensor.export", "FileProcessTensor.__init__", "FileProcessTensor._create_file")
    stubs = h5stub.STUB_TEXT
    env = ENV
    real_env = {}

    def __init__(self):
        self.id = "H3/export_overwrite_x_exists"
        self.bounds = {"overwrite": [True, False], "exists": [True, False]}

    def run(self, inp):
        obs = []
        with Workspace(inp) as ws:
            ow = inp.bool("overwrite")
            ex = inp.bool("exists")
            F = ws.path("target.hdf5")
            old, _, _ = build_pt(inp, "o", 2, 2, 2, 4, False, dt=0.5)
            new, _, _ = build_pt(inp, "n", 2, 1, 1, 3, True, dt=0.1)
            exists, overwrite = bool(ex), bool(ow)
            if exists:
                old.export(F)
            err = None
            try:
                new.export(F, overwrite=overwrite)
            except Exception as e:  # noqa
                err = e
            refused = _and(inp, ex, _not(inp, ow))
            obs.append(Ob.holds("export onto an existing file without overwrite is refused with FileExistsError",
                                implies(refused, isinstance(err, FileExistsError))))
            obs.append(Ob.holds("export succeeds otherwise", implies(_not(inp, refused), err is None)))
            if exists and not overwrite:
                obs += _intact("existing file not replaced by export", ws, F, old, refused)
            else:
                obs += _intact("exported content", ws, F, new, _not(inp, refused))
        return obs


_API = {}


def _api_objects():
    """concrete Bath / TempoParameters for the real PtTempo constructor (built once, on the real
    stack: nothing of them is symbolic, the subject here is only which file mode PtTempo picks)"""
    if not _API:
        import oqupy
        corr = oqupy.PowerLawSD(alpha=0.1, zeta=1, cutoff=1.0, cutoff_type="exponential", temperature=0.0)
        _API["bath"] = oqupy.Bath(0.5 * oqupy.operators.sigma("z"), corr)
        _API["par"] = oqupy.TempoParameters(dt=0.1, dkmax=2, epsrel=1e-6)
    return _API["bath"], _API["par"]


_api_objects()      # at import time, i.e. outside the symbolic environment


class H3b(Case):
    """the PT-TEMPO entry point: PtTempo(..., process_tensor_file=<name|True>, overwrite=<flag>)
    -> the real PtTempo._init_file_process_tensor(filename, overwrite), with symbolic flags
    overwrite x exists x named/temporary: an existing file is replaced only if overwriting was
    requested (FileExistsError otherwise, content intact); remove() entitlement as documented."""
    functions = ("PtTempo.__init__", "PtTempo._init_file_process_tensor", "FileProcessTensor.__init__", "FileProcessTensor._create_file",
                 "FileProcessTensor.remove", "FileProcessTensor.close")
    stubs = h5stub.STUB_TEXT
    env = ENV_PT
    real_env = {}

    def __init__(self, entry):
        self.entry = entry
        self.id = "H3b/pt_tempo_%s_overwrite_x_exists_x_named" % entry
        self.bounds = {"entry": entry, "overwrite": [True, False], "exists": [True, False], "filename": ["given", "temporary"]}

    def _create(self, inp, filename, overwrite):
        if self.entry == "init":
            # PtTempo.__new__ shell, the real _init_file_process_tensor(filename, overwrite)
            return PtTempoShell(inp.const(np.identity(2))).file(filename, overwrite)
        import oqupy
        bath, par = _api_objects()
        p = oqupy.PtTempo(bath, 0.0, 0.3, par, process_tensor_file=(filename if filename is not None else True), overwrite=overwrite)
        return p._process_tensor

    def run(self, inp):
        obs = []
        with Workspace(inp) as ws:
            ow = inp.bool("overwrite")
            ex = inp.bool("exists")
            named = inp.bool("named")
            overwrite, exists, given = bool(ow), bool(ex), bool(named)
            F = ws.path("target.hdf5")
            old, _, _ = build_pt(inp, "o", 2, 2, 2, 4, False, dt=0.5)
            old.name = "old content"
            if exists:
                old.export(F)
            obj = err = tmp = None
            try:
                try:
                    obj = self._create(inp, F if given else None, overwrite)
                    tmp = obj.filename
                except Exception as e:  # noqa
                    err = e.with_traceback(None)
                created = obj is not None
                refused = _and(inp, ex, named, _not(inp, ow))
                obs.append(Ob.holds("PT-TEMPO onto an existing file without overwrite is refused with FileExistsError",
                                    implies(refused, isinstance(err, FileExistsError)), info=repr(err)))
                obs.append(Ob.holds("PT-TEMPO file creation succeeds otherwise", implies(_not(inp, refused), created), info=repr(err)))
                if created:
                    obs.append(Ob.holds("file-backed process tensor created", isinstance(obj, ptm.FileProcessTensor) and ws.exists(obj.filename)))
                    obs.append(Ob.holds("temporary name differs from the given one", given or obj.filename != F))
                replaced_ok = _and(inp, ow, named)
                if exists and not (overwrite and given):
                    obs += _intact("existing file not replaced by PT-TEMPO", ws, F, old, _not(inp, replaced_ok))
                if created and exists and overwrite and given:
                    obs.append(Ob.holds("overwrite requested: the new (empty) process tensor replaces the old file", len(obj) == 0))
                if created:
                    target = obj.filename
                    entitled = overwrite or not given
                    entitled_f = _or(inp, ow, _not(inp, named))
                    rerr = None
                    try:
                        obj.remove()
                    except Exception as e:  # noqa
                        rerr = e.with_traceback(None)
                    obs.append(Ob.holds("remove() refused for a named file created without overwrite",
                                        implies(_not(inp, entitled_f), rerr is not None and ws.exists(target)), info=repr(rerr)))
                    obs.append(Ob.holds("remove() deletes a temporary / overwrite-mode file",
                                        implies(entitled_f, rerr is None and not ws.exists(target)), info=repr(rerr)))
                    if exists and not given:
                        obs += _intact("other file after remove() of the temporary", ws, F, old, True)
                    obj = None
            finally:
                close_quietly(obj)
                if tmp is not None and tmp != F and ws.exists(tmp):
                    (os.remove if ws.real else h5stub.OS.remove)(tmp)
        return obs


class _TempfileStub:
    """stand-in for the module global `tempfile` of oqupy.process_tensor (sym/frac AND real mode):
    the directory is the workspace, the candidate names are chosen by the harness.  Contract
    assumed of tempfile._get_candidate_names(): arbitrary names -- nothing guarantees that a
    candidate does not name an existing file (another process, an earlier run)."""
    dir = None
    names = ()

    def _get_default_tempdir(self):
        if self.dir is None:
            raise RuntimeError("tempfile stand-in used outside a harness run")
        return self.dir

    def _get_candidate_names(self):
        return iter(list(self.names))

    def __getattr__(self, n):
        import tempfile
        return getattr(tempfile, n)


TEMPFILE = _TempfileStub()
ENV_TMP = {"noconj": False, "np_proxy_modules": ENV_PT["np_proxy_modules"],
           "extra": dict(ENV_PT["extra"], **{"oqupy.process_tensor.tempfile": TEMPFILE})}
REAL_ENV_TMP = {"oqupy.process_tensor.tempfile": TEMPFILE}
TMP_STUB_TEXT = ("tempfile._get_default_tempdir/_get_candidate_names of oqupy.process_tensor -> workspace directory and "
                 "harness-chosen candidate names (arbitrary, may name an existing file)",)


class H2b(Case):
    """anonymous (temporary) files: filename=None with mode 'write', resp. PtTempo(process_tensor_file=True,
    overwrite=False).  The generated name is an arbitrary candidate and may collide with an existing
    file (symbolic Bool): the existing file must never be truncated/replaced."""
    functions = ("FileProcessTensor.__init__", "FileProcessTensor._create_file", "PtTempo._init_file_process_tensor", "PtTempo.__init__",
                 "FileProcessTensor.remove")
    stubs = h5stub.STUB_TEXT + TMP_STUB_TEXT
    assumptions = ("temporary-file candidate names are arbitrary and may name an existing file",)
    env = ENV_TMP
    real_env = REAL_ENV_TMP
    ENTRIES = ("FileProcessTensor(mode='write', filename=None)", "PtTempo._init_file_process_tensor(None, False)",
               "PtTempo(process_tensor_file=True, overwrite=False)")

    def __init__(self):
        self.id = "H2b/temporary_name_collides"
        self.bounds = {"entry": list(self.ENTRIES), "collides": [True, False]}

    def run(self, inp):
        import oqupy
        obs = []
        with Workspace(inp) as ws:
            e = inp.int("entry", 0, 2)
            col = inp.bool("collides")
            entry, collides = int(e), bool(col)
            TEMPFILE.dir, TEMPFILE.names = ws.dir, ("cand0", "cand1", "cand2")
            G = ws.path("pt_cand0.hdf5")            # the name the generator will come up with first
            old, _, _ = build_pt(inp, "o", 2, 2, 2, 4, False, dt=0.5)
            old.name = "old content"
            if collides:
                old.export(G)
            obj = err = None
            try:
                try:
                    if entry == 0:
                        obj = ptm.FileProcessTensor(mode="write", filename=None, hilbert_space_dimension=2, dt=0.1)
                    elif entry == 1:
                        obj = PtTempoShell(inp.const(np.identity(2))).file(None, False)
                    else:
                        bath, par = _api_objects()
                        obj = oqupy.PtTempo(bath, 0.0, 0.3, par, process_tensor_file=True, overwrite=False)._process_tensor
                except Exception as ex_:  # noqa
                    err = ex_.with_traceback(None)
                created = obj is not None
                info = "%s, first candidate name %s; %s" % (self.ENTRIES[entry], "exists" if collides else "is free",
                                                           "raised %r" % (err,) if err is not None else "created %s" % obj.filename)
                obs.append(Ob.holds("colliding temporary name: refused (FileExistsError) or another name is used",
                                    implies(col, (not created) or obj.filename != G), info=info))
                obs.append(Ob.holds("free temporary name: the file-backed object is created", implies(_not(inp, col), created), info=info))
                if created:
                    obs.append(Ob.holds("temporary file exists", ws.exists(obj.filename)))
                    target = obj.filename
                    rerr = None
                    try:
                        obj.remove()
                    except Exception as ex_:  # noqa
                        rerr = ex_.with_traceback(None)
                    obj = None
                    if not (collides and target == G):
                        obs.append(Ob.holds("remove() deletes the temporary file", rerr is None and not ws.exists(target), info=repr(rerr)))
                if collides:
                    obs += _intact("existing file with the colliding name", ws, G, old, col)
            finally:
                close_quietly(obj)
                TEMPFILE.dir, TEMPFILE.names = None, ()
        return obs


class H3c(Case):
    """the shortcut oqupy.pt_tempo_compute(bath, ..., unique=, process_tensor_file=, overwrite=) (a real,
    small PT-TEMPO computation with a concrete bath) x symbolic unique x overwrite x exists x
    named/temporary: an existing file is replaced only if overwrite was requested (whatever `unique` is)."""
    functions = ("pt_tempo.pt_tempo_compute", "PtTempo.__init__", "PtTempo._init_file_process_tensor", "PtTempo.compute",
                 "PtTempo.get_process_tensor", "FileProcessTensor._create_file", "FileProcessTensor.remove")
    stubs = h5stub.STUB_TEXT + TMP_STUB_TEXT + ("tensornetwork numpy backend svd -> exact non-truncating factorisation",)
    env = ENV_TMP
    real_env = REAL_ENV_TMP

    def __init__(self):
        self.id = "H3c/pt_tempo_compute_unique_x_overwrite_x_exists_x_named"
        self.bounds = {"unique": [True, False], "overwrite": [True, False], "exists": [True, False], "filename": ["given", "temporary"],
                       "N": 3, "dkmax": 2}

    def run(self, inp):
        import oqupy
        obs = []
        with Workspace(inp) as ws:
            un = inp.bool("unique")
            ow = inp.bool("overwrite")
            ex = inp.bool("exists")
            named = inp.bool("named")
            unique, overwrite, exists, given = bool(un), bool(ow), bool(ex), bool(named)
            TEMPFILE.dir, TEMPFILE.names = ws.dir, ("tmp0", "tmp1")
            F = ws.path("target.hdf5")
            old, _, _ = build_pt(inp, "o", 2, 2, 2, 4, False, dt=0.5)
            old.name = "old content"
            if exists:
                old.export(F)
            bath, par = _api_objects()
            obj = err = None
            try:
                try:
                    obj = oqupy.pt_tempo_compute(bath, 0.0, 0.3, par, unique=unique, process_tensor_file=(F if given else True),
                                                 overwrite=overwrite, progress_type="silent", name="new content")
                except Exception as ex_:  # noqa
                    err = ex_.with_traceback(None)
                created = obj is not None
                refused = _and(inp, ex, named, _not(inp, ow))
                info = "unique=%s overwrite=%s exists=%s filename %s: %s" % (unique, overwrite, exists, "given" if given else "temporary",
                                                                              "raised %r" % (err,) if err is not None else "returned")
                obs.append(Ob.holds("pt_tempo_compute onto an existing file without overwrite is refused with FileExistsError",
                                    implies(refused, isinstance(err, FileExistsError)), info=info))
                obs.append(Ob.holds("pt_tempo_compute succeeds otherwise", implies(_not(inp, refused), created), info=info))
                if exists and not (overwrite and given):
                    obs += _intact("existing file not replaced by pt_tempo_compute", ws, F, old, _not(inp, _and(inp, ow, named)))
                if created:
                    obs.append(Ob.holds("file-backed process tensor returned", isinstance(obj, ptm.FileProcessTensor) and ws.exists(obj.filename)))
                    obs.append(Ob.holds("temporary name differs from the given one", given or obj.filename != F))
                    obs.append(Ob.holds("length", len(obj) == 3))
                    target = obj.filename
                    entitled_f = _or(inp, ow, _not(inp, named))
                    rerr = None
                    try:
                        obj.remove()
                    except Exception as ex_:  # noqa
                        rerr = ex_.with_traceback(None)
                    obj = None
                    obs.append(Ob.holds("remove() refused for a named file computed without overwrite",
                                        implies(_not(inp, entitled_f), rerr is not None and ws.exists(target)), info=info + " / %r" % (rerr,)))
                    obs.append(Ob.holds("remove() deletes a temporary / overwrite-mode file",
                                        implies(entitled_f, rerr is None and not ws.exists(target)), info=info + " / %r" % (rerr,)))
                    if not (overwrite or not given) and ws.exists(target):
                        r = read_back(target, "file")
                        obs.append(Ob.holds("file kept after refused remove() holds the new process tensor",
                                            r["obj"] is not None and len(r["obj"]) == 3 and r["obj"].name == "new content"))
                        close_quietly(r["obj"])
                    if exists and not given:
                        obs += _intact("other file after remove() of the temporary", ws, F, old, True)
            finally:
                close_quietly(obj)
                TEMPFILE.dir, TEMPFILE.names = None, ()
        return obs


def cases(tier):
    cs = []
    cs += [H1("writing_flag", "export", 1, "file", rank=3), H1("writing_flag", "export", 2, "simple", rank=4),
           H1("writing_flag", "pt_tempo", 2, "file", K=None),
           H1("clean", "export", 1, "simple", rank=4), H1("clean", "export", 2, "file", rank=3),
           H1("clean", "pt_tempo", 2, "simple", K=None), H1("clean", "pt_tempo", 2, "file", K=1)]
    # files written by another / an attribute-less version (symbolic 3-way choice); export without caps
    cs += [H1("writing_flag", "export", 1, "simple", rank=4, version="sym"), H1("writing_flag", "pt_tempo", 2, "file", K=1, version="sym"),
           H1("clean", "export", 2, "simple", rank=3, version="sym"), H1("clean", "pt_tempo", 2, "file", K=None, version="sym"),
           H1("exception", "export", 1, "file", rank=3, exc="OSError", version="sym"),
           H1("clean", "export", 2, "file", rank=4, caps=False), H1("clean", "export", 1, "simple", rank=3, caps=False, version="sym"),
           H1("writing_flag", "export", 2, "file", rank=3, caps=False), H1("exception", "export", 2, "simple", rank=4, caps=False, exc="KeyboardInterrupt")]
    # the open file is relabelled (name / description assigned) between the tensor writes
    cs += [H1("writing_flag", "manual", 1, "file", rank=3, mode="write", relabel="name"),
           H1("writing_flag", "manual", 1, "simple", rank=4, mode="overwrite", relabel="description"),
           H1("clean", "manual", 1, "file", rank=4, mode="overwrite", relabel="both"),
           H1("exception", "manual", 1, "simple", rank=3, mode="write", exc="OSError", relabel="description"),
           H1("writing_flag", "pt_tempo", 2, "simple", K=None, relabel=True), H1("clean", "pt_tempo", 2, "file", K=1, relabel=True)]
    cs += [H1("exception", "export", 2, "file", rank=3, exc="OSError"), H1("exception", "export", 1, "simple", rank=4, exc="KeyboardInterrupt"),
           H1("exception", "pt_tempo", 2, "file", K=None, exc="OSError")]
    cs += [H2(), H3(), H3b("init"), H3b("api"), H2b(), H3c()]
    if tier == "thorough":
        cs += [H1("writing_flag", "export", 3, "file", rank=3, version="sym"), H1("writing_flag", "pt_tempo", 3, "simple", K=None, version="sym"),
               H1("clean", "export", 3, "file", rank=4, version="sym"), H1("clean", "pt_tempo", 3, "simple", K=1, version="sym"),
               H1("exception", "pt_tempo", 2, "simple", K=None, exc="OSError", version="sym"),
               H1("clean", "export", 3, "simple", rank=3, caps=False), H1("writing_flag", "export", 1, "simple", rank=4, caps=False, version="sym")]
        cs += [H1("writing_flag", "manual", 2, "simple", rank=3, mode="write", relabel="both"),
               H1("writing_flag", "manual", 1, "file", rank=4, mode="overwrite", version="sym", relabel="name"),
               H1("clean", "manual", 2, "simple", rank=3, mode="write", relabel="name"),
               H1("exception", "manual", 2, "file", rank=4, mode="overwrite", exc="KeyboardInterrupt", relabel="name"),
               H1("writing_flag", "pt_tempo", 3, "file", K=1, relabel=True), H1("exception", "pt_tempo", 2, "file", K=None, relabel=True)]
        cs += [H1("exception", "export", 3, "simple", rank=4, exc="MemoryError"), H1("exception", "export", 3, "file", rank=3, exc="KeyboardInterrupt"),
               H1("exception", "export", 2, "simple", rank=4, exc="OSError"),
               H1("exception", "pt_tempo", 3, "simple", K=1, exc="KeyboardInterrupt"), H1("exception", "pt_tempo", 2, "simple", K=1, exc="MemoryError")]
        cs += [H1("writing_flag", "export", 3, "file", rank=4), H1("writing_flag", "export", 3, "simple", rank=3),
               H1("writing_flag", "export", 2, "file", rank=3), H1("writing_flag", "export", 1, "simple", rank=4),
               H1("writing_flag", "pt_tempo", 3, "simple", K=None), H1("writing_flag", "pt_tempo", 3, "file", K=1),
               H1("writing_flag", "pt_tempo", 2, "simple", K=1),
               H1("clean", "export", 3, "file", rank=4), H1("clean", "export", 3, "simple", rank=3),
               H1("clean", "pt_tempo", 3, "file", K=None), H1("clean", "pt_tempo", 3, "simple", K=2)]
    return cs


def main(tier, seed, args):
    v = h5stub.validation_result()
    return core.run_property("C17", "checks.c17", tier, seed, jobs=args.jobs, only=args.only, extra_results=[v])
