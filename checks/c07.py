"""C07 -- multi-time correlations are exact and aligned with the returned time axes.

H1  _parse_times on symbolic specifications (int, slice, list, float, float interval in either
    direction): result == documented meaning (Python indexing semantics; float -> nearest step;
    interval inclusive at both ends); IndexError exactly when out of range.
H2  bookkeeping of compute_correlations_nt / compute_correlations with the numerical kernel
    `_compute_ordered_nt_correlations` replaced by an uninterpreted Corr(first_times..., last_time):
    every entry == Corr(times at the same indices) iff those times are ordered, NaN otherwise;
    returned time axes == start_time + dt * step.
H3  the caller's dt reaches the dynamics (compute_dynamics stub records it).
H4  values: real _compute_ordered_nt_correlations + compute_dynamics + Control on a symbolic
    process tensor == explicit joint evolution with operator insertions.
"""
import contextlib
import io
import itertools
import warnings
from fractions import Fraction

import numpy as np
import z3

import oqupy
import oqupy.process_tensor as ptm
import oqupy.system_dynamics as sd

from vf.core import Case, Ob
from vf import lib, sym
from vf.env import shadow_builtins, patched, NpProxy
from vf.sym import S, SI, SB
from vf.poly import ob_eq_poly
from vf.timeidx import time_np_overrides, TI, sym_int, near_time, as_int, all_of, any_of, is_nan_entry, p_arange

ASSUMPTIONS = [
    "exact real arithmetic for times (float times are start + dt*(k+e), |e|<1/2: ties and floating-point "
    "rounding of the quotient (t-start)/dt are outside the claim)",
    "conjugation-free contraction code is a polynomial map: identity over real symbols implies identity over complex values",
]

SD = "oqupy.system_dynamics"
ENV_SD = {"extra": dict(shadow_builtins(SD, ("isinstance", "int", "float")), **{SD + ".np": NpProxy(time_np_overrides())})}


def _quiet():
    return contextlib.redirect_stdout(io.StringIO())


def _parse(spec, N, dt, start):
    """real _parse_times -> ('ok', array) | ('IndexError', None)"""
    try:
        return "ok", sd._parse_times(spec, N, dt, start)
    except IndexError:
        return "IndexError", None


def _norm_index(i, N):
    """Python index semantics on a sequence of length N+1 (i already known to be in range)"""
    if isinstance(i, SI):
        return SI(z3.If(i.e >= 0, i.e, i.e + (N + 1)), 0, N)
    return i if i >= 0 else i + N + 1


# ------------------------------------------------------------------------------------------
# H1  _parse_times
# ------------------------------------------------------------------------------------------
class H1Int(Case):
    functions = ("system_dynamics._parse_times",)
    env = ENV_SD

    def __init__(self, N):
        self.N = N
        self.id = "H1/int_N%d" % N
        self.bounds = {"N": N, "int spec": [-(N + 3), N + 3]}

    def run(self, inp):
        N = self.N
        t = sym_int(inp, "t", -(N + 3), N + 3)
        start = inp.real("start")
        tag, r = _parse(t, N, 0.1, start)
        if tag == "ok":
            # documented: an int is the time step itself.  (A negative int is rejected by the code; the
            # property does not require that, so a wrapped negative index would be accepted too.)
            ok = all_of([len(r) == 1, any_of([all_of([t >= 0, t <= N, r[0] == t]),
                                               all_of([t < 0, t >= -(N + 1), r[0] == t + (N + 1)])])])
            return [Ob.holds("int spec -> that step", ok)]
        return [Ob.holds("IndexError only when out of range", any_of([t < 0, t > N]))]


class H1Slice(Case):
    functions = ("system_dynamics._parse_times",)
    env = ENV_SD
    max_paths = 6000

    def __init__(self, N, R, steps, form="abc"):
        self.N, self.R, self.steps, self.form = N, R, steps, form
        self.id = "H1/slice_%s_N%d" % (form, N)
        self.bounds = {"N": N, "start/stop": [-R, R], "step": list(steps), "form": form}

    def run(self, inp):
        N, R = self.N, self.R
        a = sym_int(inp, "a", -R, R) if "a" in self.form else None
        b = sym_int(inp, "b", -R, R) if "b" in self.form else None
        c = None
        if "c" in self.form:
            c = sym_int(inp, "c", min(self.steps), max(self.steps))
            inp.assume(any_of([c == v for v in self.steps]))
        tag, r = _parse(slice(a, b, c), N, 0.1, 0.0)
        # Python slice semantics (the documented meaning of an index specification)
        ca, cb, cc = [None if v is None else as_int(v) for v in (a, b, c)]
        exp = list(range(N + 1))[slice(ca, cb, cc)]
        return [Ob.holds("slice never raises", tag == "ok"),
                Ob.holds("slice == Python slice of range(N+1)", tag == "ok" and [int(x) for x in r] == exp)]


class H1List(Case):
    functions = ("system_dynamics._parse_times",)
    env = ENV_SD
    max_paths = 6000

    def __init__(self, N, L, R=None):
        self.N, self.L = N, L
        self.R = R if R is not None else N + 2
        self.id = "H1/list%d_N%d" % (L, N)
        self.bounds = {"N": N, "len": L, "entries": [-self.R, self.R]}

    def run(self, inp):
        N, L, R = self.N, self.L, self.R
        xs = [sym_int(inp, "i%d" % j, -R, R) for j in range(L)]
        tag, r = _parse(list(xs), N, 0.1, 0.0)
        inside = all_of([all_of([x >= -(N + 1), x <= N]) for x in xs])
        if tag == "ok":
            conds = [inside, len(r) == L]
            if len(r) == L:
                conds += [int(r[j]) == _norm_index(xs[j], N) for j in range(L)]
            return [Ob.holds("list == Python fancy index of range(N+1), order kept", all_of(conds))]
        return [Ob.holds("IndexError only when an entry is out of range",
                         any_of([any_of([x < -(N + 1), x > N]) for x in xs]))]


class H1Float(Case):
    functions = ("system_dynamics._parse_times",)
    env = ENV_SD
    stubs = ("np.round -> nearest integer in exact real arithmetic, ties excluded by precondition",)

    def __init__(self, N, dt):
        self.N, self.dt = N, dt
        self.id = "H1/float_N%d_dt%s" % (N, dt)
        self.bounds = {"N": N, "dt": dt, "nearest step": [-3, N + 3]}

    def run(self, inp):
        N = self.N
        dt = inp.real("dt", lo=Fraction(1, 100), hi=4) if self.dt == "sym" else self.dt
        start = inp.real("start")
        k = sym_int(inp, "k", -3, N + 3)
        t = near_time(inp, "t", k, start, dt)
        tag, r = _parse(t, N, dt, start)
        if tag == "ok":
            return [Ob.holds("float -> nearest step", all_of([len(r) == 1, r[0] == k, k >= 0, k <= N]))]
        return [Ob.holds("IndexError only when the nearest step is out of range", any_of([k < 0, k > N]))]


class H1Interval(Case):
    """float interval in either direction; `part` splits the input space so that the reversed
    interval ending at step 0 has its own key."""
    functions = ("system_dynamics._parse_times",)
    env = ENV_SD
    stubs = H1Float.stubs

    def __init__(self, N, dt, part):
        self.N, self.dt, self.part = N, dt, part
        self.id = "H1/interval_%s/N%d_dt%s" % (part, N, dt)
        self.bounds = {"N": N, "dt": dt, "nearest steps": [-2, N + 2], "part": part}

    def run(self, inp):
        N = self.N
        dt = inp.real("dt", lo=Fraction(1, 100), hi=4) if self.dt == "sym" else self.dt
        start = inp.real("start")
        if self.part == "rev_to0":
            k0 = sym_int(inp, "k0", 1, N)
            k1 = 0
        else:
            k0 = sym_int(inp, "k0", -2, N + 2)
            k1 = sym_int(inp, "k1", -2, N + 2)
            inp.assume(_neg(all_of([k0 > k1, k1 == 0])))     # -> part 'rev_to0'
        t0 = near_time(inp, "t0", k0, start, dt)
        t1 = near_time(inp, "t1", k1, start, dt)
        tag, r = _parse((t0, t1), N, dt, start)
        inside = all_of([k0 >= 0, k0 <= N, k1 >= 0, k1 <= N])
        if tag != "ok":
            return [Ob.holds("IndexError only when an end point is out of range", _neg(inside))]
        # inclusive at both ends, in the direction given
        c0, c1 = as_int(k0), as_int(k1)
        exp = list(range(c0, c1 + 1)) if c0 <= c1 else list(range(c0, c1 - 1, -1))
        return [Ob.holds("no IndexError only when both end points are in range", inside),
                Ob.holds("interval == all steps from nearest(start) to nearest(end) inclusive",
                         [as_int(x) for x in r] == exp, key="inclusive_both_ends")]


# ------------------------------------------------------------------------------------------
# H2  bookkeeping with an uninterpreted kernel
# ------------------------------------------------------------------------------------------
def _mk_pt(N, dt=0.1):
    pt = ptm.SimpleProcessTensor(hilbert_space_dimension=2, dt=dt)
    for k in range(N):
        pt.set_mpo_tensor(k, np.ones((1, 1, 4)))
    return pt


class CorrStub:
    """stand-in for `_compute_ordered_nt_correlations`: one uninterpreted value per requested
    (first_times..., last_time); records how it was called"""

    def __init__(self, inp, nops):
        self.inp, self.nops, self.calls = inp, nops, []
        if inp.symbolic:
            sig = [z3.IntSort()] * nops + [z3.RealSort()]
            self.fr = z3.Function("CorrRe%d" % nops, *sig)
            self.fi = z3.Function("CorrIm%d" % nops, *sig)

    def value(self, times):
        if self.inp.symbolic:
            a = [sym.toi(t) for t in times]
            return S(self.fr(*a), self.fi(*a))
        ts = [int(t) for t in times]
        re = Fraction(sum((t + 1) * 11 ** k for k, t in enumerate(ts)))
        im = Fraction(sum((t + 2) * 13 ** k for k, t in enumerate(ts)), 7)
        if self.inp.mode == "frac":
            return S(re, im)
        return complex(float(re), float(im))

    def __call__(self, **kw):
        self.calls.append(kw)
        ft, lts = kw["first_times"], kw["last_times"]
        out = [self.value(list(ft) + [lt]) for lt in lts]
        if self.inp.mode == "real":
            return np.array(out, dtype=complex)
        a = np.empty(len(out), dtype=object)
        for i, v in enumerate(out):
            a[i] = v
        return a


def _eq_entry(got, exp):
    if isinstance(got, (S, SI)) or isinstance(exp, (S, SI)):
        g, e = S.of(got), S.of(exp)
        if not (g.is_concrete() and e.is_concrete()):
            return g == e
        got, exp = complex(g), complex(e)        # concrete validation run: doubles are kept as they are
    return abs(complex(got) - complex(exp)) <= 1e-9 * (1 + abs(complex(exp)))


def _le(a, b):
    r = a <= b
    return r if isinstance(r, SB) else bool(r)


def _neg(c):
    return ~c if isinstance(c, SB) else (not c)


def _implies(a, b):
    return any_of([_neg(a), b])


def _spec(inp, name, kind, N, start, dt):
    """-> (specification handed to the code, oracle list of steps = its documented meaning)"""
    if kind == "int":
        t = sym_int(inp, name, 0, N)
        return t, [t]
    if kind == "float":
        k = sym_int(inp, name, 0, N)
        return near_time(inp, name + "t", k, start, dt), [k]
    if kind.startswith("list"):
        L = int(kind[4:])
        xs = [sym_int(inp, "%s_%d" % (name, j), 0, N) for j in range(L)]
        return list(xs), xs
    if kind.startswith("slice"):
        R = N + 2
        a = sym_int(inp, name + "a", -R, R)
        b = sym_int(inp, name + "b", -R, R)
        c = sym_int(inp, name + "c", -2, 2)
        inp.assume(c != 0)
        ca, cb, cc = as_int(a), as_int(b), as_int(c)
        return slice(a, b, c), list(range(N + 1))[ca:cb:cc]
    raise ValueError(kind)


class H2(Case):
    """part: 'asc'      last operator's steps ascending (general claim)
             'desc_last_filtered'   last operator's steps NOT ascending, rows whose later times are partly
                                    outside the ordering (the known defect lives here)
             'desc_last_unfiltered' last operator's steps NOT ascending, all other rows"""
    functions = ("system_dynamics.compute_correlations_nt", "system_dynamics.compute_correlations",
                 "system_dynamics._parse_times", "system_dynamics._schedule_nt_correlations")
    stubs = ("_compute_ordered_nt_correlations -> uninterpreted Corr(first_times..., last_time) (recording)",
             "np.round -> nearest integer in exact real arithmetic, ties excluded by precondition")
    env = ENV_SD
    max_paths = 8000

    def __init__(self, api, kinds, N, part="asc", dt_user=None):
        self.api, self.kinds, self.N, self.part, self.dt_user = api, tuple(kinds), N, part, dt_user
        self.id = "H2/%s/%s_%s_N%d%s" % (part, api, "-".join(kinds), N, "" if dt_user is None else "_dt" + str(dt_user))
        self.bounds = {"api": api, "specs": list(kinds), "N": N, "part": part, "dt passed": dt_user}

    def run(self, inp):
        N, n = self.N, len(self.kinds)
        pt_dt = 0.1
        start = inp.real("start")
        dt_user = None
        if self.dt_user == "sym":
            dt_user = inp.real("dt", lo=Fraction(1, 100), hi=4)
        elif self.dt_user is not None:
            dt_user = self.dt_user
        dt_eff = pt_dt if dt_user is None else dt_user
        specs, idx = [], []
        for k, kind in enumerate(self.kinds):
            sp, ix = _spec(inp, "s%d" % k, kind, N, start, dt_eff)
            specs.append(sp)
            idx.append(ix)
        # position of each user-level operator in the kernel call
        order = list(range(n))
        if self.api == "anti":
            order = [1, 0]
        last = idx[order[-1]]
        asc = all_of([_le(last[j], last[j + 1]) for j in range(len(last) - 1)])
        inp.assume(asc if self.part == "asc" else _neg(asc))

        pt = _mk_pt(N, pt_dt)
        system = oqupy.System(np.zeros((2, 2)))
        ops = [np.array([[1.0, 2.0 + k], [3.0, 4.0]]) for k in range(n)]
        rho0 = np.array([[0.5, 0.0], [0.0, 0.5]])
        stub = CorrStub(inp, n)
        with patched({SD + "._compute_ordered_nt_correlations": stub}), warnings.catch_warnings(), _quiet():
            warnings.simplefilter("ignore")
            if self.api == "nt":
                ops_order = (["left", "right", "left", "right", "left"])[:n]
                ret_times, corr = sd.compute_correlations_nt(system, pt, list(ops), list(specs), list(ops_order),
                                                             initial_state=rho0, start_time=start, dt=dt_user,
                                                             progress_type="silent")
            else:
                ret_times, corr = sd.compute_correlations(system, pt, ops[0], ops[1], specs[0], specs[1],
                                                          time_order=self.api, initial_state=rho0,
                                                          start_time=start, dt=dt_user, progress_type="silent")
        obs = []
        shape_ok = (len(ret_times) == n and tuple(corr.shape) == tuple(len(ix) for ix in idx)
                    and all(len(ret_times[k]) == len(idx[k]) for k in range(n)))
        obs.append(Ob.holds("shapes of time axes and result array", shape_ok, key="shapes"))
        if not shape_ok:
            return obs
        # returned time axes
        obs.append(Ob.holds("time axes == start + dt*step", all_of(
            [_eq_entry(ret_times[k][i], start + dt_eff * S.of(idx[k][i]) if inp.mode != "real" else start + dt_eff * idx[k][i])
             for k in range(n) for i in range(len(idx[k]))]), key="time_axes"))
        # kernel calls: operators paired with the times of the same position, everything else forwarded
        exp_ops = [ops[k] for k in order]
        # every documented argument must reach the kernel (a missing keyword is a violated obligation, not a crash)
        MISSING = object()

        def got(c, name):
            return c.get(name, MISSING)
        fwd = all(got(c, "operators") is not MISSING and len(c["operators"]) == n
                  and all(np.array_equal(c["operators"][j], exp_ops[j]) for j in range(n)) for c in stub.calls) \
            and all(got(c, "system") is system and got(c, "process_tensor") is pt for c in stub.calls)
        if self.api == "nt":
            fwd = fwd and all(got(c, "ops_order") is not MISSING and list(c["ops_order"]) == ops_order for c in stub.calls)
        obs.append(Ob.holds("kernel gets the operators in the order of their times (and ops_order), the system and the process tensor",
                            fwd, key="kernel_args"))
        obs.append(Ob.holds("kernel gets the caller's initial state",
                            all(got(c, "initial_state") is not MISSING and c["initial_state"] is not None
                                and np.array_equal(c["initial_state"], rho0) for c in stub.calls), key="kernel_initial_state"))
        obs.append(Ob.holds("kernel gets the caller's start_time",
                            all_of([got(c, "start_time") is not MISSING and got(c, "start_time") is not None for c in stub.calls]
                                   + [_eq_entry(c["start_time"], start) for c in stub.calls
                                      if got(c, "start_time") is not MISSING and c["start_time"] is not None]), key="kernel_start_time"))
        eff_dts = [c["process_tensor"].dt if c.get("dt") is None and got(c, "process_tensor") is not MISSING else c.get("dt") for c in stub.calls]
        obs.append(Ob.holds("kernel runs with the time step of the returned axes (dt passed on, or the process tensor's when none was given)",
                            all_of([e is not None for e in eff_dts] + [_eq_entry(e, dt_eff) for e in eff_dts if e is not None]),
                            key="kernel_dt"))
        # entries, row by row (row = one choice of the earlier operators' times)
        nidx = [idx[k] for k in order]                 # kernel order
        rows_ok, rows_class = [], []
        for first in itertools.product(*[range(len(ix)) for ix in nidx[:-1]]):
            ft = [nidx[k][i] for k, i in enumerate(first)]
            f_ord = all_of([_le(ft[j], ft[j + 1]) for j in range(len(ft) - 1)])
            entry_ok, keep = [], []
            for j, lt in enumerate(nidx[-1]):
                ordered = all_of([f_ord, _le(ft[-1], lt)])
                keep.append(all_of([_le(t, lt) for t in ft]))
                pos = list(first) + [j]
                user_pos = tuple(pos[order.index(k)] for k in range(n))
                got = corr[user_pos]
                if is_nan_entry(got):
                    entry_ok.append(_neg(ordered))
                else:
                    entry_ok.append(all_of([ordered, _eq_entry(got, stub.value(ft + [lt]))]))
            rows_ok.append(all_of(entry_ok))
            rows_class.append(all_of([f_ord, any_of(keep), any_of([_neg(c) for c in keep])]))
        if self.part == "asc":
            obs.append(Ob.holds("entry == Corr(times at its indices) iff ordered, NaN otherwise", all_of(rows_ok), key="entries"))
        elif self.part == "desc_last_filtered":
            obs.append(Ob.holds("rows with partly excluded later times: entry == Corr(times at its indices) iff ordered, NaN otherwise",
                                all_of([_implies(c, r) for c, r in zip(rows_class, rows_ok)]), key="entries"))
        else:
            obs.append(Ob.holds("rows without partly excluded later times: entry == Corr(times at its indices) iff ordered, NaN otherwise",
                                all_of([_implies(_neg(c), r) for c, r in zip(rows_class, rows_ok)]), key="entries"))
        return obs


# ------------------------------------------------------------------------------------------
# H3  the caller's dt reaches the dynamics
# ------------------------------------------------------------------------------------------
class _FakeDyn:
    def __init__(self, n):
        self.n = n

    def expectations(self, operator=None, real=False):
        return np.arange(self.n, dtype=float), np.arange(self.n, dtype=complex)


class H3Stub(Case):
    """compute_dynamics replaced by a recorder; real compute_correlations(_nt) and
    _compute_ordered_nt_correlations run"""
    functions = ("system_dynamics.compute_correlations", "system_dynamics.compute_correlations_nt",
                 "system_dynamics._compute_ordered_nt_correlations")
    stubs = ("compute_dynamics -> recorder of its keyword arguments (returns dummy expectations)",)
    env = ENV_SD

    def __init__(self, ptdt, N=2):
        self.ptdt, self.N = ptdt, N
        self.id = "H3/dt_forwarded/stub_ptdt_%s" % ptdt
        self.bounds = {"N": N, "process tensor dt": ptdt, "caller dt": "symbolic in [0.01, 4]"}

    def run(self, inp):
        N = self.N
        dt_user = inp.real("dt", lo=Fraction(1, 100), hi=4)
        pt_dt = None if self.ptdt == "none" else 0.1
        pt = _mk_pt(N, pt_dt)
        system = oqupy.System(np.zeros((2, 2)))
        calls = []

        def rec(**kw):
            calls.append(kw)
            return _FakeDyn(int(kw["num_steps"]) + 1)
        with patched({SD + ".compute_dynamics": rec}), warnings.catch_warnings(), _quiet():
            warnings.simplefilter("ignore")
            ret_times, corr = sd.compute_correlations(system, pt, np.eye(2), np.eye(2), 0, slice(None),
                                                      initial_state=np.eye(2) / 2, start_time=0.0, dt=dt_user,
                                                      progress_type="silent")
        conds = [len(calls) >= 1]
        for kw in calls:
            eff = kw.get("dt")
            if eff is None:
                eff = kw["process_tensor"].dt        # what compute_dynamics documents for dt=None
            conds.append(eff is not None and _eq_entry(eff, dt_user))
        return [Ob.holds("time step used by the dynamics == dt passed by the caller", all_of(conds), key="dt"),
                Ob.holds("time axis uses the caller's dt", all_of([_eq_entry(ret_times[1][j], dt_user * j) for j in range(N + 1)]), key="axis")]


class H3Real(Case):
    """nothing stubbed but the system's propagators, which record the dt they are asked for"""
    functions = ("system_dynamics.compute_correlations", "system_dynamics.compute_correlations_nt",
                 "system_dynamics._compute_ordered_nt_correlations", "system_dynamics.compute_dynamics",
                 "system_dynamics._compute_dynamics_input_parse")
    stubs = ("System.get_propagators -> symbolic half-step propagators (records dt)",)
    env = {"noconj": True, "extra": dict(ENV_SD["extra"], **shadow_builtins("oqupy.dynamics", ("float",)))}

    def __init__(self, ptdt, N=2, start=0.0, pass_dt=True):
        self.ptdt, self.N, self.start, self.pass_dt = ptdt, N, start, pass_dt
        self.id = "H3/dt_forwarded/real_ptdt_%s" % ptdt if start == 0.0 and pass_dt else \
            "H3/args_forwarded/real_ptdt_%s_t%s_%s" % (ptdt, start, "dt" if pass_dt else "nodt")
        self.bounds = {"N": N, "process tensor dt": ptdt, "caller dt": "symbolic in [0.01, 4]" if pass_dt else None, "start_time": start}

    def run(self, inp):
        from checks.c03 import build_pt
        N, d = self.N, 2
        dt_user = inp.real("dt", lo=Fraction(1, 100), hi=4) if self.pass_dt else None
        pt_dt = None if self.ptdt == "none" else 0.1
        pt, Meff, caps = build_pt(inp, "e", d, N, 1, 3, False, dt=pt_dt)
        P1 = [lib.gen_prop(inp, "p%d" % k, d) for k in range(N)]
        P2 = [lib.gen_prop(inp, "q%d" % k, d) for k in range(N)]
        system = lib.FakeSystem(d, P1, P2)
        A, B, rho0 = inp.arr("A", (d, d)), inp.arr("B", (d, d)), inp.arr("r", (d, d))
        try:
            with warnings.catch_warnings(), _quiet():
                warnings.simplefilter("ignore")
                ret_times, corr = sd.compute_correlations(system, pt, A, B, 0, slice(None), initial_state=rho0,
                                                          start_time=self.start, dt=dt_user, progress_type="silent")
        except ValueError:
            # refusing to combine a process tensor with a different time step is no mislabelled result;
            # refusing the documented use "tensor has no dt, caller specifies it" is
            return [Ob.holds("call with the caller's dt is carried out", pt_dt is not None, key="dt")]
        dt_eff = dt_user if self.pass_dt else pt_dt
        conds = [len(system.calls) >= 1] + [_eq_entry(c[0], dt_eff) for c in system.calls]
        return [Ob.holds("time step used by the dynamics == dt of the returned axes (the caller's when passed)", all_of(conds), key="dt"),
                Ob.holds("start time used by the dynamics == start_time passed by the caller",
                         all_of([len(system.calls) >= 1] + [_eq_entry(c[1], self.start) for c in system.calls]), key="start_time"),
                Ob.holds("time axis == start_time + dt*step", all_of([_eq_entry(ret_times[1][j], self.start + dt_eff * j) for j in range(N + 1)]), key="axis")]


# ------------------------------------------------------------------------------------------
# H4  values against the explicit joint evolution with operator insertions
# ------------------------------------------------------------------------------------------
def _left_super(A, inp):
    """vec(A rho), row-major vec:  L[(i,j),(k,l)] = A[i,k] delta(j,l)"""
    d = A.shape[0]
    out = inp.const(np.zeros((d * d, d * d)))
    for i in range(d):
        for j in range(d):
            for k in range(d):
                out[i * d + j, k * d + j] = A[i, k]
    return out


def _right_super(A, inp):
    """vec(rho A):  R[(i,j),(k,l)] = delta(i,k) A[l,j]"""
    d = A.shape[0]
    out = inp.const(np.zeros((d * d, d * d)))
    for i in range(d):
        for j in range(d):
            for l in range(d):
                out[i * d + j, i * d + l] = A[l, j]
    return out


def _expect(O, rho):
    d = O.shape[0]
    acc = None
    for i in range(d):
        for j in range(d):
            term = O[i, j] * rho[j, i]
            acc = term if acc is None else acc + term
    return acc


class H4(Case):
    functions = ("system_dynamics.compute_correlations_nt", "system_dynamics.compute_correlations",
                 "system_dynamics._compute_ordered_nt_correlations", "system_dynamics.compute_dynamics",
                 "Control.add_single", "Control.get_controls", "Dynamics.expectations", "operators.left_super",
                 "operators.right_super")
    stubs = ("System.get_propagators -> symbolic half-step propagators",)
    env = dict(ENV_SD, noconj=True)
    timeout_s = 300

    def __init__(self, api, orders, specs, N, bond=2, rank=4, start=0.0):
        self.api, self.orders, self.specs, self.N, self.bond, self.rank, self.start = api, orders, specs, N, bond, rank, start
        self.id = "H4/%s_%s_%s_N%d_b%d_r%d" % (api, "".join(o[0] for o in orders), "-".join(specs), N, bond, rank)
        self.bounds = {"d": 2, "N": N, "bond": bond, "rank": rank, "api": api, "ops_order": list(orders), "specs": list(specs)}
        self.env = dict(H4.env)
        self.env["extra"] = dict(ENV_SD["extra"], **shadow_builtins("oqupy.control", ("isinstance",)))

    def run(self, inp):
        from checks.c03 import build_pt
        N, d, n = self.N, 2, len(self.specs)
        pt, Meff, caps = build_pt(inp, "e", d, N, self.bond, self.rank, False)
        P1 = [lib.gen_prop(inp, "p%d" % k, d) for k in range(N)]
        P2 = [lib.gen_prop(inp, "q%d" % k, d) for k in range(N)]
        system = lib.FakeSystem(d, P1, P2)
        rho0 = inp.arr("r", (d, d))
        ops = [inp.arr("O%d" % k, (d, d)) for k in range(n)]
        specs, idx = [], []
        for k, kind in enumerate(self.specs):
            if kind == "all":
                sp, ix = slice(None), list(range(N + 1))
            elif kind == "rev":
                sp, ix = slice(None, None, -1), list(range(N, -1, -1))
            else:
                sp, ix = _spec(inp, "s%d" % k, kind, N, self.start, 0.1)
            specs.append(sp)
            idx.append(ix)
        last = idx[0] if self.api == "anti" else idx[-1]
        inp.assume(all_of([_le(last[j], last[j + 1]) for j in range(len(last) - 1)]))     # see H2 'desc_last'
        with warnings.catch_warnings(), _quiet():
            warnings.simplefilter("ignore")
            if self.api == "nt":
                ret_times, corr = sd.compute_correlations_nt(system, pt, list(ops), list(specs), list(self.orders),
                                                             initial_state=rho0, start_time=self.start, progress_type="silent")
            else:
                ret_times, corr = sd.compute_correlations(system, pt, ops[0], ops[1], specs[0], specs[1], time_order=self.api,
                                                          initial_state=rho0, start_time=self.start, progress_type="silent")
        # explicit meaning.  ordered 2-time: <B(tb) A(ta)> = Tr[B E(tb<-ta)(A rho(ta))], ta <= tb;
        # anti: <B(tb) A(ta)> with tb <= ta = Tr[A E(ta<-tb)(rho(tb) B)]; n-time: operator k inserted on its side at
        # its time (earlier list position first at equal times), last operator measured.
        if self.api == "anti":
            seq = [(ops[1], "right", idx[1], 1), (ops[0], "left", idx[0], 0)]
        elif self.api == "ordered":
            seq = [(ops[0], "left", idx[0], 0), (ops[1], "left", idx[1], 1)]
        else:
            seq = [(ops[k], self.orders[k], idx[k], k) for k in range(n)]
        obs = []
        for pos in itertools.product(*[range(len(s[2])) for s in seq]):
            ts = [s[2][i] for s, i in zip(seq, pos)]
            user_pos = [None] * n
            for s, i in zip(seq, pos):
                user_pos[s[3]] = i
            got = corr[tuple(user_pos)]
            ordered = all_of([_le(ts[j], ts[j + 1]) for j in range(n - 1)])
            if isinstance(ordered, SB):
                ordered = bool(ordered)            # forks (symbolic time specification)
            label = "entry %s (steps %s)" % (tuple(user_pos), "?" if any(isinstance(t, SI) for t in ts) else ts)
            if not ordered:
                obs.append(Ob.holds(label + " is NaN (outside the ordering)", is_nan_entry(got), key="nan"))
                continue
            cts = [as_int(t) for t in ts]
            pre = {}
            for (O, side, _, _), t in zip(seq[:-1], cts[:-1]):
                sup = _left_super(O, inp) if side == "left" else _right_super(O, inp)
                pre[t] = sup if t not in pre else sup @ pre[t]
            rho = lib.oracle_pt_dynamics(rho0, [(Meff, caps)], P1, P2, cts[-1], pre, {}).reshape(d, d)
            exp = _expect(seq[-1][0], rho)
            if is_nan_entry(got):
                obs.append(Ob.holds(label + " is not NaN", False, key="value"))
            else:
                obs.append(ob_eq_poly(inp, label + " == explicit evolution", got, exp, key="value"))
        return obs


# ------------------------------------------------------------------------------------------
# H6  history: the cached system-correlation matrix of TwoTimeBathCorrelations
# ------------------------------------------------------------------------------------------
BD = "oqupy.bath_dynamics"


def _bd_int(x, *a):
    """int(np.round(final_time/dt)) in generate_system_correlations: the matrix dimension has to be a concrete
    Python int for slice()/np.pad (bounded, exhaustive concretisation by the engine)"""
    from vf.env import sym_int as _si
    return as_int(_si(x, *a))


ENV_BD = {"extra": {BD + ".np": NpProxy(time_np_overrides()), BD + ".int": _bd_int}}


class H6(Case):
    """TwoTimeBathCorrelations.generate_system_correlations called for a sequence of final times on ONE object
    (cache created empty): after every call the cached matrix must be what its implicit time axes say --
    shape (k, k) with k the largest nearest(final_time/dt) so far, entry [i, j] == Corr(step i, step j) for
    i <= j and NaN below the diagonal -- i.e. exactly what a fresh object asked once for that time holds."""
    functions = ("TwoTimeBathCorrelations.__init__", "TwoTimeBathCorrelations.generate_system_correlations")
    stubs = ("bath_dynamics.compute_correlations -> uninterpreted Corr(step_a, step_b) on the requested index grids (recording)",
             "np.round -> nearest integer in exact real arithmetic, ties excluded by precondition")
    env = ENV_BD
    max_paths = 4000

    def __init__(self, N, nq):
        self.N, self.nq = N, nq
        self.id = "H6/cache_history_N%d_q%d" % (N, nq)
        self.bounds = {"N": N, "queries on one object": nq, "matrix dimension per query": [1, N + 1]}
        # concrete bath (only its coupling operator / transform are read), built outside the symbolic environment
        self.bath = oqupy.Bath(0.5 * oqupy.operators.sigma("z"),
                               oqupy.PowerLawSD(alpha=0.1, zeta=1.0, cutoff=1.0, cutoff_type="exponential"))

    def run(self, inp):
        import oqupy.bath_dynamics as bd
        N, dt = self.N, 0.1
        pt = _mk_pt(N, dt)
        system = oqupy.System(np.zeros((2, 2)))
        bath = self.bath
        rho0 = np.array([[0.5, 0.0], [0.0, 0.5]])
        stub = CorrStub(inp, 2)
        calls = []

        def fake_cc(system_, pt_, op_a, op_b, times_a, times_b, time_order="ordered", initial_state=None, start_time=0.0, dt=None,
                    progress_type=None):
            grid = list(range(len(pt_) + 1))
            ia, ib = grid[times_a], grid[times_b]
            calls.append((system_, pt_, initial_state, ia, ib))
            out = np.empty((len(ia), len(ib)), dtype=complex if inp.mode == "real" else object)
            for x, a in enumerate(ia):
                for y, b in enumerate(ib):
                    out[x, y] = stub.value([a, b]) if a <= b else complex(np.nan, np.nan)
            return [np.array(ia) * pt_.dt, np.array(ib) * pt_.dt], out

        ks = [sym_int(inp, "k%d" % i, 1, N + 1) for i in range(self.nq)]
        fts = [near_time(inp, "ft%d" % i, ks[i], 0.0, dt) for i in range(self.nq)]
        obs = []
        with patched({BD + ".compute_correlations": fake_cc}), _quiet():
            obj = bd.TwoTimeBathCorrelations(system, bath, pt, initial_state=rho0)
            kmax = None
            for i in range(self.nq):
                obj.generate_system_correlations(fts[i], progress_type="silent")
                k = as_int(ks[i])
                kmax = k if kmax is None else max(kmax, k)
                obs += self._matrix_obs(inp, "after query %d of the history" % (i + 1), obj._system_correlations, kmax, stub)
            fresh = bd.TwoTimeBathCorrelations(system, bath, pt, initial_state=rho0)
            fresh.generate_system_correlations(fts[-1], progress_type="silent")
            obs += self._matrix_obs(inp, "fresh object asked once", fresh._system_correlations, as_int(ks[-1]), stub, key="fresh")
        obs.append(Ob.holds("system, process tensor and initial state reach compute_correlations",
                            all(c[0] is system and c[1] is pt and c[2] is not None and np.array_equal(c[2], rho0) for c in calls),
                            key="args"))
        return obs

    @staticmethod
    def _matrix_obs(inp, label, mat, k, stub, key="cache"):
        if tuple(mat.shape) != (k, k):
            return [Ob.holds(label + ": cached matrix has shape (k, k)", False, key=key)]
        conds = []
        for i in range(k):
            for j in range(k):
                v = mat[i, j]
                if i <= j:
                    conds.append((not is_nan_entry(v)) and _eq_entry(v, stub.value([i, j])))
                else:
                    conds.append(is_nan_entry(v))
        return [Ob.holds(label + ": entry [i, j] == Corr(step i, step j) for i <= j, NaN below the diagonal", all_of(conds), key=key)]


# ------------------------------------------------------------------------------------------
# H7  the operator whose correlations TwoTimeBathCorrelations generates is the bath's coupling operator
# ------------------------------------------------------------------------------------------
COUPLINGS = {
    "sigma_y": np.array([[0.0, -1.0j], [1.0j, 0.0]]),
    "n_sigma": np.array([[1.0, 2.0 - 2.0j], [2.0 + 2.0j, -1.0]]) / 3.0,         # complex Hermitian, eigenvalues +-1
    "sigma_x": np.array([[0.0, 1.0], [1.0, 0.0]]),
    "herm3": np.array([[0.0, 1.0 - 1.0j, 0.5j], [1.0 + 1.0j, 1.0, 2.0], [-0.5j, 2.0, -1.0]]),
}


class H7(Case):
    """real Bath (eigh of a complex Hermitian coupling operator O, built outside the symbolic environment) and real
    TwoTimeBathCorrelations.generate_system_correlations with a recording compute_correlations:
    (a) with the bath's own diagonal the operators handed over equal O, the operator given to Bath;
    (b) with the stored diagonal replaced by SYMBOLIC eigenvalues d (the stored unitary U kept) they equal
        sum_k U[i,k] d_k conj(U[j,k]) = (U diag(d) U^dagger)[i,j] for all d."""
    functions = ("TwoTimeBathCorrelations.__init__", "TwoTimeBathCorrelations.generate_system_correlations", "Bath.__init__",
                 "Bath.unitary_transform", "Bath.coupling_operator")
    stubs = ("bath_dynamics.compute_correlations -> recorder of the operators it is given",
             "numpy.linalg.eigh runs for real on the concrete operator (its contract O = U diag(w) U^dagger is asserted by Bath itself)")
    env = ENV_BD

    def __init__(self, name):
        self.name = name
        self.O = COUPLINGS[name]
        self.dim = self.O.shape[0]
        self.id = "H7/coupling_operator_%s" % name
        self.bounds = {"coupling operator": name, "dimension": self.dim, "eigenvalues": "symbolic real (b) / the bath's own (a)"}
        sdens = oqupy.PowerLawSD(alpha=0.1, zeta=1.0, cutoff=1.0, cutoff_type="exponential")
        self.bath_a = oqupy.Bath(self.O.copy(), sdens)
        self.bath_b = oqupy.Bath(self.O.copy(), sdens)

    def run(self, inp):
        import oqupy.bath_dynamics as bd
        dim, N = self.dim, 2
        pt = ptm.SimpleProcessTensor(hilbert_space_dimension=dim, dt=0.1)
        for k in range(N):
            pt.set_mpo_tensor(k, np.ones((1, 1, dim * dim)))
        system = oqupy.System(np.zeros((dim, dim)))
        rho0 = np.identity(dim) / dim
        got = []

        def rec(system_, pt_, op_a, op_b, times_a, times_b, **kw):
            got.append((op_a, op_b))
            grid = list(range(len(pt_) + 1))
            ia, ib = grid[times_a], grid[times_b]
            return None, np.zeros((len(ia), len(ib)), dtype=complex)

        d = [inp.real("d%d" % k) for k in range(dim)]
        U = np.array(self.bath_b.unitary_transform, dtype=complex)
        saved = self.bath_b._coupling_operator
        Dm = inp.const(np.zeros((dim, dim)))
        for k in range(dim):
            Dm[k, k] = d[k]
        try:
            self.bath_b._coupling_operator = Dm
            with patched({BD + ".compute_correlations": rec}), _quiet():
                bd.TwoTimeBathCorrelations(system, self.bath_a, pt, initial_state=rho0).generate_system_correlations(0.2, progress_type="silent")
                bd.TwoTimeBathCorrelations(system, self.bath_b, pt, initial_state=rho0).generate_system_correlations(0.2, progress_type="silent")
        finally:
            self.bath_b._coupling_operator = saved
        obs = [Ob.holds("compute_correlations asked once per object", len(got) == 2, key="calls")]
        if len(got) != 2:
            return obs
        exp = inp.const(np.zeros((dim, dim)))
        for i in range(dim):
            for j in range(dim):
                acc = inp.zero()
                for k in range(dim):
                    if inp.mode == "real":
                        acc = acc + U[i, k] * np.conj(U[j, k]) * d[k]
                    else:            # every stored matrix entry is read as the exact number the engine lifts it to
                        acc = acc + S.of(complex(U[i, k])) * S.of(complex(np.conj(U[j, k]))) * d[k]
                exp[i, j] = acc
        for nm, op in (("operator_a", got[1][0]), ("operator_b", got[1][1])):
            obs.append(ob_eq_poly(inp, "(b) %s == U diag(d) U^dagger for symbolic eigenvalues d" % nm, op, exp, key="rotation"))
        from vf.core import _as_complex
        for nm, op in (("operator_a", got[0][0]), ("operator_b", got[0][1])):
            a = _as_complex(op)
            obs.append(Ob.holds("(a) %s handed to compute_correlations == the coupling operator given to Bath" % nm,
                                a.shape == self.O.shape and bool(np.max(np.abs(a - self.O)) <= 1e-9), key="bath_operator"))
        return obs


# ------------------------------------------------------------------------------------------
# H8  TwoTimeBathCorrelations.correlation: how the kernel sum, the couplings, the free-mode term and the
#     Schroedinger-picture phase are put together (the kernels themselves stay outside the claim)
# ------------------------------------------------------------------------------------------
class H8(Case):
    """real correlation() on a concrete system-correlation table C (upper triangular, NaN below), with `_calc_kernel`
    replaced by SYMBOLIC kernels K_R, K_I (recording its arguments) and symbolic band widths dw:
        value == ( sum_ij [Re C_ij K_R,ij + i Im C_ij K_I,ij] dw_1 sqrt(J(w1)) dw_2 sqrt(J(w2)) + free ) * phase
        free  == n(w) [T>0] + [dagg == (0,1)]   iff  not change_only, w1 == w2, dagg in ((1,0),(0,1));  n = e^{-w/T}/(1-e^{-w/T})
        phase == exp(i((2 dagg0 - 1) w2 t2 + (2 dagg1 - 1) w1 t1))   unless interaction_picture
    i.e. the same-mode free term carries e^{+-i w (t2 - t1)} (<a^dag(t2) a(t1)> = n e^{i w (t2-t1)}, <a(t2) a^dag(t1)> = (n+1) e^{-i w (t2-t1)}).
    Frequencies, times and temperature are concrete rationals (np.exp runs for real), kernels and dw are symbolic."""
    functions = ("TwoTimeBathCorrelations.correlation", "TwoTimeBathCorrelations.generate_system_correlations")
    stubs = ("TwoTimeBathCorrelations._calc_kernel -> symbolic real kernels K_R, K_I of the requested shape (recording its arguments)",)
    env = ENV_BD
    DAGGS = ((1, 0), (0, 1), (1, 1), (0, 0))

    def __init__(self, temp, same_mode=True):
        self.temp, self.same_mode = temp, same_mode
        self.id = "H8/bath_correlation_T%s_%s" % (temp, "same_mode" if same_mode else "two_modes")
        self.bounds = {"temperature": temp, "freq_1": 1.25, "freq_2": 1.25 if same_mode else 0.75, "time_1": 0.1, "time_2": 0.3,
                       "dt": 0.1, "dagg": "all four", "interaction_picture": "both", "change_only": "both"}
        self.bath = oqupy.Bath(0.5 * oqupy.operators.sigma("z"),
                               oqupy.PowerLawSD(alpha=0.1, zeta=1.0, cutoff=1.0, cutoff_type="exponential", temperature=float(temp)))

    def run(self, inp):
        import oqupy.bath_dynamics as bd
        dt, N = 0.1, 3
        w1, t1, t2 = 1.25, 0.1, 0.3
        w2 = w1 if self.same_mode else 0.75
        k = 3
        T = float(self.temp)
        pt = _mk_pt(N, dt)
        system = oqupy.System(np.zeros((2, 2)))
        table = np.array([[(1 + i + 2 * j) / 4.0 + 1j * (2 + 3 * i - j) / 8.0 if i <= j else complex(np.nan, np.nan)
                           for j in range(k)] for i in range(k)], dtype=complex)
        KR, KI = inp.arr("KR", (k, k)), inp.arr("KI", (k, k))
        dw = (inp.real("dw0"), inp.real("dw1"))
        J1 = self.bath.correlations.spectral_density(w1)
        J2 = self.bath.correlations.spectral_density(w2)
        obs = []
        for dagg in self.DAGGS:
            for ip in (False, True):
                for co in (False, True):
                    obj = bd.TwoTimeBathCorrelations(system, self.bath, pt, initial_state=np.eye(2) / 2, system_correlations=table.copy())
                    kcalls = []

                    def kern(f1, ti1, f2, ti2, dg, _k=kcalls):
                        _k.append((f1, ti1, f2, ti2, tuple(dg)))
                        return KR, KI
                    obj._calc_kernel = kern
                    with _quiet():
                        val = obj.correlation(w1, t1, w2, t2, dw=dw, dagg=dagg, interaction_picture=ip, change_only=co,
                                              progress_type="silent")
                    tag = "dagg=%s %s%s" % (dagg, "interaction picture" if ip else "Schroedinger picture", ", change only" if co else "")
                    obs.append(Ob.holds(tag + ": kernel requested for (freq_1, time_1, freq_2, time_2, dagg)",
                                        kcalls == [(w1, t1, w2, t2, tuple(dagg))], key="kernel_args"))
                    acc = inp.zero()
                    for i in range(k):
                        for j in range(i, k):
                            acc = acc + table[i, j].real * KR[i, j] + 1j * (table[i, j].imag * KI[i, j])
                    acc = acc * (dw[0] * J1 ** 0.5) * (dw[1] * J2 ** 0.5)
                    if (not co) and w1 == w2 and dagg in ((1, 0), (0, 1)):
                        if T > 0:
                            acc = acc + np.exp(-w1 / T) / (1 - np.exp(-w1 / T))
                        if dagg == (0, 1):
                            acc = acc + 1
                    if not ip:
                        acc = acc * np.exp(1j * ((2 * dagg[0] - 1) * w2 * t2 + (2 * dagg[1] - 1) * w1 * t1))
                    obs.append(ob_eq_poly(inp, tag + ": value == (kernel sum * couplings + free-mode term) * phase", val, acc,
                                          key="composition"))
        return obs


# --------------------------------------------------------------------------
# H9  (E2, bit-precise floats) the step indices of TwoTimeBathCorrelations._calc_kernel
# --------------------------------------------------------------------------
from vf import fpx
from vf.fpx import FCase, FOb, FInputs


class H9(FCase):
    """TwoTimeBathCorrelations._calc_kernel: the region boundary `switch` (index of the earlier time t_1) and the kernel
    dimension `ker_dim` (index of t_2) are the grid indices of the given times, for every double within one ulp of
    fl(k*dt) (this includes decimal literals such as 0.3 with dt 0.1, where 0.3/0.1 = 2.9999999999999996).
    The two assignments are evaluated from the CURRENT source (backward slice), nothing is copied into the harness."""
    env = {"extra": fpx.shadows("oqupy.bath_dynamics")}
    stubs = ("backward slice of _calc_kernel w.r.t. `switch` / `ker_dim` (the kernel arithmetic after them is outside this case; "
             "it is covered through the closed-form comparison of H8)",)
    assumptions = ("time within one ulp of fl(k*dt), 1e-3 <= dt <= 10, k <= 1000",)
    timeout_s = 120
    fp_timeout_s = 60

    def __init__(self, which):
        self.which = which          # 'switch' (time_1) | 'ker_dim' (time_2)
        self.id = "H9/_calc_kernel/%s" % which
        self.bounds = {"k_max": 1000, "dt": [1e-3, 10], "time": "grid point +- 1 ulp"}
        self.functions = ("oqupy/bath_dynamics.py:TwoTimeBathCorrelations._calc_kernel (backward slice of `%s`)" % which,)

    def fp_instances(self, fi):
        dt, k = fi.fpvars["dt"], fi.fpvars["k"]
        return [("dt=0.1, k<=15", [dt == z3.FPVal(0.1, fpx.F64), z3.ULE(k, 15)]), ("k<=15", [z3.ULE(k, 15)]),
                ("dt=0.1", [dt == z3.FPVal(0.1, fpx.F64)])]

    def run(self, inp):
        import oqupy.bath_dynamics as bd
        fi = FInputs.wrap(inp)
        dt = fi.double("dt", 1e-3, 10.0)
        k = fi.count("k", 0, 1000)
        t = fi.neighbour("t", fi.to_float(k) * dt)
        val, stmts = fpx.eval_slice(bd.TwoTimeBathCorrelations._calc_kernel, self.which, {"time_1": t, "time_2": t, "dt": dt})
        info = None if fi.symbolic else "dt=%r t=%r k=%d -> %s = %r (%s)" % (dt, t, k, self.which, val, "; ".join(stmts))
        return [FOb("%s == grid index of the time" % self.which, val == k, key="index", outputs={"n": val}, info=info)]


def cases(tier):
    cs = []
    # ---- H1 _parse_times
    cs += [H1Int(3), H1Float(3, 0.1), H1Float(3, "sym")]
    cs += [H1Slice(2, 4, (-2, -1, 1, 2)), H1Slice(3, 5, (-1,), "ab"), H1Slice(3, 5, (-2, -1, 1, 2, 3), "c"), H1List(3, 2), H1List(2, 3),
           H1Interval(3, 0.1, "general"), H1Interval(3, "sym", "general"), H1Interval(3, 0.1, "rev_to0"), H1Interval(3, "sym", "rev_to0")]
    # ---- H2 bookkeeping
    cs += [H2("nt", ("int", "float"), 4), H2("ordered", ("float", "int"), 3, dt_user="sym"), H2("anti", ("int", "int"), 3),
           H2("nt", ("int", "float", "int"), 3)]
    cs += [H2("ordered", ("list2", "list3"), 2), H2("anti", ("list3", "list2"), 2, dt_user="sym"), H2("nt", ("int", "list1", "list2"), 2),
           H2("ordered", ("slice", "int"), 2)]
    for part in ("desc_last_filtered", "desc_last_unfiltered"):
        cs += [H2("ordered", ("list2", "list3"), 2, part), H2("anti", ("list2", "list2"), 2, part), H2("nt", ("int", "int", "list2"), 2, part)]
    cs += [H2("nt", ("int", "int", "int", "int"), 3)]          # earlier operators pairwise out of order (needs >= 4 operators)
    cs += [H6(3, 2), H6(4, 3)]
    cs += [H9("switch"), H9("ker_dim")]
    cs += [H8(0.8), H8(0, True), H8(0.8, False)]
    cs += [H7("sigma_y"), H7("n_sigma"), H7("sigma_x"), H7("herm3")]
    # ---- H3 dt
    cs += [H3Stub("none"), H3Stub("set"), H3Real("none"), H3Real("set"), H3Real("set", start=0.3), H3Real("none", start=-0.7),
           H3Real("set", start=0.3, pass_dt=False)]
    # ---- H4 values
    cs += [H4("ordered", ("left", "left"), ("all", "all"), 2), H4("anti", ("right", "left"), ("all", "all"), 2),
           H4("nt", ("right", "left"), ("rev", "all"), 2, rank=3), H4("nt", ("left", "right", "left"), ("all", "all", "all"), 2, bond=1),
           H4("nt", ("left", "left"), ("int", "all"), 3), H4("ordered", ("left", "left"), ("float", "list2"), 2, start=0.3)]
    if tier == "thorough":
        cs += [H1Int(4), H1Float(4, "sym"), H1Slice(4, 6, (-3, -2, -1, 1, 2, 3)), H1Slice(3, 5, (-2, -1, 1, 2)), H1List(3, 3, R=5), H1List(4, 2),
               H1Interval(4, "sym", "general"), H1Interval(4, "sym", "rev_to0")]
        cs += [H2("nt", ("list2", "list2", "list2"), 2), H2("ordered", ("list2", "list3"), 3), H2("anti", ("list2", "list3"), 3),
               H2("nt", ("float", "int", "float", "int"), 4), H2("ordered", ("int", "slice"), 2), H2("anti", ("slice", "int"), 2, dt_user="sym"),
               H2("nt", ("list2", "list2", "list2"), 2, "desc_last_filtered"), H2("nt", ("list2", "list2", "list2"), 2, "desc_last_unfiltered"),
               H2("ordered", ("int", "slice"), 2, "desc_last_filtered"), H2("ordered", ("int", "slice"), 2, "desc_last_unfiltered")]
        cs += [H2("ordered", ("list3", "list3"), 3), H2("nt", ("list2", "list2", "list2"), 3), H2("ordered", ("slice", "int"), 3),
               H2("ordered", ("list2", "list3"), 3, "desc_last_filtered"), H2("ordered", ("list2", "list3"), 3, "desc_last_unfiltered"),
               H2("anti", ("list3", "list2"), 3, "desc_last_filtered", dt_user="sym"), H2("anti", ("list3", "list2"), 3, "desc_last_unfiltered", dt_user="sym")]
        cs += [H4("nt", ("left", "right", "left"), ("all", "all", "all"), 3), H4("nt", ("left", "right", "right", "left"), ("all", "int", "all", "all"), 2, bond=1)]
        cs += [H4("ordered", ("left", "left"), ("all", "all"), 3), H4("anti", ("right", "left"), ("all", "all"), 3),
               H4("nt", ("left", "right", "left"), ("all", "all", "all"), 2), H4("nt", ("right", "left", "right"), ("int", "rev", "all"), 3, bond=1),
               H4("nt", ("left", "left", "left"), ("all", "all", "all"), 3, rank=3)]
    return cs


def main(tier, seed, args):
    import sys
    return fpx.run_cases("C07", sys.modules[__name__], tier, seed, args, hard_timeout_s=(600 if tier == "quick" else 3000))
