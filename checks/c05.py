"""C05 -- basis covariance; every Hermitian coupling operator accepted with a unitary
diagonalising transform.

H1  covariance of the back-ends for a symbolic unitary W: TEMPO / mean-field TEMPO with
    unitary_transform = W and PT-TEMPO with transform_in/out from the real
    PtTempo._init_simple_process_tensor, versus the run in the eigenbasis with state,
    propagators and result conjugated by W.  |a|^2+|b|^2 = 1 is eliminated by
    homogenisation: nu^(2n+2) * lhs_n == rhs_n as an unconstrained polynomial identity
    (nu = |a|^2+|b|^2), of which the claim is the restriction to nu = 1.
H2  Bath.__init__ on a symbolic Hermitian operator with the LAPACK eigen-solver replaced
    by a nondeterministic stub constrained only by the DOCUMENTED contract of the function
    the code actually calls (numpy.linalg.eig: A v_k = w_k v_k, unit-norm columns,
    invertible v -- NOT orthogonal; numpy.linalg.eigh: orthonormal v, real ascending w):
    the operator is accepted, the stored transform is unitary, eigenvalues real, and it
    reproduces the operator.
"""
import numpy as np

import oqupy
import oqupy.bath as bathmod
import oqupy.pt_tempo as ptmod
import oqupy.system_dynamics as sd
from oqupy.backends.tempo_backend import MeanFieldTempoBackend

from vf.core import Case, Ob, PreconditionFailed
from vf import lib, sym, env
from vf.sym import S

ASSUMPTIONS = [
    "exact arithmetic, SVD without truncation; d=2 for covariance (SU(2) parametrisation), d=3 for the diagonalisation contract; d=4,5 outside the bound",
    "what LAPACK returns for a given matrix is outside the claim: only the documented contract of the called routine is modelled; contract-level counterexamples are reported only if they reproduce with the real LAPACK",
]
STUBS = ("tensornetwork numpy backend svd -> exact non-truncating factorisation",
         "System.get_propagators -> symbolic half-step propagators")


def dagger(M):
    n, m = M.shape
    out = np.empty((m, n), dtype=M.dtype)
    for i in range(n):
        for j in range(m):
            out[j, i] = M[i, j].conjugate()
    return out


def unitary(inp, kind):
    """-> W (2x2), nu (|a|^2+|b|^2 as scalar of the mode)"""
    if kind == "su2":
        a, b = inp.cplx("a"), inp.cplx("b")
        dt = complex if inp.mode == "real" else object
        W = np.array([[a, -b.conjugate()], [b, a.conjugate()]], dtype=dt)
        nu = (a * a.conjugate() + b * b.conjugate()).real
        return W, nu
    # real rotations: the same homogenisation with real a = c, b = s (nu = c^2 + s^2)
    c, s = inp.real("c"), inp.real("s")
    dt = complex if inp.mode == "real" else object
    W = np.array([[c, -s], [s, c]], dtype=dt)
    return W, c * c + s * s


def power(x, k):
    out = x
    for _ in range(k - 1):
        out = out * x
    return out


class H1(Case):
    """Formulation: eigenbasis quantities rho0', P' are the free symbols (run B is then free of
    W); the original-basis inputs of run A are rho0 = SU rho0', P = SU P' SUd.  Claim at
    nu = 1:  A_n = SU B_n.  Homogeneous form proved:  A_n = nu^(c n) SU B_n  with c counting
    the W-pairs met per step (2 for the rotated dk=0 tensor or the in/out transforms, 2 per
    non-identity propagator)."""
    stubs = STUBS
    env = {"np_proxy_modules": ("oqupy.pt_tempo",)}
    functions = ("BaseTempoBackend.initialize_mps_mpo", "TempoBackend.*", "MeanFieldTempoBackend.*", "PtTempo._init_simple_process_tensor",
                 "SimpleProcessTensor.get_mpo_tensor", "SimpleProcessTensor.compute_caps", "PtTempoBackend.*",
                 "system_dynamics.compute_dynamics", "operators.left_right_super")

    def __init__(self, method, N, kind, K=None, props="gen", unique=False):
        self.method, self.N, self.kind, self.K, self.props, self.unique = method, N, kind, K, props, unique
        self.id = "H1/%s_%s_N%d_K%s_%s%s" % (method, kind, N, K, props, "_unique" if unique else "")
        self.bounds = {"method": method, "d": 2, "N": N, "unitary": kind, "dkmax": K, "propagators": props, "unique": unique}
        self.timeout_s = 900
        self.first_timeout_s = 300

    def run(self, inp):
        d, D, N, K = 2, 4, self.N, self.K
        W, nu = unitary(inp, self.kind)
        Wd = dagger(W)
        SU = np.kron(W, Wd.T)          # vec(W rho W^dagger)
        SUd = np.kron(Wd, W.T)         # vec(W^dagger rho W)
        infl = lib.Influences(inp, d, K)
        ident = np.identity(D) if inp.mode == "real" else sym.obj_eye(D)

        def mk(name, k):
            if self.props == "id" or (self.props == "gen0" and (k > 0 or name == "q")):
                return ident, 0
            return lib.gen_prop(inp, "%s%d" % (name, k), d), 1
        P1e, P2e, npairs = [], [], []
        for k in range(N):
            a, na = mk("p", k)
            b, nb = mk("q", k)
            P1e.append(a)
            P2e.append(b)
            npairs.append(2 + 2 * na + 2 * nb)      # W-pairs met in step k of run A
        P1 = [P if P is ident else SU.dot(P).dot(SUd) for P in P1e]
        P2 = [P if P is ident else SU.dot(P).dot(SUd) for P in P2e]
        rho0e = inp.arr("r", (D,))
        rho0 = SU.dot(rho0e)
        ukw, maps = {}, None
        infl_u = infl
        if self.unique:
            # degeneracy structure of a non-degenerate two-level coupling: north trivial, west {0,3} merged
            maps = [np.arange(4), np.array([0, 1, 2, 0])]
            ukw = dict(degeneracy_maps=maps, sum_north=np.ones(4), sum_west=np.ones(3))

            def infl_u(dk):
                m = infl(dk)
                if m is None:
                    return None
                if dk == 0:
                    return np.array([m[i, i] for i in range(D)], dtype=m.dtype)
                return m[:, [0, 1, 2]]
        if self.method == "tempo":
            A = lib.run_tempo(inp, rho0, infl_u, P1, P2, N, K, d, unitary=W, **ukw)
            B = lib.run_tempo(inp, rho0e, infl, P1e, P2e, N, K, d)
        elif self.method == "mf":
            def mf(r0, p1, p2, U, uq=False):
                be = MeanFieldTempoBackend([r0], 1.0, [infl_u if uq else infl], [U], [lambda step, f, df: (p1[step], p2[step])],
                                           lambda step, sl, f, nsl: f, lambda step, sl, f: 0.0,
                                           [np.ones(D)], [np.ones(3) if uq else np.ones(D)], K, lib.EPS_REAL, {},
                                           degeneracy_maps_list=[maps if uq else None], dim_list=[d])
                be.initialize()
                out = [r0]
                for _ in range(N):
                    out.append(be.compute_step()[1][0])
                return out
            A = mf(rho0, P1, P2, W, self.unique)
            B = mf(rho0e, P1e, P2e, np.identity(d))
        else:
            p = ptmod.PtTempo.__new__(ptmod.PtTempo)
            oqupy.base_api.BaseAPIClass.__init__(p, None, None)

            class B_:
                unitary_transform = W
            p._bath, p._dimension = B_(), d

            class P_:
                dt = 0.5
            p._parameters = P_()
            p._init_simple_process_tensor()
            pt = lib.run_pt_tempo(inp, infl, N, K, d, process_tensor=p._process_tensor)
            A = [s.reshape(D) for s in lib.dynamics_states(sd.compute_dynamics(
                lib.FakeSystem(d, P1, P2), initial_state=rho0.reshape(d, d), process_tensor=pt, progress_type="silent"))]
            pte = lib.run_pt_tempo(inp, infl, N, K, d)
            B = [s.reshape(D) for s in lib.dynamics_states(sd.compute_dynamics(
                lib.FakeSystem(d, P1e, P2e), initial_state=rho0e.reshape(d, d), process_tensor=pte, progress_type="silent"))]
        obs = []
        pairs = 0
        for n in range(N + 1):
            rhs = SU.dot(B[n])
            if pairs:
                rhs = rhs * power(nu, pairs)
            obs.append(Ob.eq("covariance at step %d" % n, A[n], rhs))
            if n < N:
                pairs += npairs[n]
        return obs


class LinalgStub:
    """nondeterministic eigen-solver: returns fresh symbols constrained by the documented
    contract of the routine that is called"""

    def __init__(self, inp):
        self.inp = inp
        self.called = []

    def _common(self, M, tag):
        n = M.shape[0]
        w = self.inp.arr("w" + tag, (n,))
        v = self.inp.arr("v" + tag, (n, n))
        for k in range(n):
            lhs = M.dot(v[:, k])
            for i in range(n):
                self.inp.assume(S.of(lhs[i]) == S.of(w[k] * v[i, k]))
        return w, v

    def eig(self, M):
        self.called.append("eig")
        w, v = self._common(M, "")
        n = M.shape[0]
        for k in range(n):
            self.inp.assume(S.of(sum((v[i, k] * v[i, k] for i in range(1, n)), v[0, k] * v[0, k])) == 1)
        self.inp.assume(S.of(_det(v)) != 0)
        return w, v

    def eigh(self, M, UPLO="L"):
        self.called.append("eigh")
        w, v = self._common(M, "")
        n = M.shape[0]
        for k in range(n):
            for l in range(k, n):
                dot = sum((v[i, k] * v[i, l] for i in range(1, n)), v[0, k] * v[0, l])
                self.inp.assume(S.of(dot) == (1 if k == l else 0))
        for k in range(n - 1):
            self.inp.assume(S.of(w[k]) <= S.of(w[k + 1]))
        return w, v

    def __getattr__(self, name):
        return getattr(np.linalg, name)


def _det(v):
    n = v.shape[0]
    if n == 2:
        return v[0, 0] * v[1, 1] - v[0, 1] * v[1, 0]
    return (v[0, 0] * (v[1, 1] * v[2, 2] - v[1, 2] * v[2, 1]) - v[0, 1] * (v[1, 0] * v[2, 2] - v[1, 2] * v[2, 0])
            + v[0, 2] * (v[1, 0] * v[2, 1] - v[1, 1] * v[2, 0]))


class _Corr(oqupy.bath_correlations.BaseCorrelations):
    def correlation(self, *a, **k):
        raise NotImplementedError

    def correlation_2d_integral(self, *a, **k):
        raise NotImplementedError


class H2(Case):
    """O = lam * p p^T (+ mu * 1): real symmetric with a doubly repeated eigenvalue"""
    stubs = ("numpy.linalg.eig / eigh -> nondeterministic stub constrained by the routine's documented contract",
             "bath._row_degeneracy -> dummy (not the subject of H2)")
    functions = ("Bath.__init__", "operators.commutator", "operators.acommutator")
    validate = False           # random points do not satisfy the eigen-equations; replay goes through the real LAPACK
    presearch_attempts = 0     # instances with the eigen-equations fixed to random values are never satisfiable

    def __init__(self, variant):
        self.variant = variant
        self.id = "H2/diagonalisation_%s" % variant
        self.bounds = {"d": 3, "operator": variant}
        self.timeout_s = 900
        self.first_timeout_s = 900

    def operator(self, inp):
        v = self.variant
        if v == "sym_p":
            p = inp.arr("p", (3,))
        else:
            vals = {"p110": [1, 1, 0], "p123": [1, 2, 3], "p1m12": [1, -1, 2], "p011": [0, 1, 1], "p212": [2, 1, 2], "p101": [1, 0, 1]}[v]
            p = inp.const(np.array(vals, dtype=float)).real if inp.mode == "real" else inp.const(np.array(vals, dtype=float))
        O = np.empty((3, 3), dtype=complex if inp.mode == "real" else object)
        for i in range(3):
            for j in range(3):
                O[i, j] = p[i] * p[j]
        return O

    def run(self, inp):
        O = self.operator(inp)
        if inp.mode == "sym":
            # non-diagonal operator (the diagonal branch of Bath.__init__ does not diagonalise)
            inp.assume((S.of(O[0, 1]) != 0) | (S.of(O[0, 2]) != 0) | (S.of(O[1, 2]) != 0))
            stub = LinalgStub(inp)
            contingent = []
            proxy = env.NpProxy({"linalg": stub, "allclose": _make_allclose(inp, contingent)})
            ctx = env.patched({"oqupy.bath.np": proxy, "oqupy.bath._row_degeneracy": lambda m: np.zeros(9, dtype=int)})
        elif inp.mode == "real":
            ctx = env.patched({})
        else:
            raise PreconditionFailed()
        with ctx:
            try:
                b = oqupy.Bath(O, _Corr())
            except AssertionError as e:
                return [Ob.holds("Hermitian operator accepted (Bath.__init__ raised: %s)" % str(e)[:60], False, key="accepted")]
        extra = [Ob.holds("Bath's own consistency check #%d passes (operator accepted)" % k, c, key="accepted")
                 for k, c in enumerate(contingent)] if inp.mode == "sym" else []
        U = b._unitary
        Ud = dagger(np.asarray(U, dtype=complex if inp.mode == "real" else object))
        one = np.identity(3) if inp.mode == "real" else sym.obj_eye(3)
        Dg = b._coupling_operator
        offd = np.array([Dg_ij for Dg_ij in (b._coupling_operator[i, j] for i in range(3) for j in range(3) if i != j)],
                        dtype=complex if inp.mode == "real" else object)
        zero6 = np.zeros(6) if inp.mode == "real" else inp.const(np.zeros(6))
        obs = [Ob.eq("stored coupling operator is diagonal", offd, zero6, key="diagonal"),
               Ob.eq("transform is unitary", np.asarray(U).dot(Ud), one, key="unitary"),
               Ob.eq("reproduces the operator", np.asarray(U).dot(Dg).dot(Ud), O, key="reproduces"),
               Ob.eq("eigenvalues real", np.array([Dg[i, i].imag for i in range(3)], dtype=Dg.dtype), np.zeros(3) if inp.mode == "real" else inp.const(np.zeros(3)), key="real-eigenvalues")]
        return extra + obs


class H2f(Case):
    """CONCRETE observation in double precision (no solver contribution; complements H2): coupling operators built as
    V diag(w) V^dagger in floating point -- Hermitian only up to rounding, which is what 'conjugated by arbitrary
    unitaries' means for a user -- with repeated and zero eigenvalues are accepted by the real Bath (real LAPACK), and
    the reported transform is unitary, gives real eigenvalues and reproduces the operator to 1e-10."""
    stubs = ()
    functions = ("Bath.__init__",)
    validate = False

    def __init__(self):
        self.id = "H2f/float_products_accepted"
        self.bounds = {"d": "2..4", "operators": "12 seeded V diag(w) V^dagger products (complex V from QR), spectra with repeated / zero eigenvalues",
                       "arithmetic": "IEEE double, real LAPACK"}

    def run(self, inp):
        rng = np.random.RandomState(20260926)
        spectra = {2: [[1.0, 1.0], [0.0, 0.5], [0.0, 0.0]], 3: [[1.0, 1.0, -0.5], [0.0, 0.0, 2.0], [0.3, 0.3, 0.3], [0.0, 1.0, 3.0]],
                   4: [[0.5, 0.5, -0.5, -0.5], [0.0, 0.0, 0.0, 1.0], [1.0, 2.0, 2.0, 3.0]]}
        obs, nonsym = [], 0
        import oqupy.config as _cfg
        with env.patched({"oqupy.bath.NpDtype": _cfg.NpDtype}):     # the real complex128 stack also inside the symbolic run
            for d, lst in sorted(spectra.items()):
                for w in lst:
                    V, _ = np.linalg.qr(rng.normal(size=(d, d)) + 1j * rng.normal(size=(d, d)))
                    O = (V * np.array(w)) @ V.conj().T
                    nonsym += int(abs(O - O.conj().T).max() > 0)
                    tag = "d=%d w=%s" % (d, w)
                    try:
                        b = oqupy.Bath(O, _Corr())
                    except AssertionError as e:
                        obs.append(Ob.holds("%s: Hermitian-up-to-rounding operator accepted (Bath raised: %s)" % (tag, str(e)[:50]), False, key="accepted-fp"))
                        continue
                    U, Dg = np.asarray(b._unitary), np.asarray(b._coupling_operator)
                    ok = (abs(U @ U.conj().T - np.identity(d)).max() < 1e-10 and abs(U @ Dg @ U.conj().T - O).max() < 1e-10
                          and abs(Dg - np.diag(Dg.diagonal())).max() < 1e-10 and abs(Dg.diagonal().imag).max() < 1e-10)
                    obs.append(Ob.holds("%s: accepted; transform unitary, diagonal, real eigenvalues, reproduces the operator (1e-10)" % tag, bool(ok), key="accepted-fp"))
        obs.append(Ob.holds("at least one of the products is not exactly Hermitian (the observation is not vacuous): %d" % nonsym, nonsym > 0, key="fp-nonvacuous"))
        return obs


def _make_allclose(inp, contingent):
    """np.allclose on symbolic operands without path forking on hard formulas: decided
    quickly if provable either way under the current assumptions, otherwise taken as True
    (the accepting path) and recorded as an obligation."""
    import z3

    def allclose(a, b, *args, **kw):
        ds = sym.neq_terms(np.broadcast_arrays(np.asarray(a, dtype=object), np.asarray(b, dtype=object))[0],
                           np.broadcast_arrays(np.asarray(a, dtype=object), np.asarray(b, dtype=object))[1])
        if not ds:
            return True
        f = z3.Or(*ds)
        for formula, verdict in ((f, True), (z3.Not(f), False)):
            s_ = z3.Solver()
            s_.set("timeout", 5000)
            s_.add(*inp.assumptions)
            s_.add(formula)
            if s_.check() == z3.unsat:
                return verdict
        contingent.append(sym.SB(z3.Not(f)))
        return True
    return allclose


def cases(tier):
    cs = [H1("tempo", 2, "su2", None, "id"), H1("tempo", 2, "su2", 1, "id"), H1("pt", 2, "su2", None, "id"), H1("pt", 2, "su2", 1, "id"),
          H1("mf", 2, "su2", 1, "id"), H1("tempo", 2, "su2", 1, "id", unique=True), H1("mf", 2, "su2", None, "id", unique=True),
          H1("tempo", 1, "su2", None, "gen", unique=True), H1("tempo", 1, "su2", None, "gen"), H1("mf", 1, "su2", None, "gen"), H1("pt", 2, "su2", None, "gen0"),
          H1("tempo", 2, "rot", 1, "gen0"), H1("pt", 2, "rot", 1, "gen0"), H1("tempo", 3, "su2", 1, "gen0"), H1("pt", 3, "su2", 1, "gen0"),
          H2("p110"), H2("p123"), H2("p011"), H2("p101"), H2f()]
    if tier == "thorough":
        cs += [H1("tempo", 3, "su2", 1, "id"), H1("pt", 3, "su2", 1, "id"), H1("mf", 3, "su2", None, "id"), H1("tempo", 2, "rot", None, "gen"),
               H1("pt", 2, "rot", None, "gen"), H1("tempo", 2, "su2", None, "gen0"), H1("mf", 3, "su2", 1, "gen0"), H2("p212"), H2("p1m12")]
    return cs
