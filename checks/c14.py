"""C14 -- splitting or repeating compute calls never changes the result.

H1  continuation: Tempo / MeanFieldTempo / PtTebd, symbolic targets e1,e2,e3 in 0..N in any
    order (+ interleaved get_dynamics) == one call with max(e_i).
H2  transient failure of a user callable at a symbolic call index, then the same compute
    again: same dynamics as without the failure, or the call fails again.
H3  fixed-end methods: PtTempo.compute()/get_process_tensor() and GibbsTempo.compute()
    repeated: no exception, same tensors / state.
H4  PtTebd restarted from get_augmented_mps() + start_step == uninterrupted run.
"""
import numpy as np

import oqupy
import oqupy.process_tensor as ptm

from vf.core import Case, Ob
from vf import lib
from vf import histories as hs
from vf.sym import S, SI

ASSUMPTIONS = [
    "exact real/complex arithmetic (floating-point rounding of tensor arithmetic outside the claim)",
    "end times are start + e*dt with dt in {1, 0.5} and integer start, so that (end-start)/dt is exact: the "
    "float->int rounding of targets is C13's subject and is not re-examined here",
    "conjugation-free contraction code is a polynomial map: identity over real symbols implies identity over complex values",
]

_TEMPO_ENV = dict(noconj=True)


def _tempo_env(N):
    extra = {}
    extra.update(hs.step_shadows("oqupy.tempo", -1, N + 1, ("int", "float", "max", "complex")))
    extra.update(hs.step_shadows("oqupy.dynamics", -1, N + 1, ("float", "complex")))
    return {"noconj": True, "extra": extra}


def _tempo_inputs(inp, d, K, N, name=""):
    infl = lib.Influences(inp, d, K, name=name + "I")
    P1 = [lib.tp_prop(inp, "%sp%d" % (name, k), d) for k in range(N)]
    P2 = [lib.tp_prop(inp, "%sq%d" % (name, k), d) for k in range(N)]
    rho0 = inp.arr(name + "r", (d, d))
    start = inp.int(name + "start", -2, 2)
    return infl, P1, P2, rho0, start


def _eq_lists(label, got, exp, key):
    """obligations: same length, entries equal"""
    obs = [Ob.holds("%s: number of entries" % label, len(got) == len(exp), key=key)]
    if len(got) == len(exp):
        for i, (g, e) in enumerate(zip(got, exp)):
            obs.append(Ob.eq("%s[%d]" % (label, i), g, e, key=key))
    return obs


# --------------------------------------------------------------------------
# H1  continuation
# --------------------------------------------------------------------------
class H1Tempo(Case):
    """Tempo.compute(e1); compute(e2); compute(e3) (any order, get_dynamics interleaved)
    == fresh object, one compute(max e_i); real TempoBackend across the dkmax boundary."""
    functions = ("Tempo.compute", "Tempo._get_num_step", "Tempo._time", "Tempo.get_dynamics", "TempoBackend.initialize",
                 "TempoBackend.compute_step", "BaseTempoBackend.compute_system_step", "Dynamics.add", "NodeArray.*")
    stubs = ("tensornetwork numpy backend svd -> exact non-truncating factorisation",
             "system.get_propagators closure -> symbolic trace-preserving half-step propagators",
             "influence_matrix -> symbolic influence matrices with trace structure")

    def __init__(self, N, K, dt=0.5, ncalls=3, tau_add=False):
        self.N, self.K, self.dt, self.ncalls, self.tau_add = N, K, dt, ncalls, tau_add
        self.id = "H1/tempo/N%d_K%s_dt%s_c%d%s" % (N, K, dt, ncalls, "_tau" if tau_add else "")
        self.bounds = {"d": 2, "N": N, "dkmax": K, "calls": ncalls, "dt": dt, "add_correlation_time": tau_add}
        self.env = _tempo_env(N)
        self.timeout_s = 300

    def run(self, inp):
        d, N, K, dt = 2, self.N, self.K, self.dt
        infl, P1, P2, rho0, start = _tempo_inputs(inp, d, K, N)
        if self.tau_add:
            infl.tau_add = True
        es = [inp.int("e%d" % i, 0, N) for i in range(self.ncalls)]
        t0 = hs.as_time(start, 0, dt)
        obj = hs.make_tempo(d, K, rho0, infl, P1, P2, t0, dt)
        obs = []
        for i, e in enumerate(es):
            ret = obj.compute(hs.as_time(start, e, dt), progress_type="silent")
            obs.append(Ob.holds("call %d returns the object's dynamics" % i, ret is obj.get_dynamics()))
        ref = hs.make_tempo(d, K, rho0, infl, P1, P2, t0, dt)
        ref.compute(hs.as_time(start, hs.sym_maximum(es), dt), progress_type="silent")
        gt, gs = hs.dyn_lists(obj.get_dynamics())
        rt, rs = hs.dyn_lists(ref.get_dynamics())
        obs += _eq_lists("times", gt, rt, "split_vs_single") + _eq_lists("states", gs, rs, "split_vs_single")
        # independent statement of what the single call must contain: times start + i*dt, i = 0..max
        obs.append(Ob.holds("number of time points = max target + 1", hs.sym_maximum(es) + 1 == len(rt), key="grid"))
        obs += [Ob.eq("time[%d] = start + %d*dt" % (i, i), rt[i], hs.as_time(start, i, dt), key="grid") for i in range(len(rt))]
        return obs


def _mf_inputs(inp, d, K, N):
    infl = lib.Influences(inp, d, K)
    A1 = [lib.gen_prop(inp, "a%d" % k, d) for k in range(N)]
    B1 = [lib.gen_prop(inp, "b%d" % k, d) for k in range(N)]
    A2 = [lib.gen_prop(inp, "q%d" % k, d) for k in range(N)]
    rho0 = inp.arr("r", (d, d))
    start = inp.int("start", -2, 2)
    f0 = inp.real("f0")
    w = [inp.real("w%d" % i) for i in range(3)]

    def eom(tm, states, field):
        # user's field equation of motion: any function of (t, states, field); here affine with symbolic weights
        return w[0] * field + w[1] * states[0][0, 1] + w[2] * tm
    return infl, A1, B1, A2, rho0, start, f0, eom


_MF_FUNCS = ("MeanFieldTempo.compute", "MeanFieldTempo._get_num_step", "MeanFieldTempo._time", "MeanFieldTempo._compute_field",
             "MeanFieldTempo._compute_field_derivative", "MeanFieldTempoBackend.initialize", "MeanFieldTempoBackend.compute_step",
             "BaseTempoBackend.compute_system_step", "MeanFieldDynamics.add", "Dynamics.add", "NodeArray.*")
_MF_STUBS = ("tensornetwork numpy backend svd -> exact non-truncating factorisation",
             "system.get_propagators closure -> field-dependent symbolic half-step propagators A1[k] + field*B1[k], A2[k]",
             "field_eom -> affine function of (t, rho[0,1], field) with symbolic weights",
             "influence_matrix -> symbolic influence matrices with trace structure")


class H1MeanField(Case):
    """MeanFieldTempo.compute split into several calls == single call (real MeanFieldTempoBackend,
    real _compute_field/_compute_field_derivative)."""
    functions = _MF_FUNCS
    stubs = _MF_STUBS

    def __init__(self, N, K, dt=0.5, ncalls=3):
        self.N, self.K, self.dt, self.ncalls = N, K, dt, ncalls
        self.id = "H1/meanfield/N%d_K%s_dt%s_c%d" % (N, K, dt, ncalls)
        self.bounds = {"d": 2, "systems": 1, "N": N, "dkmax": K, "calls": ncalls, "dt": dt}
        self.env = _tempo_env(N)
        self.timeout_s = 300

    def run(self, inp):
        d, N, K, dt = 2, self.N, self.K, self.dt
        infl, A1, B1, A2, rho0, start, f0, eom = _mf_inputs(inp, d, K, N)
        es = [inp.int("e%d" % i, 0, N) for i in range(self.ncalls)]
        t0 = hs.as_time(start, 0, dt)
        obj = hs.make_mean_field_tempo(d, K, rho0, infl, A1, B1, A2, t0, dt, f0, eom)
        for e in es:
            obj.compute(hs.as_time(start, e, dt), progress_type="silent")
        ref = hs.make_mean_field_tempo(d, K, rho0, infl, A1, B1, A2, t0, dt, f0, eom)
        ref.compute(hs.as_time(start, hs.sym_maximum(es), dt), progress_type="silent")
        g, r = hs.mf_lists(obj.get_dynamics()), hs.mf_lists(ref.get_dynamics())
        obs = []
        for nm, a, b in zip(("times", "fields", "states"), g, r):
            obs += _eq_lists(nm, a, b, "split_vs_single")
        obs.append(Ob.holds("number of time points = max target + 1", hs.sym_maximum(es) + 1 == len(r[0]), key="grid"))
        obs += [Ob.eq("time[%d] = start + %d*dt" % (i, i), r[0][i], hs.as_time(start, i, dt), key="grid") for i in range(len(r[0]))]
        return obs


# --------------------------------------------------------------------------
# H2  fault injection
# --------------------------------------------------------------------------
class H2Tempo(Case):
    """Tempo.compute: the user's Hamiltonian (evaluated inside the propagator closure the
    back-end calls once per step) raises at a symbolic call index; compute is called again."""
    functions = ("Tempo.compute", "Tempo._get_num_step", "Tempo._time", "TempoBackend.initialize",
                 "TempoBackend.compute_step", "BaseTempoBackend.compute_system_step", "Dynamics.add", "NodeArray.*")
    stubs = ("tensornetwork numpy backend svd -> exact non-truncating factorisation",
             "system.get_propagators closure -> symbolic trace-preserving half-step propagators; "
             "evaluating it stands for evaluating the user's Hamiltonian/rates/Lindblad operators",
             "influence_matrix -> symbolic influence matrices with trace structure")
    assumptions = ("the failure is transient: the user callable raises exactly once",)

    def __init__(self, N, K, dt=0.5, pre=True):
        self.N, self.K, self.dt, self.pre = N, K, dt, pre
        self.id = "H2/tempo_fault/N%d_K%s%s" % (N, K, "" if pre else "_single")
        self.bounds = {"d": 2, "N": N, "dkmax": K, "calls": "compute(e1); compute(N); each retried once after the fault"}
        self.env = _tempo_env(N)
        self.timeout_s = 300

    def run(self, inp):
        d, N, K, dt = 2, self.N, self.K, self.dt
        infl, P1, P2, rho0, start = _tempo_inputs(inp, d, K, N)
        fault = inp.int("fault", 0, N - 1)
        targets = ([inp.int("e1", 0, N)] if self.pre else []) + [N]
        plan = hs.FaultPlan(fault)
        obj = hs.make_tempo(d, K, rho0, infl, P1, P2, hs.as_time(start, 0, dt), dt, plan)
        out = _retry_history(obj, targets, lambda e: hs.as_time(start, e, dt))
        if out is not None:
            return out
        ref = hs.make_tempo(d, K, rho0, infl, P1, P2, hs.as_time(start, 0, dt), dt, None)
        ref.compute(hs.as_time(start, N, dt), progress_type="silent")
        gt, gs = hs.dyn_lists(obj.get_dynamics())
        rt, rs = hs.dyn_lists(ref.get_dynamics())
        key = "retry_after_fault" if plan.fired is not None else "fault_free"
        return _eq_lists("times", gt, rt, key) + _eq_lists("states", gs, rs, key)


def _retry_history(obj, targets, time_of):
    """compute(target) for each target; a call that fails with the injected UserFault is
    repeated once.  Returns obligations if the history ends early, else None."""
    retried = False
    for e in targets:
        T = time_of(e)
        try:
            obj.compute(T, progress_type="silent")
        except hs.UserFault:
            retried = True
            try:
                obj.compute(T, progress_type="silent")
            except Exception as ex:      # "or fails again" is accepted by the property
                return [Ob.holds("repeated call failed again (%s)" % type(ex).__name__, True, key="retry_after_fault")]
        except Exception as ex:
            if not retried:
                raise
            # the repeated call returned normally, but the object was left inconsistent
            return [Ob.holds("call after the repeated call raised %s" % type(ex).__name__, False, key="retry_after_fault")]
    return None


_MF_KINDS = {
    # user callables evaluated BEFORE the tensor networks are touched in a step:
    # field_eom in _compute_field_derivative (call 0 of a step), Hamiltonian in the propagators (call 1)
    "before_network": (0, 1),
    # field_eom evaluated by _compute_field (Runge-Kutta stages, calls 2 and 3 of a step), i.e. AFTER
    # every system's network has been advanced
    "in_compute_field": (2, 3),
}


class H2MeanField(Case):
    """MeanFieldTempo.compute: a user callable (field equation of motion or the Hamiltonian inside
    the propagator closure) raises once at a symbolic call index; compute is called again."""
    functions = _MF_FUNCS
    stubs = _MF_STUBS
    assumptions = ("the failure is transient: the user callable raises exactly once",)

    def __init__(self, kind, N, K, dt=0.5):
        self.kind, self.N, self.K, self.dt = kind, N, K, dt
        self.id = "H2/meanfield_fault_%s/N%d_K%s" % (kind, N, K)
        self.bounds = {"d": 2, "systems": 1, "N": N, "dkmax": K, "fault": "call index mod 4 in %s" % (_MF_KINDS[kind],),
                       "calls": "compute(e1); compute(N); each retried once after the fault"}
        self.env = _tempo_env(N)
        self.timeout_s = 300

    def run(self, inp):
        d, N, K, dt = 2, self.N, self.K, self.dt
        infl, A1, B1, A2, rho0, start, f0, eom = _mf_inputs(inp, d, K, N)
        step_of_fault = inp.int("fstep", 0, N - 1)
        which = inp.int("fcall", _MF_KINDS[self.kind][0], _MF_KINDS[self.kind][1])
        fault = 4 * step_of_fault + which
        e1 = inp.int("e1", 0, N)
        plan = hs.FaultPlan(fault)
        t0 = hs.as_time(start, 0, dt)
        obj = hs.make_mean_field_tempo(d, K, rho0, infl, A1, B1, A2, t0, dt, f0, eom, plan)
        out = _retry_history(obj, [e1, N], lambda e: hs.as_time(start, e, dt))
        if out is not None:
            return out
        ref = hs.make_mean_field_tempo(d, K, rho0, infl, A1, B1, A2, t0, dt, f0, eom)
        ref.compute(hs.as_time(start, N, dt), progress_type="silent")
        g, r = hs.mf_lists(obj.get_dynamics()), hs.mf_lists(ref.get_dynamics())
        obs = [Ob.holds("fault was injected", plan.fired is not None, key="harness")]
        for nm, a, b in zip(("times", "fields", "states"), g, r):
            obs += _eq_lists(nm, a, b, "retry_after_fault")
        return obs


# --------------------------------------------------------------------------
# H3  fixed-end methods
# --------------------------------------------------------------------------
_PT_SEQS = {
    # dedicated to the expected defect: a second compute() on a finished computation
    "compute_twice": ("compute", "compute", "get"),
    # everything else a caller can do around a finished computation
    "get_twice": ("get", "get"),
    "compute_get_get": ("compute", "get", "get"),
    "get_compute": ("get", "compute", "get"),
}


class H3PtTempo(Case):
    """PtTempo.compute()/get_process_tensor() repeated on the real PtTempoBackend: no
    exception, and the process tensor equals the one of a fresh object's single
    get_process_tensor()."""
    functions = ("PtTempo.compute", "PtTempo.get_process_tensor", "PtTempoBackend.initialize", "PtTempoBackend.compute_step",
                 "PtTempoBackend.update_process_tensor", "PtTempoBackend.get_mpo_tensor", "SimpleProcessTensor.*", "NodeArray.*")
    stubs = ("tensornetwork numpy backend svd -> exact non-truncating factorisation",
             "influence_matrix -> symbolic influence matrices with trace structure")
    env = {"noconj": True}

    def __init__(self, seq, N, K):
        self.seq, self.N, self.K = seq, N, K
        self.id = "H3/pt_tempo_%s/N%d_K%s" % (seq, N, K)
        self.bounds = {"d": 2, "N": N, "dkmax": K, "calls": list(_PT_SEQS[seq])}
        self.timeout_s = 300

    def run(self, inp):
        d, N, K = 2, self.N, self.K
        infl = lib.Influences(inp, d, (K if K is not None else N), tau_add=False)
        obj = hs.make_pt_tempo(d, N, K, infl)
        got = None
        first = None
        for i, c in enumerate(_PT_SEQS[self.seq]):
            try:
                if c == "compute":
                    obj.compute(progress_type="silent")
                else:
                    got = obj.get_process_tensor(progress_type="silent")
                    if first is None:
                        first = hs.pt_tensors(got), [got.get_cap_tensor(k) for k in range(N + 1)]
            except Exception as ex:       # noqa
                if i == 0:
                    raise
                return [Ob.holds("call %d (%s) on a finished computation raised %s" % (i, c, type(ex).__name__), False,
                                 key="repeated_call_raises")]
        ref = hs.make_pt_tempo(d, N, K, infl).get_process_tensor(progress_type="silent")
        obs = [Ob.holds("length", len(got) == N, key="tensors"), Ob.holds("same object", got is obj._process_tensor, key="tensors")]
        obs += _eq_lists("mpo", hs.pt_tensors(got), hs.pt_tensors(ref), "tensors")
        obs += _eq_lists("caps", [got.get_cap_tensor(k) for k in range(N + 1)], [ref.get_cap_tensor(k) for k in range(N + 1)], "tensors")
        obs += _eq_lists("mpo as first returned", hs.pt_tensors(got), first[0], "tensors")
        return obs


class H3Gibbs(Case):
    """GibbsTempo.compute() repeated on the real TIBaseBackend: the recorded dynamics and
    get_state() are those of a single compute()."""
    functions = ("GibbsTempo.compute", "GibbsTempo.get_state", "GibbsTempo._time", "TIBaseBackend.initialise",
                 "TIBaseBackend.compute_step", "TIBaseBackend.readout", "TIBaseBackend._contract",
                 "TIBaseBackend._truncate_left", "TIBaseBackend._truncate_right", "TIBaseBackend._influence_tensor", "Dynamics.add")
    stubs = ("scipy.linalg.svd in TIBaseBackend._scipy_svd -> exact non-truncating factorisation",
             "system.get_unitary_propagators -> symbolic half-step imaginary-time propagator G",
             "Matsubara integrals (coefficients) -> 0 (zero coupling) or real symbols c_k with one fresh symbol per syntactically distinct exp argument")
    env = hs.GIBBS_ENV

    def __init__(self, n_steps, coupling, calls=2):
        self.n_steps, self.coupling, self.calls = n_steps, coupling, calls
        self.id = "H3/gibbs_compute_twice/n%d_%s%s" % (n_steps, coupling, "" if calls == 2 else "_x%d" % calls)
        self.bounds = {"d": 2, "n_steps": n_steps, "coupling": coupling, "compute_calls": calls}
        self.timeout_s = 300

    def _make(self, inp, G, ck):
        if self.coupling == "zero":
            def coeffs(k):
                return inp.zero()
        else:
            def coeffs(k):
                return ck[k]
        return hs.make_gibbs(2, self.n_steps, G, coeffs, (0.5, -0.5))

    def run(self, inp):
        d = 2
        G = inp.arr("G", (d, d))
        ck = None
        if self.coupling != "zero":
            ck = [inp.real("c%d" % k, lo=-1, hi=1) for k in range(2 * self.n_steps + 2)]
        obj = self._make(inp, G, ck)
        for _ in range(self.calls):
            obj.compute(progress_type="silent")
        ref = self._make(inp, G, ck)
        ref.compute(progress_type="silent")
        gt, gs = hs.dyn_lists(obj.get_dynamics())
        rt, rs = hs.dyn_lists(ref.get_dynamics())
        # get_state() normalises by the trace: compare cross-multiplied (no division in the query)
        a, b = gs[-1], rs[-1]
        obs = [Ob.eq("get_state (cross-multiplied by the traces)", np.multiply(a, np.trace(b)), np.multiply(b, np.trace(a)), key="state")]
        obs += _eq_lists("times", gt, rt, "dynamics") + _eq_lists("states", gs, rs, "dynamics")
        obs.append(Ob.holds("last time is n_steps*dt", len(rt) == self.n_steps + 1, key="grid"))
        return obs


def cases(tier):
    cs = []
    cs += [H1Tempo(4, 1), H1Tempo(3, None, dt=1.0, ncalls=2)]
    cs += [H1MeanField(3, 1)]
    cs += [H2Tempo(3, 1)]
    cs += [H2MeanField(k, 2, 1) for k in _MF_KINDS]
    cs += [H3Gibbs(2, 'zero'), H3Gibbs(3, 'zero'), H3Gibbs(3, 'sym'), H3Gibbs(4, 'zero', calls=3)]
    cs += [H3PtTempo(q, 3, K) for q in _PT_SEQS for K in (None, 1)]
    return cs
