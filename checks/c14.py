"""C14 -- splitting or repeating compute calls never changes the result.

H1  continuation: Tempo / MeanFieldTempo / PtTebd, symbolic targets e1,e2,e3 in 0..N in any
    order (+ interleaved get_dynamics/get_results) == one call with max(e_i).
H2  transient failure of a user callable at a symbolic call index, then the same compute
    again: same dynamics as without the failure, or the call fails again.  (Tempo,
    MeanFieldTempo.  PtTebd.compute_step evaluates no user callable: gates are computed once
    in initialize(), controls and process tensors are arrays -- nothing to inject.)
H3  fixed-end methods: PtTempo.compute()/get_process_tensor() and GibbsTempo.compute()
    repeated: no exception, same tensors / state.
H4  PtTebd restarted from get_augmented_mps() + start_step == uninterrupted run.
"""
import numpy as np

from vf.core import Case, Ob
from vf import env, lib
from vf import histories as hs

# sat-side instance search only (never decides "holds"; every model is replayed on the real code)
hs.install_int_aware_search()

# Cases dedicated to an expected defect: refuting a polynomial NON-identity directly is where nlsat gets stuck
# (it can ignore its timeout for minutes), so the direct query gets 1 ms and the instance search (DESIGN 2.3) runs
# first; identities are still proved by the full query afterwards ("holds" is only ever an unsat of the full query).
_INSTANCE_FIRST = 0.001

ASSUMPTIONS = [
    "exact real/complex arithmetic (floating-point rounding of tensor arithmetic outside the claim)",
    "end times are start + e*dt with dt in {1, 0.5} and integer start, so that (end-start)/dt is exact: the "
    "float->int rounding of targets is C13's subject and is not re-examined here",
    "conjugation-free contraction code is a polynomial map: identity over real symbols implies identity over complex values",
]

def _tempo_env(N):
    extra = {}
    extra.update(hs.step_shadows("oqupy.tempo", -1, N + 1, ("int", "float", "max", "complex")))
    # the step count lives in oqupy.util.count_time_steps (int(np.floor(...))) on repaired trees
    extra.update(hs.step_shadows("oqupy.util", -1, N + 1, ("int",)))
    extra["oqupy.util.np"] = env.NpProxy()
    extra.update(hs.step_shadows("oqupy.dynamics", -1, N + 1, ("float", "complex")))
    return {"noconj": True, "extra": extra}


_OVER = 3      # user callables are defined for _OVER*N steps: an implementation that oversteps the target must show
               # up as a difference in the dynamics, not as an IndexError of the harness's own stand-ins


def _tempo_inputs(inp, d, K, N, name=""):
    infl = lib.Influences(inp, d, K, name=name + "I")
    P1 = [lib.tp_prop(inp, "%sp%d" % (name, k), d) for k in range(_OVER * N)]
    P2 = [lib.tp_prop(inp, "%sq%d" % (name, k), d) for k in range(_OVER * N)]
    rho0 = inp.arr(name + "r", (d, d))
    start = inp.int(name + "start", -2, 2)
    return infl, P1, P2, rho0, start


def _eq_lists(label, got, exp, key):
    """obligations: same length, entries equal"""
    obs = [Ob.holds("%s: number of entries" % label, len(got) == len(exp), key=key)]
    if len(got) == len(exp):
        for i, (g, e) in enumerate(zip(got, exp)):
            obs.append(Ob.eq("%s[%d]" % (label, i), g, e, key=key))
    return obs


# --------------------------------------------------------------------------
# H1  continuation
# --------------------------------------------------------------------------
class H1Tempo(Case):
    """Tempo.compute(e1); compute(e2); compute(e3) (any order, get_dynamics interleaved)
    == fresh object, one compute(max e_i); real TempoBackend across the dkmax boundary."""
    functions = ("Tempo.compute", "Tempo._get_num_step", "Tempo._time", "Tempo.get_dynamics", "TempoBackend.initialize",
                 "TempoBackend.compute_step", "BaseTempoBackend.compute_system_step", "Dynamics.add", "NodeArray.*")
    stubs = ("tensornetwork numpy backend svd -> exact non-truncating factorisation",
             "system.get_propagators closure -> symbolic trace-preserving half-step propagators",
             "influence_matrix -> symbolic influence matrices with trace structure")

    def __init__(self, N, K, dt=0.5, ncalls=3, tau_add=False):
        self.N, self.K, self.dt, self.ncalls, self.tau_add = N, K, dt, ncalls, tau_add
        self.id = "H1/tempo/N%d_K%s_dt%s_c%d%s" % (N, K, dt, ncalls, "_tau" if tau_add else "")
        self.bounds = {"d": 2, "N": N, "dkmax": K, "calls": ncalls, "dt": dt, "add_correlation_time": tau_add}
        self.env = _tempo_env(N)
        self.timeout_s = 300

    def run(self, inp):
        d, N, K, dt = 2, self.N, self.K, self.dt
        infl, P1, P2, rho0, start = _tempo_inputs(inp, d, K, N)
        if self.tau_add:
            infl.tau_add = True
        es = [inp.int("e%d" % i, 0, N) for i in range(self.ncalls)]
        t0 = hs.as_time(start, 0, dt)
        obj = hs.make_tempo(d, K, rho0, infl, P1, P2, t0, dt)
        obj.get_dynamics()                # read-out BEFORE the first compute must not matter either
        obs = []
        for i, e in enumerate(es):
            ret = obj.compute(hs.as_time(start, e, dt), progress_type="silent")
            obs.append(Ob.holds("call %d returns the object's dynamics" % i, ret is obj.get_dynamics()))
        ref = hs.make_tempo(d, K, rho0, infl, P1, P2, t0, dt)
        ref.compute(hs.as_time(start, hs.sym_maximum(es), dt), progress_type="silent")
        gt, gs = hs.dyn_lists(obj.get_dynamics())
        rt, rs = hs.dyn_lists(ref.get_dynamics())
        obs += _eq_lists("times", gt, rt, "split_vs_single") + _eq_lists("states", gs, rs, "split_vs_single")
        # independent statement of what the single call must contain: times start + i*dt, i = 0..max
        obs.append(Ob.holds("number of time points = max target + 1", hs.sym_maximum(es) + 1 == len(rt), key="grid"))
        obs += [Ob.eq("time[%d] = start + %d*dt" % (i, i), rt[i], hs.as_time(start, i, dt), key="grid") for i in range(len(rt))]
        return obs


def _mf_inputs(inp, d, K, N, nsys=1):
    """one system: plain objects (names as before); several: lists over the systems"""
    def per(sfx):
        infl = lib.Influences(inp, d, K, name="I" + sfx)
        A1 = [lib.gen_prop(inp, "a%s%d" % (sfx, k), d) for k in range(_OVER * N)]
        B1 = [lib.gen_prop(inp, "b%s%d" % (sfx, k), d) for k in range(_OVER * N)]
        A2 = [lib.gen_prop(inp, "q%s%d" % (sfx, k), d) for k in range(_OVER * N)]
        return infl, A1, B1, A2, inp.arr("r" + sfx, (d, d))
    if nsys == 1:
        infl, A1, B1, A2, rho0 = per("")
    else:
        infl, A1, B1, A2, rho0 = (list(x) for x in zip(*[per("s%d_" % s) for s in range(nsys)]))
    start = inp.int("start", -2, 2)
    f0 = inp.real("f0")
    w = [inp.real("w%d" % i) for i in range(2 + nsys)]

    def eom(tm, states, field):
        # user's field equation of motion: any function of (t, states, field); here affine with symbolic weights
        out = w[0] * field + w[1] * tm
        for s in range(nsys):
            out = out + w[2 + s] * states[s][0, 1]
        return out
    return infl, A1, B1, A2, rho0, start, f0, eom


_MF_NAMES = ("times", "fields") + tuple("states of system %d" % i for i in range(4))
_MF_FUNCS = ("MeanFieldTempo.compute", "MeanFieldTempo._get_num_step", "MeanFieldTempo._time", "MeanFieldTempo._compute_field",
             "MeanFieldTempo._compute_field_derivative", "MeanFieldTempoBackend.initialize", "MeanFieldTempoBackend.compute_step",
             "BaseTempoBackend.compute_system_step", "MeanFieldDynamics.add", "Dynamics.add", "NodeArray.*")
_MF_STUBS = ("tensornetwork numpy backend svd -> exact non-truncating factorisation",
             "system.get_propagators closure -> field-dependent symbolic half-step propagators A1[k] + field*B1[k], A2[k]",
             "field_eom -> affine function of (t, rho_s[0,1] of every system, field) with symbolic weights",
             "influence_matrix -> symbolic influence matrices with trace structure")


class H1MeanField(Case):
    """MeanFieldTempo.compute split into several calls == single call (real MeanFieldTempoBackend,
    real _compute_field/_compute_field_derivative)."""
    functions = _MF_FUNCS
    stubs = _MF_STUBS

    def __init__(self, N, K, dt=0.5, ncalls=3, nsys=1):
        self.N, self.K, self.dt, self.ncalls, self.nsys = N, K, dt, ncalls, nsys
        self.id = "H1/meanfield/N%d_K%s_dt%s_c%d%s" % (N, K, dt, ncalls, "" if nsys == 1 else "_sys%d" % nsys)
        self.bounds = {"d": 2, "systems": nsys, "N": N, "dkmax": K, "calls": ncalls, "dt": dt}
        self.env = _tempo_env(N)
        self.timeout_s = 300

    def run(self, inp):
        d, N, K, dt = 2, self.N, self.K, self.dt
        infl, A1, B1, A2, rho0, start, f0, eom = _mf_inputs(inp, d, K, N, self.nsys)
        es = [inp.int("e%d" % i, 0, N) for i in range(self.ncalls)]
        t0 = hs.as_time(start, 0, dt)
        obj = hs.make_mean_field_tempo(d, K, rho0, infl, A1, B1, A2, t0, dt, f0, eom)
        obj.get_dynamics()                # read-out BEFORE the first compute must not matter either
        for e in es:
            obj.compute(hs.as_time(start, e, dt), progress_type="silent")
            obj.get_dynamics()
        ref = hs.make_mean_field_tempo(d, K, rho0, infl, A1, B1, A2, t0, dt, f0, eom)
        ref.compute(hs.as_time(start, hs.sym_maximum(es), dt), progress_type="silent")
        g, r = hs.mf_lists(obj.get_dynamics()), hs.mf_lists(ref.get_dynamics())
        obs = []
        for nm, a, b in zip(_MF_NAMES, g, r):
            obs += _eq_lists(nm, a, b, "split_vs_single")
        obs.append(Ob.holds("number of time points = max target + 1", hs.sym_maximum(es) + 1 == len(r[0]), key="grid"))
        obs += [Ob.eq("time[%d] = start + %d*dt" % (i, i), r[0][i], hs.as_time(start, i, dt), key="grid") for i in range(len(r[0]))]
        return obs


def _tebd_env(N):
    extra = dict(hs.LINEAR_STUBS)
    extra.update(hs.step_shadows("oqupy.pt_tebd", -1, N + 1, ("isinstance",)))
    extra.update(hs.step_shadows("oqupy.dynamics", -1, N + 1, ("float", "complex")))
    return {"noconj": True, "extra": extra}


_TEBD_FUNCS = ("PtTebd.__init__", "PtTebd.initialize", "PtTebd.compute", "PtTebd.compute_step", "PtTebd._apply_controls",
               "PtTebd._append_results", "PtTebd._init_results", "PtTebd.time", "PtTebd.get_results", "PtTebd.get_augmented_mps",
               "ChainControl.add_single_site_control", "ChainControl.get_single_site_controls", "AugmentedMPS.__init__", "Dynamics.add")
_TEBD_STUBS = ("PtTebdBackend -> LinearBackend: every back-end call is an order-sensitive symbolic linear map of exactly the "
               "arguments the real call receives (gate layer object, process-tensor slice index step-1, control matrix, cap index)",
               "compute_tebd_propagator -> two symbolic gate layers")


def _tebd_controls(inp, spec):
    return [(inp.arr("C%d" % i, (4, 4)), step, post) for i, (step, post) in enumerate(spec)]


class H1PtTebd(Case):
    """PtTebd.compute(e1); compute(e2); compute(e3) == single compute(max): PtTebd's own step loop, control
    schedule (pre/post), process-tensor slice index, time stamps and result lists (back-end: LinearBackend)."""
    functions = _TEBD_FUNCS
    stubs = _TEBD_STUBS
    real_env = hs.LINEAR_STUBS

    def __init__(self, N, ncalls=3, dt=0.5):
        self.N, self.ncalls, self.dt = N, ncalls, dt
        self.id = "H1/pt_tebd_steplogic/N%d_c%d" % (N, ncalls)
        self.bounds = {"N": N, "calls": ncalls, "sites": 2, "controls": "pre@1, post@2, pre@N"}
        self.env = _tebd_env(N)

    def run(self, inp):
        N, dt = self.N, self.dt
        hs.LinearBackend.model = hs.linear_model(inp, _OVER * N)
        v0 = inp.arr("v", (4,))
        start = inp.int("start", -2, 2)
        ctr = _tebd_controls(inp, [(1, False), (2, True), (N, False)])
        es = [inp.int("e%d" % i, 0, N) for i in range(self.ncalls)]
        obj = hs.make_pt_tebd(v0, hs.as_time(start, 0, dt), 0, dt, ctr)
        obj.get_augmented_mps()           # read-out BEFORE the first compute (returns the initial chain)
        for e in es:
            obj.compute(e, progress_type="silent")
            obj.get_results()
        ref = hs.make_pt_tebd(v0, hs.as_time(start, 0, dt), 0, dt, ctr)
        ref.compute(hs.sym_maximum(es), progress_type="silent")
        g, r = hs.tebd_lists(obj.get_results()), hs.tebd_lists(ref.get_results())
        obs = []
        for nm, a, b in zip(("time", "norm", "dynamics times", "dynamics states"), g, r):
            obs += _eq_lists(nm, a, b, "split_vs_single")
        obs.append(Ob.holds("number of time points = max target + 1", hs.sym_maximum(es) + 1 == len(r[0]), key="grid"))
        obs += [Ob.eq("time[%d] = start + %d*dt" % (i, i), r[0][i], hs.as_time(start, i, dt), key="grid") for i in range(len(r[0]))]
        return obs


# --------------------------------------------------------------------------
# H2  fault injection
# --------------------------------------------------------------------------
class H2Tempo(Case):
    """Tempo.compute: the user's Hamiltonian (evaluated inside the propagator closure the
    back-end calls once per step) raises at a symbolic call index; compute is called again."""
    functions = ("Tempo.compute", "Tempo._get_num_step", "Tempo._time", "TempoBackend.initialize",
                 "TempoBackend.compute_step", "BaseTempoBackend.compute_system_step", "Dynamics.add", "NodeArray.*")
    stubs = ("tensornetwork numpy backend svd -> exact non-truncating factorisation",
             "system.get_propagators closure -> symbolic trace-preserving half-step propagators; "
             "evaluating it stands for evaluating the user's Hamiltonian/rates/Lindblad operators",
             "influence_matrix -> symbolic influence matrices with trace structure")
    assumptions = ("the failure is transient: the user callable raises exactly once",)

    def __init__(self, N, K, dt=0.5, pre=True):
        self.N, self.K, self.dt, self.pre = N, K, dt, pre
        self.id = "H2/tempo_hamiltonian_fault/N%d_K%s%s" % (N, K, "" if pre else "_single")
        self.bounds = {"d": 2, "N": N, "dkmax": K, "calls": "compute(e1); compute(N); each retried once after the fault"}
        self.env = _tempo_env(N)
        self.timeout_s = 300
        self.first_timeout_s = _INSTANCE_FIRST

    def run(self, inp):
        d, N, K, dt = 2, self.N, self.K, self.dt
        infl, P1, P2, rho0, start = _tempo_inputs(inp, d, K, N)
        fault = inp.int("fault", 0, N - 1)
        targets = ([inp.int("e1", 0, N)] if self.pre else []) + [N]
        plan = hs.FaultPlan(fault)
        obj = hs.make_tempo(d, K, rho0, infl, P1, P2, hs.as_time(start, 0, dt), dt, plan)
        out = _retry_history(obj, targets, lambda e: hs.as_time(start, e, dt))
        if out is not None:
            return out
        ref = hs.make_tempo(d, K, rho0, infl, P1, P2, hs.as_time(start, 0, dt), dt, None)
        ref.compute(hs.as_time(start, N, dt), progress_type="silent")
        gt, gs = hs.dyn_lists(obj.get_dynamics())
        rt, rs = hs.dyn_lists(ref.get_dynamics())
        key = "retry_after_fault" if plan.fired is not None else "fault_free"
        return _eq_lists("times", gt, rt, key) + _eq_lists("states", gs, rs, key)


def _retry_history(obj, targets, time_of):
    """compute(target) for each target; a call that fails with the injected UserFault is
    repeated once.  Returns obligations if the history ends early, else None."""
    retried = False
    obj.get_dynamics()                    # read-out before the first compute
    for e in targets:
        T = time_of(e)
        try:
            obj.compute(T, progress_type="silent")
        except hs.UserFault:
            retried = True
            try:
                obj.compute(T, progress_type="silent")
            except Exception as ex:      # "or fails again" is accepted by the property
                return [Ob.holds("repeated call failed again (%s)" % type(ex).__name__, True, key="retry_after_fault")]
        except Exception as ex:
            if not retried:
                raise
            # the repeated call returned normally, but the object was left inconsistent
            return [Ob.holds("call after the repeated call raised %s" % type(ex).__name__, False, key="retry_after_fault")]
    return None


class H2TempoInfluence(Case):
    """Tempo.compute: the user-supplied bath correlation function (evaluated by Tempo._influence -> influence_matrix, here the
    influence callable of the real TempoBackend) raises once at a symbolic call index; compute is called again."""
    functions = H2Tempo.functions
    stubs = H2Tempo.stubs + ("evaluating the influence callable stands for evaluating the user's spectral density / correlation function",)
    assumptions = ("the failure is transient: the user callable raises exactly once",)

    def __init__(self, where, N, K, dt=0.5):
        self.where, self.N, self.K, self.dt = where, N, K, dt
        ninit = 1 if K is None else K + 1        # influence evaluations of initialize_mps_mpo
        self.range = (0, ninit - 1) if where == "in_initialize" else (ninit, N)
        self.id = "H2/tempo_correlation_fault_%s/N%d_K%s" % (where, N, K)
        self.bounds = {"d": 2, "N": N, "dkmax": K, "fault_call_index": "%d..%d" % self.range, "calls": "compute(e1); compute(N)"}
        self.env = _tempo_env(N)
        self.timeout_s = 300
        self.first_timeout_s = _INSTANCE_FIRST

    def run(self, inp):
        d, N, K, dt = 2, self.N, self.K, self.dt
        infl, P1, P2, rho0, start = _tempo_inputs(inp, d, K, N)
        plan = hs.FaultPlan(inp.int("fault", self.range[0], self.range[1]))

        def influence(dk):
            plan.tick("influence(%d)" % dk)
            return infl(dk)
        targets = [inp.int("e1", 0, N), N]
        obj = hs.make_tempo(d, K, rho0, influence, P1, P2, hs.as_time(start, 0, dt), dt, None)
        out = _retry_history(obj, targets, lambda e: hs.as_time(start, e, dt))
        if out is not None:
            return out
        ref = hs.make_tempo(d, K, rho0, infl, P1, P2, hs.as_time(start, 0, dt), dt, None)
        ref.compute(hs.as_time(start, N, dt), progress_type="silent")
        gt, gs = hs.dyn_lists(obj.get_dynamics())
        rt, rs = hs.dyn_lists(ref.get_dynamics())
        key = "retry_after_fault" if plan.fired is not None else "fault_free"
        return _eq_lists("times", gt, rt, key) + _eq_lists("states", gs, rs, key)


def _mf_kind_calls(kind, nsys):
    """user-callable evaluations of one step, in order: 0 field_eom in _compute_field_derivative; 1..nsys the
    Hamiltonian of system 0..nsys-1 inside its propagator closure; nsys+1, nsys+2 field_eom in the two
    Runge-Kutta stages of _compute_field (after every system's network has been advanced)"""
    return {"before_network": (0, nsys), "in_compute_field": (nsys + 1, nsys + 2)}[kind]


_MF_KINDS = ("before_network", "in_compute_field")


class H2MeanField(Case):
    """MeanFieldTempo.compute: a user callable (field equation of motion or the Hamiltonian inside
    the propagator closure) raises once at a symbolic call index; compute is called again."""
    functions = _MF_FUNCS
    stubs = _MF_STUBS
    assumptions = ("the failure is transient: the user callable raises exactly once",)

    def __init__(self, kind, N, K, dt=0.5, pre=True, nsys=1):
        self.kind, self.N, self.K, self.dt, self.pre, self.nsys = kind, N, K, dt, pre, nsys
        self.id = "H2/meanfield_fault_%s/N%d_K%s%s%s" % (kind, N, K, "" if pre else "_single", "" if nsys == 1 else "_sys%d" % nsys)
        self.first_timeout_s = _INSTANCE_FIRST
        self.bounds = {"d": 2, "systems": nsys, "N": N, "dkmax": K,
                       "fault": "call index mod %d in %s..%s" % ((nsys + 3,) + _mf_kind_calls(kind, nsys)),
                       "calls": "compute(e1); compute(N); each retried once after the fault"}
        self.env = _tempo_env(N)
        self.timeout_s = 300

    def run(self, inp):
        d, N, K, dt = 2, self.N, self.K, self.dt
        infl, A1, B1, A2, rho0, start, f0, eom = _mf_inputs(inp, d, K, N, self.nsys)
        step_of_fault = inp.int("fstep", 0, N - 1)
        lo, hi = _mf_kind_calls(self.kind, self.nsys)
        which = inp.int("fcall", lo, hi)
        fault = (self.nsys + 3) * step_of_fault + which
        targets = ([inp.int("e1", 0, N)] if self.pre else []) + [N]
        plan = hs.FaultPlan(fault)
        t0 = hs.as_time(start, 0, dt)
        obj = hs.make_mean_field_tempo(d, K, rho0, infl, A1, B1, A2, t0, dt, f0, eom, plan)
        out = _retry_history(obj, targets, lambda e: hs.as_time(start, e, dt))
        if out is not None:
            return out
        ref = hs.make_mean_field_tempo(d, K, rho0, infl, A1, B1, A2, t0, dt, f0, eom)
        ref.compute(hs.as_time(start, N, dt), progress_type="silent")
        g, r = hs.mf_lists(obj.get_dynamics()), hs.mf_lists(ref.get_dynamics())
        obs = [Ob.holds("fault was injected", plan.fired is not None, key="harness")]
        for nm, a, b in zip(_MF_NAMES, g, r):
            obs += _eq_lists(nm, a, b, "retry_after_fault")
        return obs


# --------------------------------------------------------------------------
# H3  fixed-end methods
# --------------------------------------------------------------------------
_PT_SEQS = {
    # dedicated to the expected defect: a second compute() on a finished computation
    "compute_twice": ("compute", "compute", "get"),
    # everything else a caller can do around a finished computation
    "get_twice": ("get", "get"),
    "compute_get_get": ("compute", "get", "get"),
    "get_compute": ("get", "compute", "get"),
}


class H3PtTempo(Case):
    """PtTempo.compute()/get_process_tensor() repeated on the real PtTempoBackend: no
    exception, and the process tensor equals the one of a fresh object's single
    get_process_tensor()."""
    functions = ("PtTempo.compute", "PtTempo.get_process_tensor", "PtTempoBackend.initialize", "PtTempoBackend.compute_step",
                 "PtTempoBackend.update_process_tensor", "PtTempoBackend.get_mpo_tensor", "SimpleProcessTensor.*", "NodeArray.*")
    stubs = ("tensornetwork numpy backend svd -> exact non-truncating factorisation",
             "influence_matrix -> symbolic influence matrices with trace structure")
    env = {"noconj": True}

    def __init__(self, seq, N, K):
        self.seq, self.N, self.K = seq, N, K
        grp = "compute_when_finished" if seq in ("compute_twice", "get_compute") else "repeat"
        self.id = "H3/pt_tempo_%s/%s_N%d_K%s" % (grp, seq, N, K)
        self.bounds = {"d": 2, "N": N, "dkmax": K, "calls": list(_PT_SEQS[seq])}
        self.timeout_s = 300

    def run(self, inp):
        d, N, K = 2, self.N, self.K
        infl = lib.Influences(inp, d, (K if K is not None else N), tau_add=False)
        obj = hs.make_pt_tempo(d, N, K, infl)
        got = None
        first = None
        for i, c in enumerate(_PT_SEQS[self.seq]):
            try:
                if c == "compute":
                    obj.compute(progress_type="silent")
                else:
                    got = obj.get_process_tensor(progress_type="silent")
                    if first is None:
                        first = hs.pt_invariants(got)
            except Exception as ex:       # noqa
                if i == 0:
                    raise
                return [Ob.holds("call %d (%s) on a finished computation raised %s" % (i, c, type(ex).__name__), False,
                                 key="repeated_call_raises")]
        ref = hs.make_pt_tempo(d, N, K, infl).get_process_tensor(progress_type="silent")
        obs = [Ob.holds("length", len(got) == N, key="tensors"), Ob.holds("same object", got is obj._process_tensor, key="tensors")]
        # compared through the gauge-invariant contractions M_0..M_{k-1}.cap_k (see hs.pt_invariants)
        obs += _eq_lists("pt", hs.pt_invariants(got), hs.pt_invariants(ref), "tensors")
        obs += _eq_lists("pt as first returned", hs.pt_invariants(got), first, "tensors")
        return obs


class H3Gibbs(Case):
    """GibbsTempo.compute() repeated on the real TIBaseBackend: the recorded dynamics and
    get_state() are those of a single compute()."""
    functions = ("GibbsTempo.compute", "GibbsTempo.get_state", "GibbsTempo._time", "TIBaseBackend.initialise",
                 "TIBaseBackend.compute_step", "TIBaseBackend.readout", "TIBaseBackend._contract",
                 "TIBaseBackend._truncate_left", "TIBaseBackend._truncate_right", "TIBaseBackend._influence_tensor", "Dynamics.add")
    stubs = ("scipy.linalg.svd in TIBaseBackend._scipy_svd -> exact non-truncating factorisation",
             "system.get_unitary_propagators -> symbolic half-step imaginary-time propagator G",
             "Matsubara integrals (coefficients) -> 0 (zero coupling) or real symbols c_k with one fresh symbol per syntactically distinct exp argument")
    env = hs.GIBBS_ENV

    def __init__(self, n_steps, coupling, calls=2):
        self.n_steps, self.coupling, self.calls = n_steps, coupling, calls
        self.id = "H3/gibbs_compute_twice/n%d_%s%s" % (n_steps, coupling, "" if calls == 2 else "_x%d" % calls)
        self.bounds = {"d": 2, "n_steps": n_steps, "coupling": coupling, "compute_calls": calls}
        self.timeout_s = 300
        self.first_timeout_s = _INSTANCE_FIRST

    def _make(self, inp, G, ck):
        if self.coupling == "zero":
            def coeffs(k):
                return inp.zero()
        else:
            def coeffs(k):
                return ck[k]
        return hs.make_gibbs(2, self.n_steps, G, coeffs, (0.5, -0.5))

    def run(self, inp):
        d = 2
        G = inp.arr("G", (d, d))
        ck = None
        if self.coupling != "zero":
            ck = [inp.real("c%d" % k) for k in range(2 * self.n_steps + 2)]
        obj = self._make(inp, G, ck)
        obj.get_dynamics()                # read-out BEFORE the first compute must not matter either
        for _ in range(self.calls):
            obj.compute(progress_type="silent")
            obj.get_dynamics()
            obj.get_state()
        ref = self._make(inp, G, ck)
        ref.compute(progress_type="silent")
        gt, gs = hs.dyn_lists(obj.get_dynamics())
        rt, rs = hs.dyn_lists(ref.get_dynamics())
        # get_state() normalises by the trace: compare cross-multiplied (no division in the query)
        a, b = gs[-1], rs[-1]
        obs = [Ob.eq("get_state (cross-multiplied by the traces)", np.multiply(a, np.trace(b)), np.multiply(b, np.trace(a)), key="state")]
        obs += _eq_lists("times", gt, rt, "dynamics") + _eq_lists("states", gs, rs, "dynamics")
        obs.append(Ob.holds("last time is n_steps*dt", len(rt) == self.n_steps + 1, key="grid"))
        return obs


_GIBBS_FAULTS = {
    # evaluations of the bath correlation integral (coefficients(k)) in call order: 0,1 = coefficients(0) for the first
    # half-step tensor of initialise(); 2,3 = coefficients(1), coefficients(0) for the first influence tensor, evaluated
    # AFTER initialise() has appended to backend.data; 4.. = the one new long-range coefficient of every compute_step
    "initialise_head": lambda n: (0, 1),
    "initialise_tail": lambda n: (2, 3),
    "step": lambda n: (4, 4 + n - 3),
}


class H2Gibbs(Case):
    """GibbsTempo.compute(): the user-supplied bath correlation function (correlation_2d_integral, here the coefficient
    callable handed to the real TIBaseBackend) raises once at a symbolic call index; compute() is called again."""
    functions = H3Gibbs.functions
    stubs = H3Gibbs.stubs + ("correlations.correlation_2d_integral(matsubara=True) -> real symbols c_k; evaluating it stands for "
                             "evaluating the user's spectral density / correlation function",)
    assumptions = ("the failure is transient: the user callable raises exactly once",)
    env = hs.GIBBS_ENV

    def __init__(self, where, n_steps):
        self.where, self.n_steps = where, n_steps
        self.id = "H2/gibbs_correlation_fault_%s/n%d" % (where, n_steps)
        lo, hi = _GIBBS_FAULTS[where](n_steps)
        self.bounds = {"d": 2, "n_steps": n_steps, "fault_call_index": "%d..%d" % (lo, hi)}
        self.timeout_s = 300
        self.first_timeout_s = _INSTANCE_FIRST

    def run(self, inp):
        d, n = 2, self.n_steps
        G = inp.arr("G", (d, d))
        ck = [inp.real("c%d" % k) for k in range(2 * n + 2)]
        lo, hi = _GIBBS_FAULTS[self.where](n)
        plan = hs.FaultPlan(inp.int("fault", lo, hi))

        def coeffs(k):
            plan.tick("correlation_2d_integral(k=%d)" % k)
            return ck[k]
        obj = hs.make_gibbs(d, n, G, coeffs, (0.5, -0.5))
        obj.get_dynamics()
        try:
            obj.compute(progress_type="silent")
            return [Ob.holds("fault was injected", False, key="harness")]
        except hs.UserFault:
            try:
                obj.compute(progress_type="silent")
            except Exception as ex:      # noqa  "or fails again" is accepted by the property
                return [Ob.holds("repeated call failed again (%s)" % type(ex).__name__, True, key="retry_after_fault")]
        ref = hs.make_gibbs(d, n, G, (lambda k: ck[k]), (0.5, -0.5))
        ref.compute(progress_type="silent")
        gt, gs = hs.dyn_lists(obj.get_dynamics())
        rt, rs = hs.dyn_lists(ref.get_dynamics())
        a, b = gs[-1], rs[-1]
        obs = [Ob.eq("get_state (cross-multiplied by the traces)", np.multiply(a, np.trace(b)), np.multiply(b, np.trace(a)),
                     key="retry_after_fault")]
        obs += _eq_lists("times", gt, rt, "retry_after_fault") + _eq_lists("states", gs, rs, "retry_after_fault")
        return obs


# --------------------------------------------------------------------------
# H4  restart of a chain
# --------------------------------------------------------------------------
_RESTART_CONTROLS = {
    "none": lambda r, N: [],
    # controls anywhere except a pre-measurement control AT the restart step
    "other": lambda r, N: [(r, True), (r + 1, False), (0, False), (r - 1, True)],
    # dedicated: a pre-measurement control scheduled at the restart step itself
    "pre_at_restart_step": lambda r, N: [(r, False)],
}


class H4Restart(Case):
    """B.compute(r); C = PtTebd(B.get_augmented_mps(), start_step=r, start_time=B.time(r), same chain, process
    tensors, parameters and chain control); C.compute(N)  ==  A.compute(N) on steps r..N (time, norm, states)."""
    functions = _TEBD_FUNCS
    stubs = _TEBD_STUBS
    real_env = hs.LINEAR_STUBS

    def __init__(self, N, controls, dt=0.5):
        self.N, self.controls, self.dt = N, controls, dt
        self.id = ("H4/restart_pre_control_at_restart_step/steplogic_N%d" % N if controls == "pre_at_restart_step"
                   else "H4/restart_steplogic_%s/N%d" % (controls, N))
        if controls == "pre_at_restart_step":
            self.first_timeout_s = _INSTANCE_FIRST
        self.bounds = {"N": N, "restart_step": "1..N-1 (symbolic)", "sites": 2, "controls": controls}
        self.env = _tebd_env(N)

    def run(self, inp):
        N, dt = self.N, self.dt
        hs.LinearBackend.model = hs.linear_model(inp, _OVER * N)
        v0 = inp.arr("v", (4,))
        start = inp.int("start", -2, 2)
        r = int(inp.int("r", 1, N - 1))          # concretised: one path per restart step
        ctr = _tebd_controls(inp, _RESTART_CONTROLS[self.controls](r, N))
        t0 = hs.as_time(start, 0, dt)
        A = hs.make_pt_tebd(v0, t0, 0, dt, ctr)
        A.compute(N, progress_type="silent")
        B = hs.make_pt_tebd(v0, t0, 0, dt, ctr)
        B.compute(r, progress_type="silent")
        C = hs.make_pt_tebd(None, B.time(r), r, dt, ctr, mps=B.get_augmented_mps())
        C.compute(N, progress_type="silent")
        a, c = hs.tebd_lists(A.get_results()), hs.tebd_lists(C.get_results())
        obs = []
        for nm, x, y in zip(("time", "norm", "dynamics times", "dynamics states"), c, a):
            obs += _eq_lists(nm, x, y[r:], "restart_vs_uninterrupted")
        return obs


def _symbolic_chain(inp, N, sites, chi, ptbond):
    """symbolic gate layers (even / odd bonds), process tensors, product initial state"""
    from oqupy.mps_mpo import GateLayer, NnGate, TebdPropagator, AugmentedMPS
    import checks.c03 as c03
    layers = []
    for par in (0, 1):
        gates = []
        for b in range(par, sites - 1, 2):
            gates.append(NnGate(b, (inp.arr("gl%d_%d" % (par, b), (4, 4, chi)), inp.arr("gr%d_%d" % (par, b), (chi, 4, 4)))))
        layers.append(GateLayer(True, gates))
    hs.PROPAGATOR["p"] = TebdPropagator(layers)
    pts = [c03.build_pt(inp, "e%d" % s, 2, N, ptbond, 4, False)[0] for s in range(sites)]
    g = [inp.arr("g%d" % s, (4,)) for s in range(sites)]
    return pts, (lambda: AugmentedMPS(list(g)))


class H4RestartReal(Case):
    """Restart on the REAL PtTebdBackend: gammas/lambdas exported by get_augmented_mps() after step r, a new
    PtTebd with start_step=r (process-tensor slice and cap indices, time stamps) == uninterrupted run."""
    functions = _TEBD_FUNCS + ("PtTebdBackend.*", "_apply_nn_gate", "_invert_lambda", "SimpleProcessTensor.get_mpo_tensor",
                               "SimpleProcessTensor.get_cap_tensor")
    stubs = ("tensornetwork numpy backend svd -> exact non-truncating factorisation (lambdas become identities)",
             "tensornetwork.contractors.optimal -> same contraction in list order (deterministic association)",
             "compute_tebd_propagator -> symbolic nearest-neighbour gate layers (gate bond chi)",
             "process tensors: arbitrary symbolic SimpleProcessTensor per site")
    real_env = hs.TEBD_REAL_STUBS

    def __init__(self, N, r, sites=2, chi=1, ptbond=1, controls=False, dt=0.5):
        self.N, self.r, self.sites, self.chi, self.ptbond, self.controls, self.dt = N, r, sites, chi, ptbond, controls, dt
        tail = "N%d_r%d_s%d_chi%d_b%d" % (N, r, sites, chi, ptbond)
        if controls == "pre_at_r":
            self.id = "H4/restart_pre_control_at_restart_step/real_backend_" + tail
            self.first_timeout_s = _INSTANCE_FIRST
        else:
            self.id = "H4/restart_real_backend/%s%s" % (tail, "_ctrl" if controls else "")
        self.bounds = {"N": N, "restart_step": r, "sites": sites, "gate_bond": chi, "pt_bond": ptbond, "d": 2,
                       "controls": {False: "none", True: "post@r, pre@r+1", "pre_at_r": "pre@r"}[controls]}
        self.env = hs.tebd_real_env(N)
        self.env["extra"].update(hs.TEBD_REAL_STUBS)
        self.timeout_s = 300
        self.tol = 1e-6

    def run(self, inp):
        N, r, dt = self.N, self.r, self.dt
        pts, mk_mps = _symbolic_chain(inp, N, self.sites, self.chi, self.ptbond)
        start = inp.int("start", -2, 2)
        ctr = []
        if self.controls == "pre_at_r":
            ctr = [(inp.arr("C0", (4, 4)), 0, r, False)]
        elif self.controls:
            ctr = [(inp.arr("C0", (4, 4)), 0, r, True), (inp.arr("C1", (4, 4)), self.sites - 1, r + 1, False)]
        t0 = hs.as_time(start, 0, dt)
        A = hs.make_pt_tebd_real(mk_mps(), pts, None, t0, 0, dt, ctr, self.sites)
        ra = A.compute(N, progress_type="silent")
        B = hs.make_pt_tebd_real(mk_mps(), pts, None, t0, 0, dt, ctr, self.sites)
        B.compute(r, progress_type="silent")
        B.get_current_density_matrix(0)           # a read-out before the export must not matter
        C = hs.make_pt_tebd_real(B.get_augmented_mps(), pts, None, B.time(r), r, dt, ctr, self.sites)
        rc = C.compute(N, progress_type="silent")
        obs = _eq_lists("time", list(rc["time"]), list(ra["time"])[r:], "restart_vs_uninterrupted")
        obs += _eq_lists("norm", list(rc["norm"]), list(ra["norm"])[r:], "restart_vs_uninterrupted")
        for k in ra["dynamics"]:
            obs += _eq_lists("states of %s" % (k,), list(rc["dynamics"][k]._states), list(ra["dynamics"][k]._states)[r:],
                             "restart_vs_uninterrupted")
        return obs


class H1PtTebdReal(Case):
    """PtTebd.compute(e1); compute(e2) == compute(max) on the REAL PtTebdBackend (symbolic gates, process tensors), with
    get_current_density_matrix / get_results / get_augmented_mps read-outs interleaved between the calls."""
    functions = H4RestartReal.functions
    stubs = H4RestartReal.stubs
    real_env = hs.TEBD_REAL_STUBS

    def __init__(self, N, sites=2, chi=1, ptbond=1, dt=0.5):
        self.N, self.sites, self.chi, self.ptbond, self.dt = N, sites, chi, ptbond, dt
        self.id = "H1/pt_tebd_real_backend/N%d_s%d_chi%d_b%d" % (N, sites, chi, ptbond)
        self.bounds = {"N": N, "calls": 2, "sites": sites, "gate_bond": chi, "pt_bond": ptbond, "d": 2}
        self.env = hs.tebd_real_env(N)
        self.env["extra"].update(hs.TEBD_REAL_STUBS)
        self.timeout_s = 300
        self.tol = 1e-6

    def run(self, inp):
        N, dt = self.N, self.dt
        pts, mk_mps = _symbolic_chain(inp, N, self.sites, self.chi, self.ptbond)
        start = inp.int("start", -2, 2)
        es = [inp.int("e%d" % i, 0, N) for i in range(2)]
        t0 = hs.as_time(start, 0, dt)
        obj = hs.make_pt_tebd_real(mk_mps(), pts, None, t0, 0, dt, (), self.sites)
        obj.get_augmented_mps()           # read-out BEFORE the first compute (returns the initial chain)
        obs = []
        for i, e in enumerate(es):
            try:
                res = obj.compute(e, progress_type="silent")
            except Exception as ex:      # noqa
                if i == 0:
                    raise
                # a compute call that follows read-outs must behave like one that does not (with the non-truncating
                # SVD stub a stale cache shows as a dimension mismatch; on the real stack as different numbers)
                return obs + [Ob.holds("compute call %d after read-outs raised %s" % (i, type(ex).__name__), False,
                                       key="split_vs_single")]
            # read-outs interleaved between the compute calls: they must not change anything, and the current
            # reduced state is the last recorded one
            pair = tuple(range(self.sites))
            obs.append(Ob.eq("read-out after call %d: site 0" % i, obj.get_current_density_matrix(0),
                             res["dynamics"][0]._states[-1], key="readout"))
            obs.append(Ob.eq("read-out after call %d: all sites" % i, obj.get_current_density_matrix(pair),
                             res["dynamics"][pair]._states[-1], key="readout"))
            obj.get_results()
            obj.get_augmented_mps()
        ref = hs.make_pt_tebd_real(mk_mps(), pts, None, t0, 0, dt, (), self.sites)
        ref.compute(hs.sym_maximum(es), progress_type="silent")
        rg, rr = obj.get_results(), ref.get_results()
        obs += _eq_lists("time", list(rg["time"]), list(rr["time"]), "split_vs_single")
        obs += _eq_lists("norm", list(rg["norm"]), list(rr["norm"]), "split_vs_single")
        for k in rr["dynamics"]:
            obs += _eq_lists("states of %s" % (k,), list(rg["dynamics"][k]._states), list(rr["dynamics"][k]._states), "split_vs_single")
        return obs


def cases(tier):
    cs = []
    # H1 continuation
    cs += [H1Tempo(4, 1), H1Tempo(3, None, dt=1.0, ncalls=2), H1MeanField(3, 1), H1PtTebd(4), H1PtTebdReal(2)]
    # H2 fault injection (tempo_hamiltonian_fault, meanfield_fault_in_compute_field: expected defects)
    cs += [H2Tempo(3, 1), H2MeanField("before_network", 2, 1), H2MeanField("in_compute_field", 2, 1, pre=False),
           H2MeanField("before_network", 2, 1, pre=False, nsys=2),
           # fault inside the FIRST step of a fresh object (step counter 0), no memory cut-off, steps after the retry
           H2MeanField("in_compute_field", 3, None, pre=False), H2Tempo(3, None, pre=False)]
    cs += [H2Gibbs(w, 4) for w in _GIBBS_FAULTS]
    cs += [H2TempoInfluence(w, 3, K) for w in ("in_initialize", "in_step") for K in (None, 1)]
    # H3 fixed-end methods (pt_tempo_compute_when_finished, gibbs_compute_twice: expected defects)
    cs += [H3PtTempo(q, 3, K) for q in _PT_SEQS for K in (None, 1)]
    cs += [H3Gibbs(2, "zero"), H3Gibbs(3, "zero"), H3Gibbs(3, "sym"), H3Gibbs(4, "zero", calls=3)]
    # H4 restart (restart_pre_control_at_restart_step: expected defect)
    cs += [H4Restart(3, c) for c in _RESTART_CONTROLS]
    cs += [H4RestartReal(2, 1), H4RestartReal(2, 1, controls=True), H4RestartReal(2, 1, controls="pre_at_r")]
    if tier == "thorough":
        cs += [H1Tempo(4, 2), H1Tempo(4, None, ncalls=2), H1Tempo(4, 1, tau_add=True), H1Tempo(5, 2, dt=1.0),
               H1MeanField(3, None, ncalls=2), H1MeanField(4, 2, ncalls=2), H1PtTebd(5), H1PtTebdReal(3, sites=2, ptbond=2), H1PtTebdReal(2, sites=3, chi=2, ptbond=2)]
        cs += [H2Tempo(4, 2), H2Tempo(3, None), H2Tempo(4, 1, pre=False), H2Tempo(4, None, pre=False), H2MeanField("before_network", 3, 1),
               H2MeanField("in_compute_field", 2, 1), H2MeanField("in_compute_field", 4, 2, pre=False),
               H2MeanField("before_network", 2, 1, nsys=2), H2MeanField("in_compute_field", 2, 1, pre=False, nsys=2),
               H2MeanField("before_network", 2, None, pre=False, nsys=3), H1MeanField(2, 1, ncalls=2, nsys=2)]
        cs += [H3PtTempo(q, 4, 2) for q in _PT_SEQS] + [H3PtTempo("compute_get_get", 4, 1), H3PtTempo("get_twice", 4, None)]
        cs += [H3Gibbs(4, "sym"), H3Gibbs(5, "zero"), H3Gibbs(2, "sym", calls=3)]
        cs += [H2Gibbs(w, n) for w in _GIBBS_FAULTS for n in (3, 6)]
        cs += [H2TempoInfluence(w, 4, 2) for w in ("in_initialize", "in_step")]
        cs += [H4Restart(5, c) for c in _RESTART_CONTROLS]
        cs += [H4RestartReal(3, 2, sites=3, chi=2, ptbond=2, controls=True), H4RestartReal(3, 1, sites=3, chi=1, ptbond=2),
               H4RestartReal(3, 2, sites=2, chi=2, ptbond=2, controls="pre_at_r")]
    return cs
