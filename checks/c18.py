"""C18 -- control operations act at the stated time, side of measurement and order.

H1  Control.add_single / get_controls on symbolic superoperators: returned pre/post operator ==
    product of the controls registered for that step and side, in insertion order (later added
    acts later), None iff nothing registered; float times act at the nearest step.
H2  placement in compute_dynamics: the recorded state at the control step is the transformed one
    for a pre-measurement control, the untransformed one otherwise; it acts exactly once (all later
    states == explicit evolution with one application); first and last step included.
H3  the same rules per site on a chain: ChainControl.get_single_site_controls composition and
    PtTebd (initialize / compute_step / _apply_controls / PtTebdBackend.apply_site_gate) on a
    two-site product-state chain with symbolic process tensors.
"""
import contextlib
import io
import itertools
import warnings
from fractions import Fraction

import numpy as np
import z3

import oqupy
import oqupy.control as ctl
import oqupy.system_dynamics as sd
from oqupy.control import Control, ChainControl

from vf.core import Case, Ob
from vf import lib, sym
from vf.env import shadow_builtins, NpProxy
from vf.sym import S, SI, SB
from vf.timeidx import time_np_overrides, sym_int, near_time, as_int, all_of, any_of
from vf.poly import ob_eq_poly, either_of_poly

ASSUMPTIONS = [
    "exact real arithmetic for times (float times are start + dt*(k+e), |e|<1/2: ties and floating-point rounding of "
    "(t-start)/dt are outside the claim)",
    "conjugation-free contraction code is a polynomial map: identity over real symbols implies identity over complex values",
]

CT = "oqupy.control"
ENV_CT = {"noconj": True, "extra": dict(shadow_builtins(CT, ("isinstance",)), **{CT + ".np": NpProxy(time_np_overrides())})}


def _quiet():
    return contextlib.redirect_stdout(io.StringIO())


def _truth(c):
    """decide a (possibly symbolic) condition on the current path (forks if both sides are feasible)"""
    return bool(c)


def _neg(c):
    return ~c if isinstance(c, SB) else (not c)


def _prod(mats):
    """controls in insertion order -> operator that applies them in that order"""
    out = None
    for m in mats:
        out = m if out is None else m @ out
    return out


def _same(got, exp):
    """z3/py condition: arrays equal"""
    if got is None or exp is None:
        return got is None and exp is None
    if isinstance(got, np.ndarray) and got.dtype != object and isinstance(exp, np.ndarray) and exp.dtype != object:
        return bool(np.max(np.abs(got - exp)) <= 1e-9 * (1 + np.max(np.abs(exp))))
    f = z3.simplify(z3.Not(sym.neq_any(np.asarray(got, dtype=object), np.asarray(exp, dtype=object))))
    if z3.is_false(f) and all(S.of(v).is_concrete() for v in list(np.asarray(got, dtype=object).flat) + list(np.asarray(exp, dtype=object).flat)):
        from vf.core import _as_complex             # concrete validation run: doubles are kept as they are
        g, e = _as_complex(got), _as_complex(exp)
        return bool(np.max(np.abs(g - e)) <= 1e-9 * (1 + np.max(np.abs(e))))
    return SB(f)


# ------------------------------------------------------------------------------------------
# H1  Control
# ------------------------------------------------------------------------------------------
class H1(Case):
    """kinds: one letter per control in insertion order: 'i' int step, 'I' int step with the identity as
    operation, 'a','b','c' float time (same letter = same time value; different letters = different values).
    mode: 'claim'            int-only / float-only stacks, or mixed stacks in which no int control shares
                             (step, side) with a float control; distinct float times are inserted in
                             chronological order
          'mixed_same_step/each_acts_once'   one int and one float control on the same step and side: the returned
                             operator contains both exactly once (either order); None-ness; repeatable query
          'mixed_same_step/insertion_order'  same inputs, ONLY the obligation "product in insertion order"
                             (known finding: fixed category order)
          'float_antichrono' two distinct float times inserted latest first, same step and side"""
    functions = ("Control.add_single", "Control.get_controls")
    stubs = ("np.round -> nearest integer in exact real arithmetic, ties excluded by precondition",)
    env = ENV_CT
    max_paths = 8000

    def __init__(self, kinds, N, mode="claim", dt=0.1, side=None):
        self.kinds, self.N, self.mode, self.dt, self.side = kinds, N, mode, dt, side
        self.id = "H1/%s/%s_N%d_dt%s%s" % (mode, kinds, N, dt, "" if side is None else "_" + side)
        self.bounds = {"d": 2, "controls": kinds, "N": N, "dt": dt, "mode": mode, "side": side or "symbolic"}

    def run(self, inp):
        N, D = self.N, 4
        dt = inp.real("dt", lo=Fraction(1, 100), hi=4) if self.dt == "sym" else self.dt
        start = inp.real("start")
        q = sym_int(inp, "q", 0, N)
        control = Control(2)
        steps, posts, mats, times = [], [], [], {}
        for i, kd in enumerate(self.kinds):
            if self.side is None:
                post = inp.bool("post%d" % i)
            else:
                post = self.side == "post"
            if kd == "I":
                C = inp.const(np.identity(D))
            else:
                C = inp.arr("C%d" % i, (D, D))
            if kd in "iI":
                s = sym_int(inp, "s%d" % i, 0, N)
                t = s
            else:
                if kd not in times:
                    k = sym_int(inp, "k" + kd, 0, N)
                    times[kd] = (near_time(inp, "t" + kd, k, start, dt), k)
                t, s = times[kd]
            steps.append(s)
            posts.append(post)
            mats.append(C)
        # preconditions of the mode
        tl = sorted(times)
        if self.mode == "float_antichrono":
            for x, y in zip(tl[:-1], tl[1:]):
                inp.assume(times[x][0] > times[y][0])
        else:
            for x, y in zip(tl[:-1], tl[1:]):
                inp.assume(times[x][0] < times[y][0])           # chronological insertion, distinct values
        isint = [kd in "iI" for kd in self.kinds]
        shared = [all_of([steps[i] == steps[j], posts[i] == posts[j]] if not isinstance(posts[i], SB) and not isinstance(posts[j], SB)
                         else [steps[i] == steps[j], SB(sym.tob(posts[i]) == sym.tob(posts[j]))])
                  for i in range(len(mats)) for j in range(len(mats)) if isint[i] and not isint[j]]
        if self.mode == "claim":
            for c in shared:
                inp.assume(_neg(c))
        elif self.mode.startswith("mixed_same_step") or self.mode == "float_antichrono":
            for i in range(len(mats)):
                inp.assume(steps[i] == q)
                if i:
                    inp.assume(posts[i] == posts[0] if not isinstance(posts[i], SB) else SB(sym.tob(posts[i]) == sym.tob(posts[0])))
        with _quiet():
            for i in range(len(mats)):
                t = steps[i] if isint[i] else times[self.kinds[i]][0]
                control.add_single(t, mats[i], post=posts[i])
            pre, post = control.get_controls(q, dt=dt, start_time=start)
            pre2, post2 = control.get_controls(q, dt=dt, start_time=start)
        only_order = self.mode == "mixed_same_step/insertion_order"
        either_order = self.mode in ("float_antichrono", "mixed_same_step/each_acts_once")
        obs = []
        if not only_order:
            obs.append(Ob.holds("asking again gives the same pre/post operators (a query does not change what is registered)",
                                all_of([_same(pre2, pre), _same(post2, post)]), key="repeatable"))
        for side_name, got, want_post in (("pre", pre, False), ("post", post, True)):
            members = [i for i in range(len(mats))
                       if _truth(all_of([steps[i] == q, posts[i] if want_post else _neg(posts[i])]))]
            exp = _prod([mats[i] for i in members])
            if not only_order:
                obs.append(Ob.holds("%s: None iff nothing registered for the step" % side_name, (got is None) == (exp is None),
                                    key="none_iff_empty"))
            if got is None or exp is None:
                continue
            if either_order:
                rev = _prod([mats[i] for i in reversed(members)])
                obs.append(either_of_poly(inp, "%s: every registered control acts exactly once (either order)" % side_name,
                                          got, [exp, rev], key="once"))
            else:
                obs.append(ob_eq_poly(inp, "%s: product in insertion order (later added acts later)" % side_name, got, exp, key="order"))
        return obs


# ------------------------------------------------------------------------------------------
# H2  placement in compute_dynamics
# ------------------------------------------------------------------------------------------
SD = "oqupy.system_dynamics"


class H2(Case):
    """ctrls: one letter per control: 'i' int step, 'f' float time; each gets a symbolic step in 0..N and a
    symbolic pre/post flag (distinct (step, side) pairs unless `stack`)."""
    functions = ("system_dynamics.compute_dynamics", "system_dynamics._compute_dynamics_input_parse",
                 "system_dynamics._apply_system_superoperator", "Control.add_single", "Control.get_controls", "Dynamics.add")
    stubs = ("System.get_propagators -> symbolic half-step propagators",
             "np.round -> nearest integer in exact real arithmetic, ties excluded by precondition")
    env = ENV_CT
    timeout_s = 300

    def __init__(self, nenv, N, ctrls, bond=2, rank=4, start=0.0, stack=False, record_all=True):
        self.nenv, self.N, self.ctrls, self.bond, self.rank, self.start, self.stack = nenv, N, ctrls, bond, rank, start, stack
        self.record_all = record_all
        self.id = "H2/env%d_N%d_%s_b%d_r%d_t%s%s%s" % (nenv, N, ctrls, bond, rank, start, "_stack" if stack else "",
                                                       "" if record_all else "_last")
        self.bounds = {"d": 2, "envs": nenv, "N": N, "controls": ctrls, "bond": bond, "rank": rank, "start_time": start,
                       "stacked on one (step, side)": stack, "record_all": record_all}

    def run(self, inp):
        from checks.c03 import build_pt
        N, d, D = self.N, 2, 4
        dt = 0.1
        envs, pts = [], []
        for e in range(self.nenv):
            pt, Meff, caps = build_pt(inp, "e%d" % e, d, N, self.bond, self.rank, False, dt=dt)
            pts.append(pt)
            envs.append((Meff, caps))
        P1 = [lib.gen_prop(inp, "p%d" % k, d) for k in range(N)]
        P2 = [lib.gen_prop(inp, "q%d" % k, d) for k in range(N)]
        rho0 = inp.arr("r", (d, d))
        control = Control(d)
        regs = []
        for i, kd in enumerate(self.ctrls):
            s = sym_int(inp, "s%d" % i, 0, N)
            post = inp.bool("post%d" % i)
            C = inp.arr("C%d" % i, (D, D))
            if self.stack and i:
                inp.assume(s == regs[0][0])
                inp.assume(SB(sym.tob(post) == sym.tob(regs[0][1])) if inp.symbolic else post == regs[0][1])
            elif not self.stack:
                for (s2, p2, _) in regs:          # int and float controls are not mixed on one (step, side): see H1
                    inp.assume(_neg(all_of([s == s2, SB(sym.tob(post) == sym.tob(p2)) if inp.symbolic else post == p2])))
            t = s if kd == "i" else near_time(inp, "t%d" % i, s, self.start, dt)
            with _quiet():
                control.add_single(t, C, post=post)
            regs.append((s, post, C))
        kw = {}
        if self.nenv == 0:
            kw.update(dt=dt, num_steps=N)
        with _quiet():
            dyn = sd.compute_dynamics(lib.FakeSystem(d, P1, P2), initial_state=rho0, start_time=self.start,
                                      process_tensor=pts if self.nenv != 1 else pts[0], control=control,
                                      record_all=self.record_all, progress_type="silent", **kw)
        states = lib.dynamics_states(dyn)
        times = list(dyn._times)
        pre, post = {}, {}
        for (s, p, C) in regs:
            tgt = post if _truth(p) else pre
            cs = as_int(s)
            tgt[cs] = C if cs not in tgt else C @ tgt[cs]
        def label_ok(t, n):
            return abs(float(t) - (self.start + n * dt)) <= 1e-12
        if not self.record_all:
            # only the final state is returned: all controls before it have acted exactly once (post controls of
            # steps < N included; a post control at step N is after the returned state), labelled with the final time
            obs = [Ob.holds("exactly one state returned", len(states) == 1 and len(times) == 1, key="count")]
            if len(states) == 1 and len(times) == 1:
                exp = lib.oracle_pt_dynamics(rho0, envs, P1, P2, N, pre, post).reshape(d, d)
                obs.append(ob_eq_poly(inp, "final state == evolution with each control applied once (record_all=False)",
                                      states[0], exp, key="state"))
                obs.append(Ob.holds("final state labelled start_time + num_steps*dt", label_ok(times[0], N), key="time_label"))
            return obs
        obs = [Ob.holds("number of recorded states", len(states) == N + 1 and len(times) == N + 1, key="count")]
        for n in range(min(N + 1, len(states))):
            exp = lib.oracle_pt_dynamics(rho0, envs, P1, P2, n, pre, post).reshape(d, d)
            obs.append(ob_eq_poly(inp, "state %d == evolution with each control applied once, pre before / post after the record" % n,
                                  states[n], exp, key="state"))
        if len(times) == N + 1:
            obs.append(Ob.holds("states labelled start_time + step*dt", all(label_ok(times[n], n) for n in range(N + 1)), key="time_label"))
        return obs


class _FrozenFieldSystem(oqupy.TimeDependentSystemWithField):
    """real TimeDependentSystemWithField.__init__ on a dummy Hamiltonian; field-independent symbolic half-step
    propagators handed in (the field part of the mean-field loop is C09's subject)"""

    def __init__(self, d, P1, P2):
        super().__init__(lambda t, a: np.zeros((d, d)) + 0.0 * t)
        self._P1, self._P2 = P1, P2

    def get_propagators(self, dt, start_time, subdiv_limit, epsrel):
        return lambda step, field, field_derivative: (self._P1[step], self._P2[step])


class H2F(Case):
    """compute_dynamics_with_field (its own copy of the step loop) with a control_list: one symbolic control per
    system (symbolic step 0..N, symbolic side); frozen field (field_eom == 0), field-independent propagators."""
    functions = ("system_dynamics.compute_dynamics_with_field", "system_dynamics._compute_dynamics_input_parse",
                 "system_dynamics._apply_system_superoperator", "Control.add_single", "Control.get_controls",
                 "MeanFieldDynamics.__init__", "MeanFieldSystem.__init__")
    stubs = ("TimeDependentSystemWithField.get_propagators -> field-independent symbolic half-step propagators",
             "field equation of motion == 0 (frozen field)")
    env = ENV_CT
    timeout_s = 300

    def __init__(self, nsys, N, ctrls, bond=1, record_all=True, start=0.0):
        self.nsys, self.N, self.ctrls, self.bond, self.record_all, self.start = nsys, N, ctrls, bond, record_all, start
        self.id = "H2F/with_field_sys%d_N%d_%s_b%d_t%s%s" % (nsys, N, ctrls, bond, start, "" if record_all else "_last")
        self.bounds = {"d": 2, "systems": nsys, "N": N, "controls per system": ctrls, "bond": bond, "record_all": record_all,
                       "start_time": start}

    def run(self, inp):
        from checks.c03 import build_pt
        N, d, D, dt = self.N, 2, 4, 0.1
        systems, pts, envs, props, rho0s, controls, regs_all = [], [], [], [], [], [], []
        for k in range(self.nsys):
            pt, Meff, caps = build_pt(inp, "e%d" % k, d, N, self.bond, 4, False, dt=dt)
            P1 = [lib.gen_prop(inp, "p%d_%d" % (k, j), d) for j in range(N)]
            P2 = [lib.gen_prop(inp, "q%d_%d" % (k, j), d) for j in range(N)]
            systems.append(_FrozenFieldSystem(d, P1, P2))
            pts.append(pt)
            envs.append((Meff, caps))
            props.append((P1, P2))
            rho0s.append(inp.arr("r%d" % k, (d, d)))
            control = Control(d)
            regs = []
            for i, kd in enumerate(self.ctrls):
                sstep = sym_int(inp, "s%d_%d" % (k, i), 0, N)
                post = inp.bool("post%d_%d" % (k, i))
                C = inp.arr("C%d_%d" % (k, i), (D, D))
                for (s2, p2, _) in regs:
                    inp.assume(_neg(all_of([sstep == s2, SB(sym.tob(post) == sym.tob(p2)) if inp.symbolic else post == p2])))
                t = sstep if kd == "i" else near_time(inp, "t%d_%d" % (k, i), sstep, self.start, dt)
                with _quiet():
                    control.add_single(t, C, post=post)
                regs.append((sstep, post, C))
            controls.append(control)
            regs_all.append(regs)
        mfs = oqupy.MeanFieldSystem(systems, field_eom=lambda t, states, field: 0.0 + 0.0j)
        with _quiet():
            dyn = sd.compute_dynamics_with_field(mfs, initial_field=0.25 + 0.5j, process_tensor_list=pts, initial_state_list=rho0s,
                                                 start_time=self.start, control_list=controls, record_all=self.record_all,
                                                 progress_type="silent")
        obs = []
        for k in range(self.nsys):
            states = list(dyn.system_dynamics[k]._states)
            pre, post = {}, {}
            for (sstep, p, C) in regs_all[k]:
                tgt = post if _truth(p) else pre
                cs = as_int(sstep)
                tgt[cs] = C if cs not in tgt else C @ tgt[cs]
            P1, P2 = props[k]
            steps = list(range(N + 1)) if self.record_all else [N]
            obs.append(Ob.holds("system %d: number of returned states" % k, len(states) == len(steps), key="count"))
            for idx, n in enumerate(steps[:len(states)]):
                exp = lib.oracle_pt_dynamics(rho0s[k], [envs[k]], P1, P2, n, pre, post).reshape(d, d)
                obs.append(ob_eq_poly(inp, "system %d state at step %d == evolution with each control applied once, pre before / post after the record" % (k, n),
                                      states[idx], exp, key="state"))
        times = list(dyn.times)
        want = [self.start + n * dt for n in (range(N + 1) if self.record_all else [N])]
        obs.append(Ob.holds("time labels", len(times) == len(want) and all(abs(float(a) - b) <= 1e-12 for a, b in zip(times, want)),
                            key="time_label"))
        return obs


# ------------------------------------------------------------------------------------------
# H3  chains
# ------------------------------------------------------------------------------------------
def _sym_complex(x, *a):
    """`complex(total_trace)` in PtTebdBackend.get_norm (the norm is recorded, never used)"""
    if isinstance(x, np.ndarray) and x.dtype == object:
        return S.of(x.reshape(-1)[0])
    if isinstance(x, (S, SI)):
        return S.of(x)
    return complex(x, *a)


ENV_CH = {"noconj": True, "extra": dict(shadow_builtins(CT, ("isinstance",)),
                                        **{"oqupy.backends.pt_tebd_backend.complex": _sym_complex})}


def _beq(a, b, inp):
    if inp.symbolic:
        return SB(sym.tob(a) == sym.tob(b))
    return bool(a) == bool(b)


def _register(inp, cc, n_ctrl, N, mode, nsites=2):
    """adds n_ctrl symbolic controls to the ChainControl; -> list of (site, step, post, C)"""
    regs = []
    for i in range(n_ctrl):
        site = sym_int(inp, "site%d" % i, 0, nsites - 1)
        step = sym_int(inp, "s%d" % i, 0, N)
        post = inp.bool("post%d" % i)
        C = inp.arr("C%d" % i, (4, 4))
        for (si2, st2, p2, _) in regs:
            same = all_of([site == si2, step == st2, _beq(post, p2, inp)])
            if mode == "claim":
                inp.assume(_neg(same))                 # one control per (site, step, side)
            else:
                inp.assume(same)                       # all stacked on one (site, step, side)
        cc.add_single_site_control(C, as_int(site) if mode == "never" else site, step, post=post)
        regs.append((site, step, post, C))
    return regs


def _expected_site_controls(regs, nsites, step, want_post):
    out = [None] * nsites
    for (site, st, post, C) in regs:
        if _truth(all_of([st == step, post if want_post else _neg(post)])):
            k = as_int(site)
            out[k] = C if out[k] is None else C @ out[k]       # later added acts later
    return out


class H3a(Case):
    functions = ("ChainControl.add_single_site_control", "ChainControl.get_single_site_controls")
    env = ENV_CH
    max_paths = 8000

    def __init__(self, n_ctrl, N, mode):
        self.n_ctrl, self.N, self.mode = n_ctrl, N, mode
        self.id = "H3/%s/get_single_site_controls_k%d_N%d" % (mode, n_ctrl, N)
        self.bounds = {"sites": 2, "d": 2, "controls": n_ctrl, "N": N, "mode": mode}

    def run(self, inp):
        N = self.N
        cc = ChainControl([2, 2])
        regs = _register(inp, cc, self.n_ctrl, N, self.mode)
        q = sym_int(inp, "q", 0, N)
        obs = []
        for want_post in (False, True):
            got = cc.get_single_site_controls(q, want_post)
            again = cc.get_single_site_controls(q, want_post)
            exp = _expected_site_controls(regs, 2, q, want_post)
            name = "post" if want_post else "pre"
            if got is None or again is None:
                same = got is None and again is None
            else:
                same = all_of([_same(again[k], got[k]) for k in range(2)])
            obs.append(Ob.holds("%s: asking again gives the same operators (each control acts once however often the step is queried)" % name,
                                same, key="repeatable"))
            empty = all(e is None for e in exp)
            obs.append(Ob.holds("%s: None iff nothing registered for the step" % name, (got is None) == empty, key="none_iff_empty"))
            if got is None or empty:
                continue
            for k in range(2):
                if got[k] is None or exp[k] is None:
                    obs.append(Ob.holds("%s site %d: None iff nothing registered" % (name, k), got[k] is None and exp[k] is None,
                                        key="none_iff_empty"))
                else:
                    obs.append(ob_eq_poly(inp, "%s site %d: product in insertion order (later added acts later)" % (name, k), got[k], exp[k], key="order"))
        return obs


class H3b(Case):
    """real PtTebd on a two-site chain without coupling terms (product state, symbolic process tensor per
    site): per-site and two-site reduced states at every step == explicit evolution of each site with
    its controls applied once, pre before / post after the record."""
    functions = ("PtTebd.initialize", "PtTebd.compute", "PtTebd.compute_step", "PtTebd._apply_controls", "PtTebd._append_results",
                 "PtTebdBackend.apply_site_gate_layer", "PtTebdBackend.apply_site_gate", "PtTebdBackend.apply_process_tensors",
                 "PtTebdBackend.apply_nn_gate", "PtTebdBackend.compute_traces", "PtTebdBackend.get_density_matrix",
                 "ChainControl.add_single_site_control", "ChainControl.get_single_site_controls")
    stubs = ("tensornetwork numpy backend svd -> exact non-truncating factorisation",
             "builtin complex() in PtTebdBackend.get_norm -> identity on symbolic scalars (norm is only recorded)")
    assumptions = ("system chain without coupling terms: the nearest-neighbour gates are the (numerically factorised) identity",)
    env = ENV_CH
    timeout_s = 300

    def __init__(self, n_ctrl, N, mode, bonds=(2, 1), pair=True, twice=False):
        self.n_ctrl, self.N, self.mode, self.bonds, self.pair, self.twice = n_ctrl, N, mode, bonds, pair, twice
        self.id = "H3/%s/pt_tebd_k%d_N%d_b%d%d" % (mode, n_ctrl, N, bonds[0], bonds[1])
        self.bounds = {"sites": 2, "d": 2, "controls": n_ctrl, "N": N, "mode": mode, "pt bonds": list(bonds)}

    def run(self, inp):
        import oqupy.pt_tebd as ptt
        from checks.c03 import build_pt
        N, D = self.N, 4
        pts, envs, g = [], [], []
        for k in range(2):
            pt, Meff, caps = build_pt(inp, "e%d" % k, 2, N, self.bonds[k], 4, False)
            pts.append(pt)
            envs.append((Meff, caps))
            g.append(inp.arr("g%d" % k, (D,)))
        cc = ChainControl([2, 2])
        regs = _register(inp, cc, self.n_ctrl, N, self.mode)
        mps = oqupy.AugmentedMPS([g[0].copy(), g[1].copy()])
        chain = oqupy.SystemChain([2, 2])
        par = oqupy.PtTebdParameters(dt=0.1, order=1, epsrel=1e-14)
        sites = [0, 1] + ([(0, 1)] if self.pair else [])
        tebd = ptt.PtTebd(mps, chain, pts, par, chain_control=cc, dynamics_sites=sites)
        with _quiet():
            res = tebd.compute(N, progress_type="silent")
        res2 = None
        if self.mode == "stack_order" or self.twice:
            # the same ChainControl drives a second computation: every control still acts exactly once
            mps2 = oqupy.AugmentedMPS([g[0].copy(), g[1].copy()])
            tebd2 = ptt.PtTebd(mps2, chain, pts, par, chain_control=cc, dynamics_sites=[0, 1])
            with _quiet():
                res2 = tebd2.compute(N, progress_type="silent")
        eye = inp.const(np.identity(D))
        ident = [eye] * N
        obs = []
        vs = {}
        for k in range(2):
            pre, post = {}, {}
            for (site, st, p, C) in regs:
                if as_int(site) != k:
                    continue
                tgt = post if _truth(p) else pre
                cs = as_int(st)
                tgt[cs] = C if cs not in tgt else C @ tgt[cs]
            for n in range(N + 1):
                vs[k, n] = lib.oracle_pt_dynamics(g[k].reshape(2, 2), [envs[k]], ident, ident, n, pre, post)
        tr = lambda v: v[0] + v[3]
        for k in range(2):
            states = list(res["dynamics"][k]._states)
            obs.append(Ob.holds("site %d: number of recorded states" % k, len(states) == N + 1, key="count"))
            for n in range(min(N + 1, len(states))):
                exp = (vs[k, n] * tr(vs[1 - k, n])).reshape(2, 2)
                obs.append(ob_eq_poly(inp, "site %d state %d" % (k, n), states[n], exp, key="state"))
            if res2 is not None:
                states2 = list(res2["dynamics"][k]._states)
                for n in range(min(N + 1, len(states2))):
                    exp = (vs[k, n] * tr(vs[1 - k, n])).reshape(2, 2)
                    obs.append(ob_eq_poly(inp, "second computation with the same ChainControl: site %d state %d" % (k, n),
                                          states2[n], exp, key="state_second_run"))
        if self.pair:
            states = list(res["dynamics"][(0, 1)]._states)
            for n in range(min(N + 1, len(states))):
                a, b = vs[0, n].reshape(2, 2), vs[1, n].reshape(2, 2)
                exp = np.einsum("ij,kl->ikjl", a, b).reshape(4, 4)
                obs.append(ob_eq_poly(inp, "two-site state %d" % n, states[n], exp, key="state"))
        return obs


def cases(tier):
    cs = []
    # ---- H1 Control
    cs += [H1("i", 3), H1("ii", 2), H1("iii", 2, side="pre"), H1("iIi", 2, side="post"), H1("a", 3, dt="sym"), H1("aa", 2), H1("aaa", 2, dt="sym"),
           H1("ab", 2), H1("aab", 2), H1("abc", 2, side="post"), H1("ia", 2), H1("aia", 2, side="pre")]
    for mm in ("mixed_same_step/each_acts_once", "mixed_same_step/insertion_order"):
        cs += [H1("ia", 2, mm, side="pre"), H1("ai", 2, mm, side="pre"), H1("ia", 2, mm, side="post"), H1("ai", 2, mm, side="post")]
    cs += [H1("ab", 2, "float_antichrono")]
    # ---- H2 compute_dynamics
    cs += [H2(0, 2, "i"), H2(1, 2, "i"), H2(1, 3, "f", start=0.3), H2(1, 2, "ii"), H2(1, 2, "if", bond=1), H2(1, 2, "ii", stack=True, rank=3)]
    cs += [H2(0, 2, "i", record_all=False), H2(1, 3, "i", record_all=False), H2(1, 2, "f", start=0.3, record_all=False),
           H2(2, 2, "ii", bond=1, record_all=False)]
    cs += [H2F(1, 2, "i"), H2F(2, 2, "i"), H2F(1, 3, "f", start=0.3), H2F(1, 2, "i", record_all=False), H2F(1, 2, "ii", bond=2)]
    # ---- H3 chains
    cs += [H3a(1, 2, "claim"), H3a(2, 2, "claim"), H3a(2, 2, "stack_order"), H3a(3, 1, "stack_order")]
    cs += [H3b(1, 2, "claim"), H3b(2, 1, "claim", bonds=(1, 1), pair=False), H3b(2, 1, "stack_order", bonds=(1, 1), pair=False)]
    if tier == "thorough":
        cs += [H1("iii", 3), H1("iii", 2), H1("abc", 3, dt="sym"), H1("aab", 2, dt="sym"), H1("abb", 2), H1("iai", 2), H1("ab", 3, "float_antichrono", dt="sym"),
               H1("ia", 3, "mixed_same_step/each_acts_once", dt="sym", side="pre"), H1("ai", 3, "mixed_same_step/each_acts_once", dt="sym", side="post"),
               H1("ia", 3, "mixed_same_step/insertion_order", dt="sym", side="pre"), H1("ai", 3, "mixed_same_step/insertion_order", dt="sym", side="post")]
        cs += [H2(0, 3, "ii", record_all=False), H2(1, 3, "if", record_all=False), H2(2, 3, "i", bond=1, record_all=False),
               H2(1, 3, "ii", stack=True, record_all=False)]
        cs += [H2(0, 3, "ii"), H2(1, 3, "ii"), H2(2, 2, "i", bond=1), H2(1, 3, "ff", start=0.3, bond=1), H2(1, 3, "iii", stack=True, bond=1), H2(1, 2, "iii", bond=1)]
        cs += [H3a(3, 1, "claim"), H3a(3, 2, "stack_order"), H3b(2, 2, "claim", bonds=(1, 1)), H3b(1, 3, "claim", bonds=(1, 1), pair=False), H3b(1, 2, "claim", bonds=(2, 2)),
               H3b(3, 1, "stack_order", bonds=(1, 1), pair=False), H3b(2, 2, "stack_order", bonds=(2, 1))]
    return cs
