"""C03 -- contracting any process tensor reproduces the exact joint evolution.

H1  compute_dynamics (real input parsing, caps, MPO application incl. rank-3 delta
    expansion and transform_in/out, controls) on arbitrary symbolic process tensors
    == explicit index sum in the order system half step, environments in list order,
    system half step.
H2  order of the list: asserted where it is a mathematical truth (rank-3 delta tensors
    in a common basis commute).
H3  two PT-TEMPO process tensors from I1, I2 == one from the Hadamard product I1*I2.
H4  superoperator conventions of oqupy.operators.
"""
import itertools

import numpy as np

import oqupy
import oqupy.operators as ops
import oqupy.process_tensor as ptm
import oqupy.system_dynamics as sd
from oqupy.control import Control

from vf.core import Case, Ob
from vf import lib

ASSUMPTIONS = [
    "exact real/complex arithmetic (floating-point rounding of tensor arithmetic outside the claim)",
    "conjugation-free contraction code is a polynomial map: identity over real symbols implies identity over complex values",
]


def build_pt(inp, name, d, N, bond, rank, transforms, dt=0.1):
    D = d * d
    tin = tout = None
    din = dout = D
    if transforms == "full":
        tin = inp.arr(name + "Ti", (D, D))
        tout = inp.arr(name + "To", (D, D))
    elif transforms in ("in", "out"):
        # only one of the two transforms present
        if transforms == "in":
            tin = _sparse_transform(inp, name + "Ti", D, shift=1)
        else:
            tout = _sparse_transform(inp, name + "To", D, shift=2)
    elif transforms:
        # sparse symbolic transforms (generalised permutation + one extra concrete entry):
        # keeps the polynomial degree/size in reach, still detects a missing, transposed,
        # swapped or mis-placed transform
        tin = _sparse_transform(inp, name + "Ti", D, shift=1)
        tout = _sparse_transform(inp, name + "To", D, shift=2)
    pt = ptm.SimpleProcessTensor(hilbert_space_dimension=d, dt=dt, transform_in=tin, transform_out=tout)
    Ms, Meff, caps = [], [], []
    for k in range(N):
        bl = 1 if k == 0 else bond
        br = 1 if k == N - 1 else bond
        if rank == 3:
            M = inp.arr("%sM%d" % (name, k), (bl, br, D))
            full = np.zeros((bl, br, D, D), dtype=M.dtype)
            for a in range(bl):
                for b in range(br):
                    for i in range(D):
                        full[a, b, i, i] = M[a, b, i]
        else:
            M = inp.arr("%sM%d" % (name, k), (bl, br, D, D))
            full = M
        pt.set_mpo_tensor(k, M)
        if transforms:
            # documented: transform_in maps system basis -> PT basis on the input leg,
            # transform_out maps PT basis -> system basis on the output leg
            full = _apply_tr(full, tin, tout)
        Ms.append(M)
        Meff.append(full)
    for k in range(N + 1):
        bl = 1 if (k == 0 or k == N) else bond
        c = inp.arr("%sc%d" % (name, k), (bl,))
        caps.append(c)
        pt.set_cap_tensor(k, c)
    return pt, Meff, caps


def _sparse_transform(inp, name, D, shift):
    t = inp.const(np.zeros((D, D)))
    v = inp.arr(name, (D,))
    for i in range(D):
        t[i, (i + shift) % D] = v[i]
    t[0, 0] = inp.one()
    return t


def _apply_tr(full, tin, tout):
    if tin is None:
        tin = np.identity(full.shape[2])
    if tout is None:
        tout = np.identity(full.shape[3])
    # convention fixed by PtTempo._init_*_process_tensor (proved physical in C05/H1):
    # out[a,b,k,l] = sum_ij tin[k,i] full[a,b,i,j] tout[j,l]
    t = np.tensordot(full, tin, axes=([2], [1]))      # a b j k
    t = np.moveaxis(t, -1, 2)                         # a b k j
    t = np.tensordot(t, tout, axes=([3], [0]))        # a b k l
    return t


class H1(Case):
    functions = ("system_dynamics.compute_dynamics", "_compute_dynamics_input_parse", "_get_caps", "_get_pt_mpos",
                 "_apply_system_superoperator", "_apply_pt_mpos", "_apply_caps", "SimpleProcessTensor.get_mpo_tensor",
                 "Control.add_single", "Control.get_controls", "Dynamics.add")
    stubs = ("System.get_propagators -> symbolic half-step propagators",)
    env = {"noconj": True}

    def __init__(self, nenv, N, bond, rank, transforms, controls, num_steps=None, d=2, layout="C"):
        self.nenv, self.N, self.bond, self.rank, self.transforms, self.controls = nenv, N, bond, rank, transforms, controls
        self.d = d
        self.num_steps = num_steps
        self.layout = layout      # memory layout of the initial-state array handed to compute_dynamics (same logical matrix)
        self.id = "H1/env%d_N%d_b%d_r%d_%s_%s%s%s%s" % (nenv, N, bond, rank, ("tr" if transforms is True else "tr" + str(transforms)) if transforms else "notr", controls,
                                                        "" if num_steps is None else "_n%d" % num_steps, "" if d == 2 else "_d%d" % d,
                                                        "" if layout == "C" else "_layout" + layout)
        self.bounds = {"d": d, "envs": nenv, "N": N, "bond": bond, "rank": rank, "transforms": transforms, "controls": controls,
                       "initial_state_layout": layout}
        self.timeout_s = 300

    def run(self, inp):
        d, N = self.d, self.N
        D = d * d
        envs, pts = [], []
        for e in range(self.nenv):
            pt, Meff, caps = build_pt(inp, "e%d" % e, d, N, self.bond, self.rank, self.transforms)
            pts.append(pt)
            envs.append((Meff, caps))
        n_run = N if self.num_steps is None else self.num_steps
        P1 = [lib.gen_prop(inp, "p%d" % k, d) for k in range(N)]
        P2 = [lib.gen_prop(inp, "q%d" % k, d) for k in range(N)]
        rho0 = inp.arr("r", (d, d))
        pre, post = {}, {}
        control = None
        if self.controls != "none":
            control = Control(d)
            spec = {"prepost": [(0, False), (1, True)], "ends": [(0, True), (n_run, False)],
                    "stack": [(1, False), (1, False), (1, True), (1, True)]}[self.controls]
            for ci, (step, is_post) in enumerate(spec):
                if step > n_run:
                    continue
                C = inp.arr("C%d" % ci, (D, D))
                control.add_single(step, C, post=is_post)
                tgt = post if is_post else pre
                tgt[step] = C if step not in tgt else C @ tgt[step]
        system = lib.FakeSystem(d, P1, P2)
        kw = {}
        if self.nenv == 0:
            kw.update(dt=0.1, num_steps=n_run)
        elif self.num_steps is not None:
            kw.update(num_steps=n_run)
        rho_in = rho0
        if self.layout == "F":        # column-major copy: same matrix, other memory order
            rho_in = np.asfortranarray(rho0)
        elif self.layout == "S":      # non-contiguous view into a larger buffer
            big = np.zeros((2 * d, 2 * d), dtype=rho0.dtype)
            big[::2, ::2] = rho0
            rho_in = big[::2, ::2]
        dyn = sd.compute_dynamics(system, initial_state=rho_in, process_tensor=pts if self.nenv != 1 else pts[0],
                                  control=control, progress_type="silent", **kw)
        states = lib.dynamics_states(dyn)
        obs = [Ob.holds("number of states", len(states) == n_run + 1),
               Ob.holds("initial-state array has the intended memory layout",
                        {"C": rho_in.flags["C_CONTIGUOUS"], "F": rho_in.flags["F_CONTIGUOUS"] and not rho_in.flags["C_CONTIGUOUS"],
                         "S": not rho_in.flags["C_CONTIGUOUS"] and not rho_in.flags["F_CONTIGUOUS"]}[self.layout])]
        for n in range(n_run + 1):
            exp = lib.oracle_pt_dynamics(rho0, envs, P1, P2, n, pre, post).reshape(d, d)
            obs.append(Ob.eq("state at step %d" % n, states[n], exp))
        return obs


class H2(Case):
    """list order irrelevant for rank-3 (delta) tensors in a common basis"""
    functions = H1.functions
    env = {"noconj": True}

    def __init__(self, nenv, N, bond):
        self.nenv, self.N, self.bond = nenv, N, bond
        self.id = "H2/perm_env%d_N%d_b%d" % (nenv, N, bond)
        self.bounds = {"d": 2, "envs": nenv, "N": N, "bond": bond, "rank": 3}
        self.timeout_s = 300

    def run(self, inp):
        d, N = 2, self.N
        pts = [build_pt(inp, "e%d" % e, d, N, self.bond, 3, False)[0] for e in range(self.nenv)]
        P1 = [lib.gen_prop(inp, "p%d" % k, d) for k in range(N)]
        P2 = [lib.gen_prop(inp, "q%d" % k, d) for k in range(N)]
        rho0 = inp.arr("r", (d, d))
        base = None
        obs = []
        for perm in itertools.permutations(range(self.nenv)):
            dyn = sd.compute_dynamics(lib.FakeSystem(d, P1, P2), initial_state=rho0,
                                      process_tensor=[pts[i] for i in perm], progress_type="silent")
            st = lib.dynamics_states(dyn)
            if base is None:
                base = st
                continue
            for n in range(N + 1):
                obs.append(Ob.eq("perm %s step %d" % ("".join(map(str, perm)), n), st[n], base[n]))
        return obs


class H3(Case):
    """two baths with the same coupling operator == one bath with the summed spectral
    density: influence matrices multiply entrywise (exp(a)exp(b) = exp(a+b) is glue)."""
    functions = ("PtTempoBackend.initialize", "PtTempoBackend.compute_step", "PtTempoBackend.update_process_tensor",
                 "SimpleProcessTensor.compute_caps", "system_dynamics.compute_dynamics", "NodeArray.*")
    stubs = ("tensornetwork numpy backend svd -> exact non-truncating factorisation",
             "System.get_propagators -> symbolic half-step propagators")
    env = {"noconj": True}

    def __init__(self, N, K):
        self.N, self.K = N, K
        self.id = "H3/sumJ_N%d_K%s" % (N, K)
        self.bounds = {"d": 2, "N": N, "dkmax": K}
        self.timeout_s = 600

    def run(self, inp):
        d, N, K = 2, self.N, self.K
        I1 = lib.Influences(inp, d, K, name="A")
        I2 = lib.Influences(inp, d, K, name="B")

        def I12(dk):
            a, b = I1(dk), I2(dk)
            return None if a is None else a * b
        pt1 = lib.run_pt_tempo(inp, I1, N, K, d)
        pt2 = lib.run_pt_tempo(inp, I2, N, K, d)
        pt12 = lib.run_pt_tempo(inp, I12, N, K, d)
        P1 = [lib.tp_prop(inp, "p%d" % k, d) for k in range(N)]
        P2 = [lib.tp_prop(inp, "q%d" % k, d) for k in range(N)]
        rho0 = inp.arr("r", (d, d))
        a = lib.dynamics_states(sd.compute_dynamics(lib.FakeSystem(d, P1, P2), initial_state=rho0,
                                                    process_tensor=[pt1, pt2], progress_type="silent"))
        b = lib.dynamics_states(sd.compute_dynamics(lib.FakeSystem(d, P1, P2), initial_state=rho0,
                                                    process_tensor=pt12, progress_type="silent"))
        return [Ob.eq("step %d" % n, a[n], b[n]) for n in range(N + 1)]


class H5(Case):
    """get_mpo_tensor applies fully symbolic transform_in/out as documented (local)"""
    functions = ("SimpleProcessTensor.get_mpo_tensor", "BaseProcessTensor.__init__", "util.create_delta")
    env = {"noconj": True}

    def __init__(self, rank, d=2):
        self.rank, self.d = rank, d
        self.id = "H5/get_mpo_tensor_r%d_d%d" % (rank, d)
        self.bounds = {"d": d, "rank": rank, "bond": 2}

    def run(self, inp):
        pt, Meff, caps = build_pt(inp, "e", self.d, 2, 2, self.rank, "full")
        obs = [Ob.eq("mpo %d transformed" % k, pt.get_mpo_tensor(k), Meff[k]) for k in range(2)]
        pt2, Meff2, _ = build_pt(inp, "f", self.d, 2, 2, self.rank, False)
        obs += [Ob.eq("mpo %d untransformed" % k, pt2.get_mpo_tensor(k), Meff2[k]) for k in range(2)]
        obs += [Ob.eq("mpo %d transformed=False" % k, pt.get_mpo_tensor(k, transformed=False), Meff2[k].__class__(Meff2[k].shape, dtype=Meff2[k].dtype)
                      if False else _untransformed(pt, k, self.rank)) for k in range(2)]
        return obs


def _untransformed(pt, k, rank):
    M = pt._mpo_tensors[k]
    if rank == 4:
        return M
    bl, br, D = M.shape
    full = np.zeros((bl, br, D, D), dtype=M.dtype)
    for a in range(bl):
        for b in range(br):
            for i in range(D):
                full[a, b, i, i] = M[a, b, i]
    return full


class H6(Case):
    """compute_caps(): cap_k = contraction of the TRANSFORMED MPO tensor of step k (as returned by
    get_mpo_tensor, verified in H5) with the normalised trace vector on its input leg AND on its
    output leg and with cap_{k+1}; cap_N = 1.  (Physical meaning: the later part of the environment
    is traced out after feeding it the maximally mixed state.)  Rank-3 tensors are checked without
    transforms only: for rank-3 tensors WITH non-unitary transforms SimpleProcessTensor.compute_caps
    (trace_square, transforms ignored) and FileProcessTensor.compute_caps differ and the property does
    not say which is meant -- not demanded HERE (with the unitary transforms PT-TEMPO produces they agree;
    that case is covered by C05/H1 and C16/H2).  Later (/repo 2afc41d, 8309bd6): the file-backed class was repaired for rank-4 tensors and made to use
    the same rank-3 weights as the in-memory class; rank-3 with transforms stays not demanded."""
    functions = ("SimpleProcessTensor.compute_caps", "SimpleProcessTensor.get_mpo_tensor", "BaseProcessTensor.__init__")
    env = {}

    def __init__(self, rank, transforms, N=2, d=2):
        self.rank, self.transforms, self.N, self.d = rank, transforms, N, d
        self.id = "H6/compute_caps_r%d_%s_N%d_d%d" % (rank, transforms if transforms else "notr", N, d)
        self.bounds = {"d": d, "rank": rank, "transforms": transforms, "N": N, "bond": 2}
        self.timeout_s = 300

    def run(self, inp):
        d, N = self.d, self.N
        D = d * d
        pt, Meff, _ = build_pt(inp, "e", d, N, 2, self.rank, self.transforms)
        pt.compute_caps()
        tr = (np.identity(d) / np.sqrt(float(d))).reshape(D)
        if inp.mode != "real":
            tr = inp.const(tr)
        caps = [None] * (N + 1)
        caps[N] = inp.const(np.array([1.0]))
        for k in reversed(range(N)):
            M = Meff[k]
            t = np.tensordot(M, tr, axes=([3], [0]))          # a b in
            t = np.tensordot(t, tr, axes=([2], [0]))          # a b
            caps[k] = np.tensordot(t, caps[k + 1], axes=([1], [0]))
        obs = [Ob.holds("N+1 caps", len(pt._cap_tensors) == N + 1)]
        for k in range(N + 1):
            obs.append(Ob.eq("cap %d" % k, pt.get_cap_tensor(k), caps[k]))
        return obs


class H7(Case):
    """results depend on the CURRENT tensors of a process tensor: a step that was read and then
    overwritten (set_mpo_tensor / set_cap_tensor again) contracts with the new tensors"""
    functions = ("SimpleProcessTensor.set_mpo_tensor", "SimpleProcessTensor.get_mpo_tensor", "SimpleProcessTensor.set_cap_tensor",
                 "system_dynamics.compute_dynamics")
    env = {"noconj": True}

    def __init__(self, rank):
        self.rank = rank
        self.id = "H7/overwrite_after_read_r%d" % rank
        self.bounds = {"d": 2, "N": 2, "bond": 2, "rank": rank}
        self.timeout_s = 300

    def run(self, inp):
        d, N = 2, 2
        pt, Meff, caps = build_pt(inp, "e", d, N, 2, self.rank, False)
        P1 = [lib.gen_prop(inp, "p%d" % k, d) for k in range(N)]
        P2 = [lib.gen_prop(inp, "q%d" % k, d) for k in range(N)]
        rho0 = inp.arr("r", (d, d))
        # first use (reads every step), then overwrite both steps and the caps with fresh tensors
        first = lib.dynamics_states(sd.compute_dynamics(lib.FakeSystem(d, P1, P2), initial_state=rho0, process_tensor=pt,
                                                        progress_type="silent"))
        _, Meff2, caps2 = build_pt(inp, "f", d, N, 2, self.rank, False)
        D = d * d
        for k in range(N):
            M = Meff2[k]
            if self.rank == 3:
                M3 = np.empty(M.shape[:3], dtype=M.dtype)
                for a in range(M.shape[0]):
                    for b in range(M.shape[1]):
                        for i in range(D):
                            M3[a, b, i] = M[a, b, i, i]
                M = M3
            pt.set_mpo_tensor(k, M)
        for k in range(N + 1):
            pt.set_cap_tensor(k, caps2[k])
        second = lib.dynamics_states(sd.compute_dynamics(lib.FakeSystem(d, P1, P2), initial_state=rho0, process_tensor=pt,
                                                         progress_type="silent"))
        obs = []
        for n in range(N + 1):
            obs.append(Ob.eq("first use step %d" % n, first[n],
                             lib.oracle_pt_dynamics(rho0, [(Meff, caps)], P1, P2, n).reshape(d, d)))
            obs.append(Ob.eq("after overwrite step %d" % n, second[n],
                             lib.oracle_pt_dynamics(rho0, [(Meff2, caps2)], P1, P2, n).reshape(d, d)))
        return obs


class H8(Case):
    """input parsing: with process tensors of different lengths and no num_steps the shortest one bounds the
    computation; dt is taken from the process tensors; the longer tensor is closed with ITS cap of that step"""
    functions = ("system_dynamics._compute_dynamics_input_parse", "system_dynamics.compute_dynamics")
    env = {"noconj": True}

    def __init__(self, N, extra, trivial=False):
        self.N, self.extra, self.trivial = N, extra, trivial
        self.id = "H8/mixed_lengths_N%d_plus%d%s" % (N, extra, "_trivial" if trivial else "")
        self.bounds = {"d": 2, "lengths": [N, N + extra], "bond": 2, "trivial_pt_in_list": trivial}
        self.timeout_s = 300

    def run(self, inp):
        d, N = 2, self.N
        pt_a, M_a, c_a = build_pt(inp, "a", d, N, 2, 4, False, dt=0.25)
        pt_b, M_b, c_b = build_pt(inp, "b", d, N + self.extra, 2, 3, False, dt=0.25)
        L = N + self.extra
        P1 = [lib.gen_prop(inp, "p%d" % k, d) for k in range(L)]
        P2 = [lib.gen_prop(inp, "q%d" % k, d) for k in range(L)]
        rho0 = inp.arr("r", (d, d))
        pts = [pt_b, pt_a]
        envs = [(M_b, c_b), (M_a, c_a)]
        if self.trivial:
            pts = [pt_b, ptm.TrivialProcessTensor(hilbert_space_dimension=d), pt_a]
        system = lib.FakeSystem(d, P1, P2)
        dyn = sd.compute_dynamics(system, initial_state=rho0, process_tensor=pts, start_time=0.5, progress_type="silent")
        st = lib.dynamics_states(dyn)
        obs = [Ob.holds("shortest process tensor bounds the number of steps", len(st) == N + 1),
               Ob.holds("dt from the process tensors reaches the system", system.calls == [(0.25, 0.5)]),
               Ob.holds("time labels", list(dyn._times) == [0.5 + 0.25 * k for k in range(N + 1)])]
        for n in range(min(len(st), N + 1)):
            obs.append(Ob.eq("state at step %d" % n, st[n], lib.oracle_pt_dynamics(rho0, envs, P1, P2, n).reshape(d, d)))
        return obs


class H4(Case):
    """vec(A rho B) = (A (x) B^T) vec(rho) conventions"""
    functions = ("operators.commutator", "operators.acommutator", "operators.left_super", "operators.right_super",
                 "operators.left_right_super")
    env = {}

    def __init__(self, d):
        self.d = d
        self.id = "H4/superops_d%d" % d
        self.bounds = {"d": d}

    def run(self, inp):
        d = self.d
        A = inp.arr("A", (d, d), cplx=True)
        B = inp.arr("B", (d, d), cplx=True)
        rho = inp.arr("r", (d, d), cplx=True)
        v = rho.reshape(d * d)
        obs = [
            Ob.eq("left_super", ops.left_super(A).dot(v), (A @ rho).reshape(-1)),
            Ob.eq("right_super", ops.right_super(A).dot(v), (rho @ A).reshape(-1)),
            Ob.eq("left_right_super", ops.left_right_super(A, B).dot(v), (A @ rho @ B).reshape(-1)),
            Ob.eq("commutator", ops.commutator(A).dot(v), (A @ rho - rho @ A).reshape(-1)),
            Ob.eq("acommutator", ops.acommutator(A).dot(v), (A @ rho + rho @ A).reshape(-1)),
        ]
        return obs


class H9(Case):
    """the process tensor keeps its OWN copy of every tensor it is given: the caller re-using / overwriting the arrays it
    passed to set_mpo_tensor / set_cap_tensor afterwards does not change what is contracted"""
    functions = ("SimpleProcessTensor.set_mpo_tensor", "SimpleProcessTensor.set_cap_tensor", "SimpleProcessTensor.get_mpo_tensor",
                 "system_dynamics.compute_dynamics")
    env = {"noconj": True}

    def __init__(self, bond=1):
        self.bond = bond
        self.id = "H9/caller_buffers_reused_b%d" % bond
        self.bounds = {"d": 2, "N": 2, "bond": bond, "rank": 4, "dtype": "complex (so that no dtype conversion forces a copy)"}
        self.timeout_s = 300

    def run(self, inp):
        d, N, b = 2, 2, self.bond
        D = d * d
        pt = ptm.SimpleProcessTensor(hilbert_space_dimension=d, dt=0.1)
        Ms = [inp.arr("M0", (1, b, D, D), cplx=True), inp.arr("M1", (b, 1, D, D), cplx=True)]
        caps = [inp.arr("c0", (1,), cplx=True), inp.arr("c1", (b,), cplx=True), inp.arr("c2", (1,), cplx=True)]
        keepM, keepc = [m.copy() for m in Ms], [c.copy() for c in caps]
        for k in range(N):
            pt.set_mpo_tensor(k, Ms[k])
        for k in range(N + 1):
            pt.set_cap_tensor(k, caps[k])
        # the caller now re-uses its buffers for something else
        junk = inp.cplx("junk")
        for a in Ms + caps:
            a[...] = a * junk + junk
        P1 = [lib.gen_prop(inp, "p%d" % k, d) for k in range(N)]
        P2 = [lib.gen_prop(inp, "q%d" % k, d) for k in range(N)]
        rho0 = inp.arr("r", (d, d))
        st = lib.dynamics_states(sd.compute_dynamics(lib.FakeSystem(d, P1, P2), initial_state=rho0, process_tensor=pt,
                                                     progress_type="silent"))
        return [Ob.eq("step %d == evolution with the tensors as handed over" % n, st[n],
                      lib.oracle_pt_dynamics(rho0, [(keepM, keepc)], P1, P2, n).reshape(d, d)) for n in range(N + 1)]


def cases(tier):
    cs = []
    # quick
    cs += [H1(0, 2, 1, 4, False, "prepost"), H1(1, 2, 2, 4, False, "none"), H1(1, 2, 2, 3, False, "prepost"),
           H1(1, 2, 2, 4, True, "ends"), H1(2, 2, 2, 4, False, "none"), H1(2, 2, 1, 3, True, "stack"),
           H1(3, 2, 1, 4, False, "none"), H1(1, 3, 2, 4, False, "none", num_steps=2),
           H1(2, 2, 2, 4, False, "stack"), H1(1, 3, 2, 3, True, "ends", num_steps=1),
           H1(1, 2, 2, 4, "out", "none"), H1(1, 2, 2, 3, "in", "none"), H1(2, 2, 1, 4, "out", "prepost"),
           H1(1, 2, 2, 4, False, "none", layout="F"), H1(0, 2, 1, 4, False, "prepost", layout="F"), H1(1, 2, 1, 3, True, "ends", layout="S")]
    cs += [H2(2, 2, 2), H4(2), H4(3), H5(3), H5(4), H6(4, False), H6(4, "in"), H6(4, "out"), H6(4, True), H6(3, False, N=3), H7(3), H7(4), H8(2, 1), H8(2, 2, trivial=True), H9(1), H9(2)]
    cs += [H3(2, None), H3(3, 1)]
    if tier == "thorough":
        # (two rank-4 environments with bond 2 at N=3 do not finish within the per-case wall-clock limit:
        #  they are run with bond 1 / rank 3 instead; stated bound)
        cs += [H1(1, 3, 2, 4, True, "stack"), H1(2, 3, 1, 4, False, "prepost"), H1(3, 2, 2, 4, False, "ends"),
               H1(2, 3, 2, 3, True, "ends"), H1(3, 3, 1, 3, False, "stack"), H1(1, 4, 2, 4, False, "prepost"),
               H1(1, 2, 1, 4, False, "prepost", d=3), H1(2, 3, 1, 4, True, "none", num_steps=2),
               H1(1, 2, 1, 4, False, "none", d=3, layout="F"), H1(2, 2, 1, 4, False, "stack", layout="S")]
        cs += [H2(3, 2, 1), H2(2, 3, 2), H3(3, None), H3(4, 2), H3(3, 2), H3(4, 1), H1(3, 3, 1, 4, False, "prepost"),
               H1(2, 2, 2, 4, "in", "ends"), H1(1, 4, 2, 3, True, "stack"), H1(2, 2, 1, 4, False, "stack", d=3),
               H6(4, True, N=3), H6(4, "out", N=3, d=3), H5(4, d=3), H7(4)]
    return cs
