"""C10 -- PT-TEBD chain dynamics are exact where checkable, in every execution mode (partial).

H1  back-end wiring.  The real PtTebdBackend / PtTebd run on symbolic tensors:
    H1/op_*   one operation (apply_nn_gate, apply_site_gate, apply_process_tensors,
              compute_traces + get_density_matrix + get_norm) on a GENERIC symbolic
              augmented MPS (bond <= 2, augmented legs 1..2, concrete non-trivial
              lambdas) == the documented action on the joint chain state.
    H1/prod_* real PtTebd.compute with product gates (chi = 1) and a product initial
              state == the real single-site compute_dynamics with the same process
              tensors (times the traces of the other sites).
    H1/step_* real PtTebd.compute with generic two-site gates == direct application of
              the gates / process tensors to the joint state; reduced states of site
              subsets consistent under partial trace; norm == total trace.
    H1/nn_gate_real the REAL compute_nn_gate (expm -> symbolic U) returns tensors whose
              contraction is U with the documented leg order, dims (2,2), (2,3), (3,2).
    H1/generator the two-site Liouvillians handed to compute_nn_gate by the real
              SystemChain / compute_tebd_propagator sum to the chain generator.
    H1/norm_one trace-preserving gates (by construction), unit-trace product state:
              norm == 1, every reduced state has unit trace.
H2  completion order within a layer: executors replaced by the Executor.map contract
    (run order = symbolic permutation, results yielded in submission order); parallel
    branch == sequential branch for every permutation.
H3  the parallel branch is reachable: a FRESH interpreter that imports only oqupy runs
    PtTebd with backend_config['parallel'] (concrete observation, reported through the
    known-findings protocol); after `import concurrent.futures` the real executors ==
    sequential on a concrete 4-site chain (same subprocess).
"""
import itertools
import json
import os
import subprocess
import sys

import numpy as np

import oqupy
import oqupy.system_dynamics as sd
from oqupy.backends.pt_tebd_backend import PtTebdBackend
from oqupy.mps_mpo import NnGate, SiteGate, GateLayer, AugmentedMPS
from oqupy.process_tensor import TrivialProcessTensor

from vf.core import Case, Ob
from vf import core, env, lib, tebd

ASSUMPTIONS = [
    "exact real/complex arithmetic (floating-point rounding of tensor arithmetic outside the claim)",
    "conjugation-free contraction code is a polynomial map: identity over real symbols implies identity over complex values",
    "LAPACK SVD contract: u.diag(s).vh = M with no singular value discarded (epsrel -> 0); truncation error outside the claim",
    "gates are handed in symbolically: exactness of expm / of the Trotter splitting is outside the claim",
]

EPS = 1e-13
SYM_EXTRA = {"oqupy.backends.pt_tebd_backend.complex": tebd.sym_complex,
             "oqupy.backends.pt_tebd_backend.np": tebd.np_proxy()}
STUB_SVD = "tensornetwork numpy backend svd -> exact non-truncating factorisation (lambdas become identities)"
STUB_GATE = "mps_mpo.compute_nn_gate (scipy expm + SVD) -> hands back the harness's symbolic gate tensors"


def _lams(inp, n, bond):
    """concrete, positive, non-trivial lambda diagonals"""
    base = [[2.0, 0.5], [3.0, 0.25], [0.5, 4.0]]
    return [inp.const(np.array(base[i % 3][:bond])) for i in range(n - 1)]


def _mps(inp, n, bond, adims, d=2):
    D = d * d
    gs = []
    for i in range(n):
        bl = 1 if i == 0 else bond
        br = 1 if i == n - 1 else bond
        gs.append(inp.arr("g%d" % i, (bl, D, adims[i], br)))
    return gs


class OpNn(Case):
    """apply_nn_gate on a generic augmented MPS == gate applied to the joint state"""
    functions = ("PtTebdBackend.__init__", "PtTebdBackend.apply_nn_gate", "_apply_nn_gate_get_data", "_apply_nn_gate",
                 "_apply_nn_gate_replace_gam_lam_gam", "_invert_lambda", "get_gamma", "get_lambda")
    stubs = (STUB_SVD,)
    env = {"noconj": True, "extra": SYM_EXTRA}
    timeout_s = 300
    first_timeout_s = 60

    def __init__(self, n, k, bond, adims, chi, twice=False):
        self.n, self.k, self.bond, self.adims, self.chi, self.twice = n, k, bond, adims, chi, twice
        self.id = "H1/op_nn/n%d_k%d_b%d_a%s_chi%d%s" % (n, k, bond, "".join(map(str, adims)), chi, "_x2" if twice else "")
        self.bounds = {"d": 2, "sites": n, "gate_site": k, "bond": bond, "aug_dims": list(adims), "gate_bond": chi,
                       "applications": 2 if twice else 1}

    def run(self, inp):
        n, k = self.n, self.k
        gs = _mps(inp, n, self.bond, self.adims)
        b = PtTebdBackend(gs, _lams(inp, n, self.bond), EPS, {})
        T0 = tebd.joint_state(b)
        gl, gr = tebd.make_gate(inp, "G", 2, 2, self.chi)
        b.apply_nn_gate(NnGate(k, (gl, gr)))
        exp = tebd.o_nn(T0, k, gl, gr)
        obs = [Ob.eq("joint state after gate", tebd.joint_state(b), exp)]
        if self.twice:
            # second gate on the neighbouring bond (or the same one): exercises the new
            # lambdas / re-wired edges produced by the first application
            k2 = k + 1 if k + 2 < n else k
            hl, hr = tebd.make_gate(inp, "H", 2, 2, 1)
            b.apply_nn_gate(NnGate(k2, (hl, hr)))
            obs.append(Ob.eq("joint state after second gate", tebd.joint_state(b), tebd.o_nn(exp, k2, hl, hr)))
        return obs


class OpSitePt(Case):
    """apply_site_gate, apply_process_tensors on a generic augmented MPS"""
    functions = ("PtTebdBackend.apply_site_gate", "apply_site_gate_layer", "apply_process_tensors")
    stubs = (STUB_SVD,)
    env = {"noconj": True, "extra": SYM_EXTRA}
    timeout_s = 300
    first_timeout_s = 60

    def __init__(self, n, bond, adims, rank, transforms=False):
        self.n, self.bond, self.adims, self.rank, self.transforms = n, bond, adims, rank, transforms
        self.id = "H1/op_site_pt/n%d_b%d_a%s_r%d%s" % (n, bond, "".join(map(str, adims)), rank, "_tr" if transforms else "")
        self.bounds = {"d": 2, "sites": n, "bond": bond, "aug_dims": list(adims), "pt_rank": rank,
                       "pt_transforms": "symbolic generalised permutations" if transforms else "none"}

    def run(self, inp):
        n = self.n
        gs = _mps(inp, n, self.bond, self.adims)
        b = PtTebdBackend(gs, _lams(inp, n, self.bond), EPS, {})
        T = tebd.joint_state(b)
        obs = []
        # site gates on a subset of sites, as a layer
        Ms = {s: inp.arr("M%d" % s, (4, 4)) for s in range(0, n, 2)}
        b.apply_site_gate_layer(GateLayer(parallel=True, gates=[SiteGate(s, M) for s, M in Ms.items()]))
        for s, M in Ms.items():
            T = tebd.o_site(T, s, M)
        obs.append(Ob.eq("joint state after site gates", tebd.joint_state(b), T))
        # process tensors: step index `step` uses MPO tensor step-1; site 1 has none
        pts, effs = [], []
        step = 2
        for s in range(n):
            if s == 1:
                pts.append(TrivialProcessTensor())
                effs.append(None)
                continue
            pt, eff, _ = _pt_with_in_bond(inp, "e%d" % s, step, self.adims[s], 2, self.rank, self.transforms)
            pts.append(pt)
            effs.append(eff)
        b.apply_process_tensors(step, pts)
        for s in range(n):
            if effs[s] is not None:
                T = tebd.o_pt(T, s, effs[s])
        obs.append(Ob.eq("joint state after process tensors", tebd.joint_state(b), T))
        # a further site gate after the process tensors (edge bookkeeping re-used)
        M2 = inp.arr("N", (4, 4))
        b.apply_site_gate(SiteGate(n - 1, M2))
        obs.append(Ob.eq("joint state after late site gate", tebd.joint_state(b), tebd.o_site(T, n - 1, M2)))
        return obs


def _pt_with_in_bond(inp, name, step, bl, br, rank, transforms=False):
    """process tensor whose MPO tensor number step-1 has past bond `bl`, future bond `br`
    (optionally with symbolic transform_in / transform_out)"""
    import oqupy.process_tensor as ptm
    D = 4
    tin = tout = None
    if transforms:
        tin, tout = tebd.make_transforms(inp, name, D)
    pt = ptm.SimpleProcessTensor(hilbert_space_dimension=2, dt=0.1, transform_in=tin, transform_out=tout)
    for k in range(step - 1):
        pt.set_mpo_tensor(k, np.zeros((1, 1, D)))      # never read by the step under test
    if rank == 3:
        M = inp.arr(name + "M", (bl, br, D))
        full = inp.const(np.zeros((bl, br, D, D)))
        for a in range(bl):
            for c in range(br):
                for i in range(D):
                    full[a, c, i, i] = M[a, c, i]
    else:
        M = inp.arr(name + "M", (bl, br, D, D))
        full = M
    pt.set_mpo_tensor(step - 1, M)
    if transforms:
        full = tebd.apply_transforms(full, tin, tout)
    return pt, full, None


class OpTraces(Case):
    """compute_traces / get_density_matrix / get_norm on a generic augmented MPS"""
    functions = ("PtTebdBackend.compute_traces", "_compute_bath_trace_gammas", "_compute_full_trace_gammas",
                 "_compute_total_traces", "get_norm", "get_site_density_matrix", "get_density_matrix", "get_bond_dimensions")
    stubs = (STUB_SVD,)
    env = {"noconj": True, "extra": SYM_EXTRA}
    timeout_s = 300
    first_timeout_s = 60

    def __init__(self, n, bond, adims):
        self.n, self.bond, self.adims = n, bond, adims
        self.id = "H1/op_traces/n%d_b%d_a%s" % (n, bond, "".join(map(str, adims)))
        self.bounds = {"d": 2, "sites": n, "bond": bond, "aug_dims": list(adims)}

    def run(self, inp):
        import oqupy.process_tensor as ptm
        n = self.n
        gs = _mps(inp, n, self.bond, self.adims)
        b = PtTebdBackend(gs, _lams(inp, n, self.bond), EPS, {})
        step = 1
        pts, caps = [], []
        for s in range(n):
            if self.adims[s] == 1 and s % 2 == 1:
                pts.append(TrivialProcessTensor())
                caps.append(inp.const(np.ones(1)))
                continue
            pt = ptm.SimpleProcessTensor(hilbert_space_dimension=2, dt=0.1)
            pt.set_cap_tensor(0, np.zeros(1))
            c = inp.arr("c%d" % s, (self.adims[s],))
            pt.set_cap_tensor(step, c)
            pts.append(pt)
            caps.append(c)
        P = tebd.o_caps(tebd.joint_state(b), caps)
        dims = [2] * n
        b.compute_traces(step, pts)
        obs = [Ob.eq("norm == total trace", b.get_norm(), tebd.o_trace(P, dims))]
        obs.append(Ob.holds("bond dimensions", list(b.get_bond_dimensions()) == [self.bond] * (n - 1)))
        subsets = [[s] for s in range(n)] + [list(c) for m in range(2, n + 1) for c in itertools.combinations(range(n), m)]
        got = {}
        for ss in subsets:
            got[tuple(ss)] = b.get_density_matrix(ss)
            obs.append(Ob.eq("reduced state %s" % ss, got[tuple(ss)], tebd.o_reduced(P, ss, dims)))
        # mutual consistency, stated on the outputs alone
        for ss in subsets:
            obs.append(Ob.eq("trace of reduced state %s == norm" % ss, np.trace(got[tuple(ss)]), b.get_norm()))
            if len(ss) >= 2:
                for drop in range(len(ss)):
                    rest = [x for q, x in enumerate(ss) if q != drop]
                    obs.append(Ob.eq("partial trace of %s over site %d" % (ss, ss[drop]),
                                     _ptrace(got[tuple(ss)], len(ss), drop), got[tuple(rest)]))
        return obs


def _ptrace(rho, m, drop, d=2):
    """partial trace of an m-site density matrix (rows (i_0..i_{m-1}), cols (j_0..)) over position drop"""
    t = rho.reshape([d] * (2 * m))
    t = sum(t.take(i, axis=drop).take(i, axis=m + drop - 1) for i in range(d))
    return t.reshape(d ** (m - 1), d ** (m - 1))


def _layer_bonds(n, order):
    """documented layer sequence of one (half-step) chain propagator: bonds with even left
    site, then odd (order 1); even, odd, odd, even with half the time step (order 2)"""
    even = list(range(0, n - 1, 2))
    odd = list(range(1, n - 1, 2))
    return [even, odd] if order == 1 else [even, odd, odd, even]


def _run_pt_tebd(inp, n, order, N, rhos, gates, pts, dynamics_sites, config=None, dt=0.1):
    """real PtTebd.initialize / compute with compute_nn_gate stubbed"""
    chain = oqupy.SystemChain([2] * n)
    mps = AugmentedMPS([r for r in rhos])
    params = oqupy.PtTebdParameters(dt=dt, epsrel=EPS, order=order)
    stub = tebd.gate_stub(gates)
    with env.patched({"oqupy.mps_mpo.compute_nn_gate": stub}):
        t = oqupy.PtTebd(mps, chain, pts, params, dynamics_sites=dynamics_sites, backend_config=config or {})
        res = t.compute(N, progress_type="silent")
    want_dt = dt / 2.0 if order == 1 else dt / 4.0
    ok_calls = [c[0] for c in stub.calls] == list(range(n - 1)) and all(
        c[1] == 2 and c[2] == 2 and abs(c[3] - want_dt) < 1e-15 for c in stub.calls)
    return t, res, ok_calls


class ProdStep(Case):
    """product gates: chain == independent single-site compute_dynamics"""
    functions = ("PtTebd.__init__", "PtTebd.initialize", "PtTebd.compute", "PtTebd.compute_step", "_append_results",
                 "_apply_controls", "mps_mpo.compute_tebd_propagator", "compute_trotter_layers", "AugmentedMPS.__init__",
                 "SystemChain.get_nn_full_liouvillians", "PtTebdBackend.apply_nn_gate_layer", "apply_process_tensors",
                 "compute_traces", "get_density_matrix", "get_norm", "system_dynamics.compute_dynamics")
    stubs = (STUB_SVD, STUB_GATE, "System.get_propagators -> products of the per-site gate factors")
    env = {"noconj": True, "extra": SYM_EXTRA}
    timeout_s = 600
    first_timeout_s = 60

    def __init__(self, n, order, N, kind, ptbond, nopt=(), transforms=False):
        self.n, self.order, self.N, self.kind, self.ptbond, self.nopt = n, order, N, kind, ptbond, tuple(nopt)
        self.transforms = transforms
        self.id = "H1/prod/n%d_o%d_N%d_%s_ptb%d%s%s" % (n, order, N, kind, ptbond, "_nopt" + "".join(map(str, nopt)) if nopt else "",
                                                        "_tr" if transforms else "")
        self.bounds = {"d": 2, "sites": n, "order": order, "steps": N, "gate_bond": 1, "gate_entries": kind,
                       "pt_bond": ptbond, "sites_without_pt": list(nopt),
                       "pt_transforms": "symbolic generalised permutations" if transforms else "none"}

    def run(self, inp):
        n, N = self.n, self.N
        rhos = [inp.arr("r%d" % s, (2, 2)) for s in range(n)]
        gates = [tebd.make_gate(inp, "G%d" % k, 2, 2, 1, self.kind) for k in range(n - 1)]
        pts, ptobjs = [], []
        for s in range(n):
            if s in self.nopt:
                pts.append(None)
                ptobjs.append(None)
            else:
                pt, _, _ = tebd.make_pt(inp, "e%d" % s, 2, N, self.ptbond, kind=self.kind, transforms=self.transforms)
                pts.append(pt)
                ptobjs.append(pt)
        t, res, ok_calls = _run_pt_tebd(inp, n, self.order, N, rhos, gates, pts, list(range(n)))
        obs = [Ob.holds("compute_nn_gate requested once per bond with the documented time step", ok_calls)]
        # independent single-site evolutions through the real compute_dynamics
        single = []
        for s in range(n):
            P = None
            for bonds in _layer_bonds(n, self.order):
                for k in bonds:
                    if k == s:
                        m = gates[k][0][:, :, 0]
                    elif k + 1 == s:
                        m = gates[k][1][0, :, :]
                    else:
                        continue
                    P = m if P is None else m @ P
            system = lib.FakeSystem(2, [P] * N, [P] * N)
            kw = {} if ptobjs[s] is not None else {"dt": 0.1, "num_steps": N}
            dyn = sd.compute_dynamics(system, initial_state=rhos[s], process_tensor=ptobjs[s], progress_type="silent", **kw)
            single.append(lib.dynamics_states(dyn))
        for step in range(N + 1):
            trs = [np.trace(single[s][step]) for s in range(n)]
            tot = inp.one()
            for x in trs:
                tot = tot * x
            obs.append(Ob.eq("norm at step %d" % step, res["norm"][step], tot))
            for s in range(n):
                f = inp.one()
                for j in range(n):
                    if j != s:
                        f = f * trs[j]
                obs.append(Ob.eq("site %d at step %d" % (s, step), res["dynamics"][s].states[step], tebd.scale(single[s][step], f)))
        return obs


class Step(Case):
    """generic gates: real PtTebd.compute == gates / process tensors applied to the joint state"""
    functions = ProdStep.functions[:-1] + ("PtTebd.get_augmented_mps",)
    stubs = (STUB_SVD, STUB_GATE)
    env = {"noconj": True, "extra": SYM_EXTRA}
    timeout_s = 900
    first_timeout_s = 60

    def __init__(self, n, order, N, chi, kind, ptbond, nopt=(), ptrank=4, transforms=False):
        self.n, self.order, self.N, self.chi, self.kind, self.ptbond, self.nopt, self.ptrank = n, order, N, chi, kind, ptbond, tuple(nopt), ptrank
        self.transforms = transforms
        self.id = "H1/step/n%d_o%d_N%d_chi%d_%s_ptb%d_r%d%s%s" % (n, order, N, chi, kind, ptbond, ptrank,
                                                                "_nopt" + "".join(map(str, nopt)) if nopt else "",
                                                                "_tr" if transforms else "")
        self.bounds = {"d": 2, "sites": n, "order": order, "steps": N, "gate_bond": chi, "gate_entries": kind,
                       "pt_bond": ptbond, "pt_rank": ptrank, "sites_without_pt": list(nopt),
                       "pt_transforms": "symbolic generalised permutations" if transforms else "none"}

    def run(self, inp):
        n, N = self.n, self.N
        rhos = [inp.arr("r%d" % s, (2, 2)) for s in range(n)]
        gates = [tebd.make_gate(inp, "G%d" % k, 2, 2, self.chi, self.kind) for k in range(n - 1)]
        pts, effs, caps = [], [], []
        for s in range(n):
            if s in self.nopt:
                pts.append(None)
                effs.append(None)
                caps.append([inp.const(np.ones(1))] * (N + 1))
            else:
                pt, eff, cp = tebd.make_pt(inp, "e%d" % s, 2, N, self.ptbond, rank=self.ptrank, kind=self.kind,
                                           transforms=self.transforms)
                pts.append(pt)
                effs.append(eff)
                caps.append(cp)
        subsets = list(range(n)) + [c for m in range(2, n + 1) for c in itertools.combinations(range(n), m)]
        t, res, ok_calls = _run_pt_tebd(inp, n, self.order, N, rhos, gates, pts, subsets)
        obs = [Ob.holds("compute_nn_gate requested once per bond with the documented time step", ok_calls)]
        # oracle: joint state (L, p0, a0, p1, a1, ..., R) of the product initial state
        T = inp.const(np.ones((1,)))
        for s in range(n):
            T = np.tensordot(T, rhos[s].reshape(4, 1), axes=0)
        T = T.reshape((1,) + T.shape[1:] + (1,))
        dims = [2] * n

        def half(T):
            for bonds in _layer_bonds(n, self.order):
                for k in bonds:
                    T = tebd.o_nn(T, k, gates[k][0], gates[k][1])
            return T
        for step in range(N + 1):
            if step > 0:
                T = half(T)
                for s in range(n):
                    if effs[s] is not None:
                        T = tebd.o_pt(T, s, effs[s][step - 1])
                T = half(T)
            P = tebd.o_caps(T, [caps[s][step] for s in range(n)])
            obs.append(Ob.eq("norm at step %d" % step, res["norm"][step], tebd.o_trace(P, dims)))
            for ss in subsets:
                sl = [ss] if isinstance(ss, int) else list(ss)
                got = res["dynamics"][ss].states[step]
                obs.append(Ob.eq("sites %s at step %d" % (sl, step), got, tebd.o_reduced(P, sl, dims)))
                if step == N:
                    obs.append(Ob.eq("trace of sites %s == norm (last step)" % sl, np.trace(got), res["norm"][step]))
                    if len(sl) >= 2:
                        for drop in range(len(sl)):
                            rest = tuple(x for q, x in enumerate(sl) if q != drop)
                            rest = rest[0] if len(rest) == 1 else rest
                            obs.append(Ob.eq("partial trace of %s over site %d (last step)" % (sl, sl[drop]),
                                             _ptrace(got, len(sl), drop), res["dynamics"][rest].states[step]))
        obs.append(Ob.holds("times", [abs(x - 0.1 * i) < 1e-12 for i, x in enumerate(res["time"])] == [True] * (N + 1)))
        # the chain handed back by get_augmented_mps is the final joint state
        amps = t.get_augmented_mps()
        Tj = tebd.joint_from_tensors(amps.gammas, [np.diag(l) if inp.mode == "real" else lib._odiag(l) for l in amps.lambdas])
        obs.append(Ob.eq("get_augmented_mps == final joint state", Tj, T))
        return obs


class NormOne(Case):
    """trace-preserving gates (by construction), unit-trace product initial state, no
    process tensors: norm == 1 and every reduced state has unit trace at every step"""
    functions = ProdStep.functions[:-1]
    stubs = (STUB_SVD, STUB_GATE)
    env = {"noconj": True, "extra": SYM_EXTRA}
    timeout_s = 600
    first_timeout_s = 60

    def __init__(self, n, order, N, kind):
        self.n, self.order, self.N, self.kind = n, order, N, kind
        self.id = "H1/norm_one/n%d_o%d_N%d_%s" % (n, order, N, kind)
        self.bounds = {"d": 2, "sites": n, "order": order, "steps": N, "gate_bond": 2,
                       "gate_entries": kind + ", trace preserving by construction", "process_tensors": "none"}

    def run(self, inp):
        n, N = self.n, self.N
        rhos = []
        for s in range(n):
            r = inp.arr("r%d" % s, (2, 2))
            r[1, 1] = inp.one() - r[0, 0]
            rhos.append(r)
        gates = [tebd.make_tp_gate(inp, "G%d" % k, 2, self.kind) for k in range(n - 1)]
        sites = list(range(n)) + [tuple(range(n))]
        _, res, _ = _run_pt_tebd(inp, n, self.order, N, rhos, gates, [None] * n, sites)
        obs = []
        for step in range(N + 1):
            obs.append(Ob.eq("norm at step %d == 1" % step, res["norm"][step], inp.one()))
            for ss in sites:
                obs.append(Ob.eq("trace of sites %s at step %d == 1" % (ss, step), np.trace(res["dynamics"][ss].states[step]), inp.one()))
        return obs


class Generator(Case):
    """the two-site generators handed to compute_nn_gate by the real
    SystemChain.get_nn_full_liouvillians / compute_tebd_propagator add up to the chain
    generator: every site Liouvillian enters with total weight 1 (how a bulk site is split
    between its two bonds is free), every coupling once.  Only compute_nn_gate (expm + SVD)
    is replaced, by a recorder of the Liouvillian it is given."""
    functions = ("SystemChain.__init__", "add_site_liouvillian", "add_nn_liouvillian", "get_nn_full_liouvillians",
                 "mps_mpo.compute_tebd_propagator", "compute_trotter_layers")
    stubs = ("mps_mpo.compute_nn_gate (scipy expm + SVD) -> records (liouvillian, site, dims, dt), returns a dummy gate",)
    env = {"noconj": True}

    def __init__(self, n, order):
        self.n, self.order = n, order
        self.id = "H1/generator/n%d_o%d" % (n, order)
        self.bounds = {"d": 2, "sites": n, "order": order}

    def run(self, inp):
        from oqupy.mps_mpo import compute_tebd_propagator
        n = self.n
        chain = oqupy.SystemChain([2] * n)
        Ls = [inp.arr("L%d" % s, (4, 4)) for s in range(n)]
        Ns = [inp.arr("N%d" % k, (16, 16)) for k in range(n - 1)]
        for s in range(n):
            chain.add_site_liouvillian(s, Ls[s])
        for k in range(n - 1):
            chain.add_nn_liouvillian(k, Ns[k])
        rec = []

        def compute_nn_gate(liouvillian, site, hs_dim_l, hs_dim_r, dt, epsrel):
            rec.append((np.array(liouvillian), site, hs_dim_l, hs_dim_r, dt))
            return NnGate(site=site, tensors=(np.zeros((4, 4, 1)), np.zeros((1, 4, 4))))
        with env.patched({"oqupy.mps_mpo.compute_nn_gate": compute_nn_gate}):
            prop = compute_tebd_propagator(chain, 0.05, EPS, self.order)
        want_dt = 0.05 if self.order == 1 else 0.025
        obs = [Ob.holds("one request per bond, documented time step",
                        [r[1] for r in rec] == list(range(n - 1)) and all(abs(r[4] - want_dt) < 1e-15 and r[2] == r[3] == 2 for r in rec)),
               Ob.holds("layer sequence", [[g.sites[0] for g in l.gates] for l in prop.gate_layers] == _layer_bonds(n, self.order))]

        def embed(M, first, nsites):
            """M acts on sites first..first+nsites-1 of the chain (Liouville space 4^n)"""
            out = M
            if first > 0:
                out = _kron(inp.const(np.identity(4 ** first)), out)
            rest = n - first - nsites
            if rest > 0:
                out = _kron(out, inp.const(np.identity(4 ** rest)))
            return out
        total = None
        for r in rec:
            e = embed(r[0], r[1], 2)
            total = e if total is None else total + e
        want = None
        for s in range(n):
            e = embed(Ls[s], s, 1)
            want = e if want is None else want + e
        for k in range(n - 1):
            want = want + embed(Ns[k], k, 2)
        obs.append(Ob.eq("sum of the two-site generators == chain generator", total, want))
        return obs


def _kron(a, b):
    """Kronecker product for object / complex arrays (explicit, zero blocks skipped)"""
    ra, ca = a.shape
    rb, cb = b.shape
    if a.dtype != object and b.dtype != object:
        return np.kron(a, b)
    out = np.empty((ra * rb, ca * cb), dtype=object)
    for i in range(ra):
        for j in range(ca):
            out[i * rb:(i + 1) * rb, j * cb:(j + 1) * cb] = tebd.scale(b, a[i, j])
    return out


class NnGateReal(Case):
    """the REAL mps_mpo.compute_nn_gate (reshape / swapaxes / SVD split / sqrt(s) / NnGate)
    with only expm replaced (-> symbolic two-site propagator U) and the SVD by the exact
    factorisation: contracting the returned tensors over the gate bond gives U with the
    documented leg order (left out, right out | left in, right in), for neighbouring sites of
    equal AND different Hilbert-space dimension; the gate applied by the real
    PtTebdBackend.apply_nn_gate to a two-site state == U acting on the state."""
    functions = ("mps_mpo.compute_nn_gate", "_truncation_index", "NnGate.__init__", "Gate.__init__", "PtTebdBackend.apply_nn_gate")
    stubs = ("scipy.linalg.expm -> symbolic propagator U, argument recorded", "scipy.linalg.svd -> exact non-truncating factorisation",
             STUB_SVD)
    env = {"noconj": True, "extra": SYM_EXTRA}
    timeout_s = 300
    first_timeout_s = 60

    def __init__(self, dl, dr, kind):
        self.dl, self.dr, self.kind = dl, dr, kind
        self.id = "H1/nn_gate_real/d%d%d_%s" % (dl, dr, kind)
        self.bounds = {"dims": [dl, dr], "U_entries": kind}

    def run(self, inp):
        import types
        import scipy.linalg
        import oqupy.mps_mpo as mm
        dl, dr = self.dl, self.dr
        Dl, Dr = dl * dl, dr * dr
        n = Dl * Dr
        if self.kind == "dense":
            U = inp.arr("U", (n, n))
        else:
            U = tebd.sparse_matrix(inp, "U", n, shift=Dr + 1, extra=False) + tebd.sparse_matrix(inp, "V", n, shift=3, extra=False)
        L = inp.arr("L", (n,))                   # (diagonal) Liouvillian handed in: only recorded
        Lm = np.diag(L) if inp.mode == "real" else lib._odiag(L)
        seen = []

        def expm(arg):
            seen.append(arg)
            return np.array(U)                   # the code re-shapes its array in place
        fake = types.SimpleNamespace(expm=expm, svd=scipy.linalg.svd if inp.mode == "real" else env.stub_scipy_svd)
        with env.patched({"oqupy.mps_mpo.linalg": fake}):
            gate = mm.compute_nn_gate(Lm, 0, dl, dr, 0.25, EPS)
        tl, tr = gate.tensors
        obs = [Ob.holds("sites", list(gate.sites) == [0, 1]),
               Ob.eq("expm argument == dt * Liouvillian", seen[0], tebd.scale(Lm, 0.25)),
               Ob.holds("tensor shapes (out, in, bond), (bond, out, in)",
                        tl.shape[:2] == (Dl, Dl) and tr.shape[1:] == (Dr, Dr) and tl.shape[2] == tr.shape[0])]
        # documented: U[(lo, ro), (li, ri)] = sum_c tl[lo, li, c] tr[c, ro, ri]
        rec = np.tensordot(tl, tr, axes=([2], [0]))                  # lo li ro ri
        rec = np.transpose(rec, (0, 2, 1, 3)).reshape(n, n)
        obs.append(Ob.eq("gate tensors contracted over the bond == U (left out, right out | left in, right in)", rec, U))
        # through the real back-end on a symbolic two-site product state
        ra, rb = inp.arr("ra", (Dl,)), inp.arr("rb", (Dr,))
        b = PtTebdBackend([ra.reshape(1, Dl, 1, 1), rb.reshape(1, Dr, 1, 1)], [inp.const(np.ones(1))], EPS, {})
        b.apply_nn_gate(gate)
        got = tebd.joint_state(b).reshape(n)
        vec = np.tensordot(ra, rb, axes=0).reshape(n)
        obs.append(Ob.eq("apply_nn_gate(compute_nn_gate(...)) == U . (rho_l (x) rho_r)", got, U.dot(vec)))
        return obs


class Order(Case):
    """H2: apply_nn_gate_layer, parallel branch under the Executor.map contract with a
    solver-chosen run order == sequential branch"""
    functions = ("PtTebdBackend.apply_nn_gate_layer", "_apply_nn_gate_get_data", "apply_nn_gate", "_apply_nn_gate",
                 "_apply_nn_gate_replace_gam_lam_gam")
    stubs = (STUB_SVD, "concurrent.futures.ThreadPoolExecutor / ProcessPoolExecutor -> documented Executor.map contract: tasks run in "
             "a solver-chosen order on the calling thread, results are yielded in submission order (real threads/processes and "
             "pickling outside the claim)")
    env = {"noconj": True, "extra": SYM_EXTRA}
    timeout_s = 300
    first_timeout_s = 60

    def __init__(self, n, mode, bond, chi):
        self.n, self.mode, self.bond, self.chi = n, mode, bond, chi
        self.id = "H2/layer/n%d_%s_b%d_chi%d" % (n, mode, bond, chi)
        self.bounds = {"d": 2, "sites": n, "gates_in_layer": n // 2, "mode": mode, "bond": bond, "gate_bond": chi,
                       "run_orders": "all %d permutations (symbolic)" % len(list(itertools.permutations(range(n // 2))))}

    def run(self, inp):
        n = self.n
        adims = [1 + (s % 2) for s in range(n)]
        gs = _mps(inp, n, self.bond, adims)
        lams = _lams(inp, n, self.bond)
        gates = [NnGate(k, tebd.make_gate(inp, "G%d" % k, 2, 2, self.chi)) for k in range(0, n - 1, 2)]
        layer = GateLayer(parallel=True, gates=gates)
        seq = PtTebdBackend([np.array(g) for g in gs], lams, EPS, {})
        seq.apply_nn_gate_layer(layer)
        par = PtTebdBackend([np.array(g) for g in gs], lams, EPS, {"parallel": self.mode})
        k = len(gates)
        perm = tebd.choose_permutation(inp, k, "order")
        fake = tebd.fake_concurrent(lambda m: perm)
        with env.patched({"oqupy.backends.pt_tebd_backend.concurrent": fake}):
            par.apply_nn_gate_layer(layer)
        obs = [Ob.holds("the tasks ran in the chosen order", fake.log == [perm])]
        for s in range(n):
            obs.append(Ob.eq("gamma %d" % s, par.get_gamma(s), seq.get_gamma(s)))
        for s in range(n - 1):
            obs.append(Ob.eq("lambda %d" % s, par.get_lambda(s), seq.get_lambda(s)))
        if n <= 4:
            obs.append(Ob.eq("joint state", tebd.joint_state(par), tebd.joint_state(seq)))
        if n <= 4 and self.bond == 1:        # (bond 2: same statement as H1/op_nn, too heavy here)
            T0 = tebd.joint_from_tensors(gs, [np.diag(l) if inp.mode == "real" else lib._odiag(l) for l in lams])
            for g in gates:
                T0 = tebd.o_nn(T0, g.sites[0], g.tensors[0], g.tensors[1])
            obs.append(Ob.eq("joint state == gates applied to the joint state", tebd.joint_state(par), T0))
        return obs


class OrderRun(Case):
    """H2: whole PtTebd.compute in a parallel mode (every layer through the executor stub,
    one solver-chosen run order per layer) == sequential mode"""
    functions = ProdStep.functions[:-1]
    stubs = Order.stubs + (STUB_GATE,)
    env = {"noconj": True, "extra": SYM_EXTRA}
    timeout_s = 600
    first_timeout_s = 60
    max_paths = 300

    def __init__(self, n, order, mode, kind="sparse"):
        self.n, self.order, self.mode, self.kind = n, order, mode, kind
        self.id = "H2/run/n%d_o%d_%s_%s" % (n, order, mode, kind)
        self.bounds = {"d": 2, "sites": n, "order": order, "steps": 1, "mode": mode, "gate_bond": 2, "gate_entries": kind,
                       "run_orders": "every combination of per-layer permutations (symbolic)"}

    def run(self, inp):
        n = self.n
        rhos = [inp.arr("r%d" % s, (2, 2)) for s in range(n)]
        gates = [tebd.make_gate(inp, "G%d" % k, 2, 2, 2, self.kind) for k in range(n - 1)]
        pts = [None if s % 2 else tebd.make_pt(inp, "e%d" % s, 2, 1, 1, kind=self.kind)[0] for s in range(n)]
        sites = list(range(n)) + [(1, 2) if n > 2 else (0, 1)]
        _, res_s, _ = _run_pt_tebd(inp, n, self.order, 1, rhos, gates, pts, sites)
        count = [0]

        def chooser(m):
            if m <= 1:
                return tuple(range(m))
            count[0] += 1
            return tebd.choose_permutation(inp, m, "order%d" % count[0])
        fake = tebd.fake_concurrent(chooser)
        try:
            with env.patched({"oqupy.backends.pt_tebd_backend.concurrent": fake}):
                _, res_p, _ = _run_pt_tebd(inp, n, self.order, 1, rhos, gates, pts, sites, config={"parallel": self.mode})
        except (ValueError, RuntimeError) as e:
            # an exception of the documented executor contract (e.g. max_workers <= 0 for an
            # empty layer, submit after shutdown): the mode is not usable for this chain
            return [Ob.holds("parallel mode %s usable (no exception from the executor contract)" % self.mode, False,
                             key="executor-exception", info="%s: %s" % (type(e).__name__, e))]
        nlayers = 2 * sum(1 for b in _layer_bonds(n, self.order) if b)
        obs = [Ob.holds("every non-empty layer went through the executor", len(fake.log) == nlayers)]
        for step in range(2):
            obs.append(Ob.eq("norm at step %d" % step, res_p["norm"][step], res_s["norm"][step]))
            for ss in sites:
                obs.append(Ob.eq("sites %s at step %d" % (ss, step), res_p["dynamics"][ss].states[step], res_s["dynamics"][ss].states[step]))
        return obs


_FRESH = r"""
import json, sys
import numpy as np
import oqupy                                   # the ONLY import of the package under test
import oqupy.backends.pt_tebd_backend as be
out = {"futures_attribute": hasattr(be.concurrent, "futures")}
sx, sy, sz = [oqupy.operators.sigma(k) for k in "xyz"]
def build(par):
    sc = oqupy.SystemChain([2, 2, 2, 2])
    for i in range(4):
        sc.add_site_hamiltonian(i, 0.3 * (i + 1) * sx + 0.1 * sz)
    for i in range(3):
        sc.add_nn_hamiltonian(i, 0.7 * sz, sz + 0.2 * sx)
        sc.add_nn_dissipation(i, sx + 1j * sy, sz, 0.1)
    rho = [np.array([[0.7, 0.1j], [-0.1j, 0.3]]), np.array([[0.5, 0.2], [0.2, 0.5]]),
           np.array([[1.0, 0], [0, 0]]), np.array([[0.2, 0], [0, 0.8]])]
    cfg = {} if par is None else {"parallel": par}
    return oqupy.PtTebd(oqupy.AugmentedMPS(rho), sc, [None] * 4, oqupy.PtTebdParameters(dt=0.1, epsrel=1e-10, order=2),
                        dynamics_sites=[0, 1, 2, 3, (1, 2)], backend_config=cfg)
ref = build(None).compute(2, progress_type="silent")
for par in ("multithread", "multiprocess"):
    try:
        r = build(par).compute(2, progress_type="silent")
        d = max(float(np.abs(np.array(ref["dynamics"][k].states) - np.array(r["dynamics"][k].states)).max()) for k in ref["dynamics"])
        d = max(d, float(np.abs(ref["norm"] - r["norm"]).max()))
        out[par] = {"ok": True, "maxdiff": d}
    except Exception as e:
        import traceback
        tb = traceback.extract_tb(e.__traceback__)
        out[par] = {"ok": False, "error": "%s: %s" % (type(e).__name__, e), "where": "%s:%d" % (tb[-1].filename, tb[-1].lineno)}
# a chain of exactly two sites has an empty odd layer
def build2(par):
    sc = oqupy.SystemChain([2, 2])
    sc.add_site_hamiltonian(0, 0.3 * sx)
    sc.add_site_hamiltonian(1, 0.2 * sz + 0.1 * sy)
    sc.add_nn_hamiltonian(0, 0.7 * sz, sz + 0.2 * sx)
    cfg = {} if par is None else {"parallel": par}
    return oqupy.PtTebd(oqupy.AugmentedMPS([np.array([[0.7, 0.1j], [-0.1j, 0.3]]), np.array([[0.5, 0.2], [0.2, 0.5]])]), sc,
                        [None] * 2, oqupy.PtTebdParameters(dt=0.1, epsrel=1e-10, order=2), dynamics_sites=[0, 1, (0, 1)],
                        backend_config=cfg)
import concurrent.futures
ref2 = build2(None).compute(2, progress_type="silent")
for par in ("multithread", "multiprocess"):
    try:
        r = build2(par).compute(2, progress_type="silent")
        d = max(float(np.abs(np.array(ref2["dynamics"][k].states) - np.array(r["dynamics"][k].states)).max()) for k in ref2["dynamics"])
        out[par + "_two_site"] = {"ok": True, "maxdiff": d}
    except Exception as e:
        out[par + "_two_site"] = {"ok": False, "error": "%s: %s" % (type(e).__name__, e)}
# validation step: once the caller has bound concurrent.futures, the REAL executors must
# reproduce the sequential result
import concurrent.futures
for par in ("multithread", "multiprocess"):
    try:
        r = build(par).compute(2, progress_type="silent")
        d = max(float(np.abs(np.array(ref["dynamics"][k].states) - np.array(r["dynamics"][k].states)).max()) for k in ref["dynamics"])
        d = max(d, float(np.abs(ref["norm"] - r["norm"]).max()))
        out[par + "_after_import"] = {"ok": True, "maxdiff": d}
    except Exception as e:
        out[par + "_after_import"] = {"ok": False, "error": "%s: %s" % (type(e).__name__, e)}
print("RESULT " + json.dumps(out))
"""


def fresh_interpreter():
    """run the script above in a fresh interpreter whose only access to the package is
    PYTHONPATH = the tree under analysis"""
    envv = {k: v for k, v in os.environ.items() if k not in ("PYTHONPATH", "PYTHONSTARTUP")}
    envv["PYTHONPATH"] = core.REPO
    envv["OMP_NUM_THREADS"] = "1"
    p = subprocess.run([sys.executable, "-c", _FRESH], env=envv, capture_output=True, text=True, timeout=600, cwd="/")
    for line in p.stdout.splitlines():
        if line.startswith("RESULT "):
            return json.loads(line[7:])
    raise RuntimeError("fresh interpreter failed: rc=%s\n%s" % (p.returncode, p.stderr[-1500:]))


class Fresh(Case):
    """H3: concrete observation in a fresh interpreter (no symbolic input; the 'model' is
    empty and the replay is the subprocess itself)"""
    functions = ("PtTebdBackend.apply_nn_gate_layer (parallel branch, real executors, fresh interpreter)",)
    stubs = ()
    env = {}
    validate = False

    def __init__(self):
        self.id = "H3/fresh-interpreter"
        self.bounds = {"sites": 4, "d": 2, "order": 2, "steps": 2, "modes": ["multithread", "multiprocess"],
                       "kind": "concrete subprocess run, not a solver verdict"}

    def run(self, inp):
        r = fresh_interpreter()
        obs = []
        for mode in ("multithread", "multiprocess"):
            m = r[mode]
            missing = (not m["ok"]) and "has no attribute 'futures'" in m.get("error", "")
            obs.append(Ob.holds("fresh interpreter, %s: parallel branch usable (concurrent.futures bound)" % mode, not missing,
                                key="concurrent.futures/" + mode,
                                info="python -c 'import oqupy; PtTebd(..., backend_config={\"parallel\": %r}).compute(2)' -> %s at %s"
                                     % (mode, m.get("error"), m.get("where"))))
            obs.append(Ob.holds("fresh interpreter, %s: no other exception" % mode, m["ok"] or missing, key=mode + "/exception",
                                info=str(m.get("error"))))
            obs.append(Ob.holds("fresh interpreter, %s: same results as sequential" % mode,
                                (not m["ok"]) or m["maxdiff"] < 1e-9, key=mode + "/differs", info=str(m.get("maxdiff"))))
            t2 = r[mode + "_two_site"]
            obs.append(Ob.holds("real %s executor on a two-site chain (empty odd layer) == sequential" % mode,
                                t2["ok"] and t2["maxdiff"] < 1e-9, key=mode + "/two-site", info=str(t2)))
            a = r[mode + "_after_import"]
            obs.append(Ob.holds("real %s executor after `import concurrent.futures` == sequential" % mode,
                                a["ok"] and a["maxdiff"] < 1e-9, key=mode + "/after-import", info=str(a)))
        return obs


def cases(tier):
    cs = [OpNn(2, 0, 2, (1, 1), 2), OpNn(3, 1, 2, (2, 1, 2), 2), OpNn(3, 0, 2, (1, 2, 1), 1, twice=True),
          OpSitePt(3, 2, (1, 1, 2), 4), OpSitePt(2, 2, (2, 1), 3), OpSitePt(2, 2, (2, 1), 4, transforms=True),
          OpSitePt(3, 2, (1, 1, 2), 3, transforms=True),
          OpTraces(2, 2, (2, 1)), OpTraces(3, 2, (1, 2, 1))]
    cs += [ProdStep(2, 1, 1, "sparse", 1, transforms=True), Step(2, 1, 1, 2, "sparse", 1, transforms=True),
           ProdStep(2, 1, 1, "dense", 1), ProdStep(3, 2, 1, "sparse", 1, nopt=(1,)), ProdStep(3, 1, 2, "perm", 2)]
    cs += [Step(2, 1, 1, 2, "dense", 1), Step(2, 2, 1, 2, "sparse", 1), Step(3, 1, 1, 2, "sparse", 1, nopt=(0,)),
           Step(2, 1, 2, 2, "sparse", 2, ptrank=3), Step(3, 2, 1, 2, "perm", 1)]
    cs += [NormOne(2, 1, 1, "dense"), NormOne(3, 2, 1, "perm")]
    cs += [Generator(2, 1), Generator(3, 2)]
    cs += [NnGateReal(2, 2, "dense"), NnGateReal(2, 3, "dense"), NnGateReal(3, 2, "dense")]
    cs += [Order(4, "multithread", 1, 2), Order(4, "multiprocess", 1, 1), OrderRun(4, 1, "multithread"),
           OrderRun(2, 2, "multithread"), OrderRun(2, 1, "multiprocess")]
    cs += [Fresh()]
    if tier == "thorough":
        cs += [OpNn(4, 1, 2, (1, 2, 2, 1), 2), OpNn(4, 2, 2, (2, 1, 1, 2), 1, twice=True), OpNn(3, 1, 2, (2, 2, 2), 2, twice=True),
               OpSitePt(4, 2, (1, 2, 1, 1), 3), OpTraces(4, 2, (1, 2, 2, 1)),
               NormOne(3, 1, 2, "perm"), NormOne(4, 2, 1, "perm"), Generator(2, 2), Generator(4, 1),
               NnGateReal(2, 3, "perm"), NnGateReal(3, 2, "perm")]
        cs += [ProdStep(2, 1, 2, "sparse", 2), ProdStep(3, 2, 1, "sparse", 1), ProdStep(4, 1, 2, "perm", 2), ProdStep(3, 2, 2, "perm", 2)]
        cs += [Step(3, 2, 1, 2, "perm", 1, transforms=True), ProdStep(3, 1, 2, "perm", 2, transforms=True), OpSitePt(3, 2, (1, 1, 2), 4, transforms=True)]
        cs += [Step(4, 1, 1, 2, "perm", 1), Step(4, 2, 1, 2, "perm", 1), Step(3, 1, 2, 2, "perm", 2, ptrank=3)]
        cs += [Order(4, "multithread", 2, 2), Order(6, "multiprocess", 1, 1), OrderRun(4, 2, "multiprocess", "perm"), OrderRun(5, 1, "multithread", "perm")]
    return cs
