"""C01 -- TEMPO / PT-TEMPO reproduce exactly solvable models (solver-decidable core).

H1  the network both back-ends contract IS the documented discretised influence
    functional, including the memory settings: explicit path sum oracle.
H1p the same through the real Tempo / PtTempo / Bath / TempoParameters API with
    the influence matrices of the real influence_matrix (verified in H2).
H2  influence_matrix builds the documented factor and asks for the documented cell.
H4  commuting models collapse to the closed form's structure (single constant path).
H3 (tiling of the cells) lives in C12/H1.
"""
import itertools

import numpy as np

import oqupy
import oqupy.operators as opr
import oqupy.system_dynamics as sd
import oqupy.tempo as tempo_mod

from vf.core import Case, Ob
from vf import lib, sym
from vf import physical as ph
from vf.sym import S

ASSUMPTIONS = [
    "exact arithmetic; SVD without truncation; quadrature producing eta, expm and the finite-mode-bath comparison are outside the claim",
    "exp is uninterpreted: the product of influence factors equals exp of the summed exponents (exp(a)exp(b)=exp(a+b)) is mathematical glue",
    "d=2 (d=3 where stated); d=4 outside the bound",
]
STUBS = ("tensornetwork numpy backend svd -> exact non-truncating factorisation",
         "System.get_propagators -> symbolic half-step propagators",
         "correlations.correlation_2d_integral -> one complex symbol per requested cell (recorded)")


def path_sum_states(rho0, P1, P2, N, factor):
    """documented discretised influence functional.  factor(kp, k) -> matrix F with
    F[s_kp, s_k] multiplying every path, or None (pair outside the memory)."""
    D = rho0.size
    T = rho0.reshape(D)           # axes: s_0..s_{k-1}, x
    out = [rho0.reshape(D)]
    for k in range(N):
        # first half step: x -> s_k
        T = np.tensordot(T, P1[k], axes=([T.ndim - 1], [1]))           # ..., s_k
        for kp in range(k + 1):
            F = factor(kp, k)
            if F is None:
                continue
            if kp == k:
                f = np.array([F[i, i] for i in range(D)], dtype=T.dtype)
                shape = [1] * T.ndim
                shape[k] = D
                T = T * f.reshape(shape)
            else:
                shape = [1] * T.ndim
                shape[kp] = D
                shape[k] = D
                T = T * np.asarray(F, dtype=T.dtype).reshape(shape)
        # second half step keeps s_k as a path index and adds the new state index y
        T = T.reshape(T.shape + (1,)) * np.asarray(P2[k], dtype=T.dtype).T.reshape((1,) * k + (D, D))
        st = T
        for _ in range(k + 1):
            st = st.sum(axis=0)
        out.append(st)
    return out


def memory_factor(infl, K, tau):
    """documented meaning of the memory settings: pairs further apart than K steps are
    dropped; with add_correlation_time the furthest factor of a row is the rectangle
    reaching back by min(elapsed, dt + tau)."""
    def factor(kp, k):
        dk = k - kp
        if K is None or dk < K:
            return infl(dk)
        if dk > K:
            return None
        # dk == K: the furthest pair of row k
        if not tau:
            return infl(K)
        return infl(-(k + 1 - K))
    return factor


class H1(Case):
    stubs = STUBS[:2]
    env = {"noconj": True}
    functions = ("TempoBackend.*", "BaseTempoBackend.initialize_mps_mpo", "BaseTempoBackend.compute_system_step",
                 "PtTempoBackend.*", "SimpleProcessTensor.compute_caps", "system_dynamics.compute_dynamics", "NodeArray.*")

    def __init__(self, method, N, K, tau, d=2, commuting=False):
        self.method, self.N, self.K, self.tau, self.d, self.commuting = method, N, K, tau, d, commuting
        self.id = "%s/%s_N%d_K%s_%s%s" % ("H4" if commuting else "H1", method, N, K, "tau" if tau else "notau", "" if d == 2 else "_d%d" % d)
        self.bounds = {"method": method, "d": d, "N": N, "dkmax": K, "add_correlation_time": tau, "commuting": commuting}
        self.timeout_s = 600

    def run(self, inp):
        d, N, K = self.d, self.N, self.K
        D = d * d
        infl = lib.Influences(inp, d, K, tau_add=self.tau)
        if self.commuting:
            # H_S commutes with the coupling: propagators diagonal in the coupling basis,
            # population entries 1 (e^{-i(E_a-E_a)t})
            def dg(name):
                v = inp.arr(name, (D,))
                for j in lib.diag_positions(d):
                    v[j] = inp.one()
                return np.diag(v) if inp.mode == "real" else lib._odiag(v)
            P1 = [dg("p%d" % k) for k in range(N)]
            P2 = [dg("q%d" % k) for k in range(N)]
        else:
            P1 = [lib.tp_prop(inp, "p%d" % k, d) for k in range(N)]
            P2 = [lib.tp_prop(inp, "q%d" % k, d) for k in range(N)]
        rho0 = inp.arr("r", (D,))
        if self.method == "tempo":
            states = lib.run_tempo(inp, rho0, infl, P1, P2, N, K, d)
        else:
            pt = lib.run_pt_tempo(inp, infl, N, K, d)
            states = [s.reshape(D) for s in lib.dynamics_states(
                sd.compute_dynamics(lib.FakeSystem(d, P1, P2), initial_state=rho0.reshape(d, d), process_tensor=pt,
                                    progress_type="silent"))]
        obs = []
        if self.commuting:
            # closed-form structure: single constant path
            for n in range(N + 1):
                exp = rho0.copy()
                fac = memory_factor(infl.peek, K, self.tau)
                for s in range(D):
                    acc = rho0[s]
                    for k in range(n):
                        acc = acc * P1[k][s, s] * P2[k][s, s]
                        for kp in range(k + 1):
                            F = fac(kp, k)
                            if F is not None:
                                acc = acc * F[s, s]
                    exp[s] = acc
                obs.append(Ob.eq("closed form step %d" % n, states[n], exp))
                pops = lib.diag_positions(d)
                obs.append(Ob.eq("populations constant step %d" % n, np.array([states[n][j] for j in pops], dtype=rho0.dtype),
                                 np.array([rho0[j] for j in pops], dtype=rho0.dtype)))
        else:
            oracle = path_sum_states(rho0, P1, P2, N, memory_factor(infl.peek, K, self.tau))
            for n in range(N + 1):
                obs.append(Ob.eq("path sum step %d" % n, states[n], oracle[n]))
        return obs


class H1p(Case):
    """API level: real Tempo / PtTempo with a symbolic-eta correlations stub; the oracle's
    matrices come from the real influence_matrix (itself verified in H2)."""
    stubs = STUBS + ("np.exp on symbolic arguments -> atoms per syntactically distinct simplified argument (congruence only)",)
    env = {"np_proxy_modules": ("oqupy.tempo",)}
    functions = H1.functions + ("Tempo.__init__", "Tempo.compute", "Tempo._influence", "PtTempo.__init__", "PtTempo.get_process_tensor",
                                "PtTempo._influence", "tempo.influence_matrix", "Bath.__init__", "TempoParameters.__init__")

    def __init__(self, method, N, K, tau, unique=False, coupling="sz"):
        self.method, self.N, self.K, self.tau, self.unique, self.coupling = method, N, K, tau, unique, coupling
        self.id = "H1p/%s_%s_N%d_K%s_%s_%s" % (method, coupling, N, K, "tau" if tau else "notau", "unique" if unique else "full")
        self.bounds = {"method": method, "d": 2, "N": N, "dkmax": K, "add_correlation_time": tau, "unique": unique, "coupling": coupling}
        self.timeout_s = 600

    def run(self, inp):
        d, N, K = 2, self.N, self.K
        D = 4
        dt = 0.5
        corr = ph.SymCorrelations(inp)
        bath = ph.bath_for(self.coupling, corr)
        tau = 0.25 if self.tau else None
        params = ph.parameters(dt, K, tau)
        P1 = [lib.tp_prop(inp, "p%d" % k, d) for k in range(N)]
        P2 = [lib.tp_prop(inp, "q%d" % k, d) for k in range(N)]
        rho0 = inp.arr("r", (d, d))
        if self.method == "tempo":
            _, states, _ = ph.tempo_states(bath, params, lib.FakeSystem(d, P1, P2), rho0, N, unique=self.unique)
        else:
            pt, _ = ph.pt_tempo_process_tensor(bath, params, N, unique=self.unique)
            states = lib.dynamics_states(sd.compute_dynamics(lib.FakeSystem(d, P1, P2), initial_state=rho0, process_tensor=pt,
                                                             progress_type="silent"))

        def infl(dk):
            return tempo_mod.influence_matrix(dk, parameters=params, correlations=corr, coupling_acomm=bath.coupling_acomm,
                                              coupling_comm=bath.coupling_comm, deg_positions=None)
        oracle = path_sum_states(rho0.reshape(D), P1, P2, N, memory_factor(infl, K, self.tau))
        obs = [Ob.holds("N+1 states", len(states) == N + 1)]
        for n in range(N + 1):
            obs.append(Ob.eq("path sum step %d" % n, states[n].reshape(D), oracle[n]))
        return obs


class RecCorr(ph.SymCorrelations):
    pass


class H2(Case):
    """real influence_matrix with symbolic dt, tau_add, eta cells and symbolic coupling
    eigenvalues: requested cells, exponent formula, trace structure, Hermiticity symmetry,
    degeneracy selection -- compared at the level of the exp ARGUMENTS (polynomial identities)."""
    stubs = (STUBS[2], "np.exp -> atoms; obligations compare the recorded arguments")
    env = {"np_proxy_modules": ("oqupy.tempo",)}
    functions = ("tempo.influence_matrix", "operators.commutator", "operators.acommutator")

    def __init__(self, d, K, tau):
        self.d, self.K, self.tau = d, K, tau
        self.id = "H2/influence_matrix_d%d_K%s_%s" % (d, K, "tau" if tau else "notau")
        self.bounds = {"d": d, "dkmax": K, "add_correlation_time": tau, "dk": "-(K+2)..K+1"}
        self.timeout_s = 120

    def run(self, inp):
        d, K = self.d, self.K
        D = d * d
        dt = inp.real("dt", lo=0, nonzero=True)
        inp.assume(dt > 0)
        tau = inp.real("tau", lo=0) if self.tau else None
        o = inp.arr("o", (d,))                       # coupling eigenvalues (symbolic)
        Od = np.diag(o) if inp.mode == "real" else lib._odiag(o)
        comm = opr.commutator(Od).diagonal()
        acomm = opr.acommutator(Od).diagonal()
        om_or = np.array([o[a] - o[b] for a in range(d) for b in range(d)], dtype=o.dtype)
        op_or = np.array([o[a] + o[b] for a in range(d) for b in range(d)], dtype=o.dtype)
        obs = [Ob.eq("commutator diagonal = o_a - o_b", comm, om_or), Ob.eq("anticommutator diagonal = o_a + o_b", acomm, op_or)]

        class P:                      # stand-in with the attributes influence_matrix reads
            pass
        params = P()
        params.dt, params.dkmax, params.add_correlation_time, params.epsrel = dt, K, tau, 1e-7
        cells = {}
        reqs = []

        class Corr:
            def correlation_2d_integral(self_, delta, time_1, time_2=None, shape="square", epsrel=None):
                reqs.append((shape, time_1, time_2, delta, epsrel))
                key = len(reqs)
                e = inp.cplx("eta%d" % key)
                cells[key] = e
                return e
        corr = Corr()
        dks = list(range(0, (K or 2) + 2)) + [-j for j in range(1, 4)]
        for dk in dks:
            n0 = len(reqs)
            before = set(sym.exp_atoms())
            M = tempo_mod.influence_matrix(dk, parameters=params, correlations=corr, coupling_acomm=acomm, coupling_comm=comm)
            if dk < 0 and tau is None:
                obs.append(Ob.holds("dk=%d: None without add_correlation_time" % dk, M is None and len(reqs) == n0))
                continue
            obs.append(Ob.holds("dk=%d: exactly one cell requested" % dk, len(reqs) == n0 + 1 and M is not None))
            shape, t1, t2, delta, epsrel = reqs[-1]
            eta = cells[len(reqs)]
            one = inp.one()
            if dk == 0:
                obs.append(Ob.holds("dk=0 requests the triangle at 0", shape == "upper-triangle" and t2 is None))
                obs.append(Ob.eq("dk=0 cell position", [t1 * one, delta * one], [0 * one, dt]))
            elif dk > 0:
                obs.append(Ob.holds("dk=%d requests a square" % dk, shape == "square" and t2 is None))
                obs.append(Ob.eq("dk=%d cell position" % dk, [t1 * one, delta * one], [dk * dt, dt]))
            else:
                j = -dk
                obs.append(Ob.holds("dk=%d requests a rectangle" % dk, shape == "rectangle"))
                # extent = min(j*dt, dt + tau)
                ext = t2 - t1
                a_, b_ = j * dt, dt + tau
                if inp.mode == "sym":
                    z = sym.z3
                    ea, eb, ee = (sym.zr(S.of(x).re) for x in (a_, b_, ext))
                    okext = sym.SB(z.If(ea <= eb, ee == ea, ee == eb))
                else:
                    fa, fb, fe = (complex(S.of(x)).real if isinstance(x, S) else float(x) for x in (a_, b_, ext))
                    okext = abs(fe - min(fa, fb)) < 1e-9
                obs.append(Ob.holds("dk=%d rectangle extent = min(j dt, dt + tau)" % dk, okext))
                obs.append(Ob.eq("dk=%d rectangle position" % dk, [t1 * one, delta * one], [K * dt, dt]))
            # exponent of every entry: -(o-_j)(Re eta o-_i + i Im eta o+_i), i = earlier, j = later
            I1 = 1j if inp.mode == "real" else S(0, 1)
            arg = np.empty((D, D), dtype=object)
            for i in range(D):
                for j in range(D):
                    arg[i, j] = -(om_or[j] * (eta.real * om_or[i] + I1 * eta.imag * op_or[i]))
            pairs = [(i, i) for i in range(D)] if dk == 0 else [(i, j) for i in range(D) for j in range(D)]
            if dk == 0:
                off = [S.of(M[i, j]) if inp.mode != "real" else M[i, j] for i in range(D) for j in range(D) if i != j]
                obs.append(Ob.holds("dk=0 matrix is diagonal", all((x.is_concrete() and x == 0) if isinstance(x, S) else x == 0 for x in off)))
            if inp.mode == "sym":
                atoms = {str(v[0]): (v[2], v[3]) for v in sym.exp_atoms().values()}
                got = np.empty(len(pairs), dtype=object)
                exp = np.empty(len(pairs), dtype=object)
                for n, (i, j) in enumerate(pairs):
                    e = S.of(M[i, j])
                    exp[n] = arg[i, j]
                    if e.is_concrete():
                        # exp of a provably zero argument is the concrete 1; anything else concrete is wrong
                        got[n] = S(0) if e == 1 else S(77)
                    elif str(e.re) in atoms:
                        got[n] = S(atoms[str(e.re)][0], atoms[str(e.re)][1])
                    else:
                        got[n] = S(78)          # not an exp atom at all
                obs.append(Ob.eq("dk=%d exponents" % dk, got, exp))
            else:
                got = np.array([complex(S.of(M[i, j])) if inp.mode == "frac" else M[i, j] for (i, j) in pairs])
                exp = np.exp(np.array([complex(S.of(arg[i, j])) if inp.mode == "frac" else arg[i, j] for (i, j) in pairs], dtype=complex))
                obs.append(Ob.eq("dk=%d values" % dk, got, exp))
            # trace structure: later index with o- = 0 gives exactly 1 (concretely, no solver needed)
            for j in lib.diag_positions(d):
                col = [M[i, j] for i in range(D)] if dk != 0 else [M[j, j]]
                if inp.mode == "real":
                    obs.append(Ob.eq("dk=%d trace structure col %d" % (dk, j), np.array(col), np.ones(len(col))))
                else:
                    obs.append(Ob.holds("dk=%d trace structure col %d" % (dk, j), all(S.of(x).is_concrete() and S.of(x) == 1 for x in col)))
        return obs


class H2e(Case):
    """deg_positions: the reduced matrix is the row/column selection of the full one"""
    stubs = H2.stubs
    env = {"np_proxy_modules": ("oqupy.tempo",)}
    functions = ("tempo.influence_matrix", "Tempo._influence", "Bath.__init__", "bath._row_degeneracy")

    def __init__(self, coupling):
        self.coupling = coupling
        self.id = "H2e/deg_selection_%s" % (coupling if isinstance(coupling, str) else "_".join(str(int(x)) for x in np.diag(coupling)))
        self.bounds = {"coupling": str(coupling), "dk": "0..2"}

    def run(self, inp):
        corr = ph.SymCorrelations(inp)
        bath = ph.bath_for(self.coupling, corr)
        d = bath.dimension
        params = ph.parameters(0.5, 2, None)
        t = oqupy.Tempo.__new__(oqupy.Tempo)
        t._unique, t._bath, t._parameters, t._correlations = True, bath, params, corr
        nmap, wmap = bath.north_degeneracy_map, bath.west_degeneracy_map
        obs = []
        for dk in (0, 1, 2):
            red = t._influence(dk)
            full = tempo_mod.influence_matrix(dk, parameters=params, correlations=corr, coupling_acomm=bath.coupling_acomm,
                                              coupling_comm=bath.coupling_comm)
            D = d * d
            if dk == 0:
                exp = np.array([full[i, i] for i in range(D)], dtype=full.dtype)
                got = np.array([red[nmap[i]] for i in range(D)], dtype=full.dtype)
                obs.append(Ob.eq("dk=0 reduced vector expands to the full diagonal", got, exp))
            else:
                got = np.array([[red[nmap[i], wmap[j]] for j in range(D)] for i in range(D)], dtype=full.dtype)
                obs.append(Ob.eq("dk=%d reduced matrix expands to the full one" % dk, got, full))
        return obs


def cases(tier):
    cs = []
    for method in ("tempo", "pt"):
        cs += [H1(method, 3, None, False), H1(method, 3, 1, False), H1(method, 3, 1, True), H1(method, 4, 2, True),
               H1(method, 2, 3, True), H1(method, 3, 2, False)]
        cs += [H1(method, 3, 1, True, commuting=True), H1(method, 4, None, False, commuting=True)]
        cs += [H1p(method, 3, 1, True), H1p(method, 3, None, False, unique=True)]
    cs += [H2(2, 2, True), H2(2, 1, False), H2(3, 1, True)]
    cs += [H2e("sz"), H2e("id"), H2e(np.diag([0.0, 1.0, 2.0])), H2e(np.diag([0.0, 0.0, 1.0]))]
    if tier == "thorough":
        for method in ("tempo", "pt"):
            # (N=5 general path sums give `unknown`: N<=4 is the stated bound; the commuting N=5 case is cheap)
            cs += [H1(method, 4, 1, True), H1(method, 4, 3, True), H1(method, 4, None, False),
                   H1(method, 4, 1, False), H1(method, 2, 1, True, d=3), H1(method, 2, None, False, d=3),
                   H1(method, 5, 2, True, commuting=True), H1p(method, 4, 2, True, unique=True), H1p(method, 4, None, False),
                   H1p(method, 3, 1, True, coupling="id", unique=True)]
            cs += [H1(method, 4, 2, False), H1(method, 3, 3, True), H1(method, 2, 2, True, d=3), H1(method, 4, 3, True, commuting=True),
                   H1(method, 3, 1, True, d=3, commuting=True), H1p(method, 3, 2, True, unique=True), H1p(method, 4, 1, True),
                   H1p(method, 3, None, False, coupling="half")]
        cs += [H2(3, 2, False), H2(2, 3, True), H2(3, 2, True), H2e(np.diag([-1.0, 0.0, 1.0])), H2e(np.diag([1.0, 1.0, 1.0])),
               H2e(np.diag([0.0, 1.0, 3.0])), H2e(np.diag([0.25, 0.25, -0.5])), H2e("half")]
    return cs
