"""C13 -- computations cover exactly the requested time grid and label states correctly.

Bit-precise / error-model twin harnesses (engine E2 `vf.fpx`, the REAL expressions of /repo run on
twin-encoded doubles):
  H1/<Site>/ongrid   number of steps of Tempo._get_num_step, MeanFieldTempo._get_num_step for
                     end_time within one ulp of fl(start + fl(m*dt)), m <= 1000      == m
  H4/PtTempo/ongrid  the step-count expression of PtTempo.__init__ (AST slice of the current source)
  H1|H4/.../offgrid  end_time strictly between two grid points (by > 1e-6 dt)        == lower one
  H1t/<Site>         Tempo._time / MeanFieldTempo._time / GibbsTempo._time / PtTebd.time:
                     label within rounding of start + k dt and strictly increasing in k
  H5/tcut            _parameter_memory_input_parse: tcut -> dkmax is the nearest integer (ties excluded)
Exact-arithmetic harnesses (engine E1, symbolic ints/reals, path forking):
  H1x/<Site>, H4x/PtTempo   step count with CONCRETE non-zero binary-exact (start, dt) and a symbolic integer target e:
                     end = start + e*dt exactly  ->  number of steps == e (catches a dropped / mis-signed start offset)
  H2/<api>           compute_dynamics, compute_dynamics_with_field, compute_gradient_and_dynamics, state_gradient:
                     times vs states bookkeeping, symbolic num_steps <= 4, record_all both ways
  H2/Tempo.compute, H2/MeanFieldTempo.compute, H2/PtTebd.compute   loop + label bookkeeping with
                     a counting back-end stub
  H3/Dynamics.add, H3/MeanFieldDynamics.add   <= 4 insertions at symbolic times stay sorted and aligned; .../rejected_add:
                     adds that raise (wrong state shape, caught by the caller) in between leave the object unchanged;
                     all read through the PUBLIC .times/.states/.fields/.expectations(), read after every add
"""
import math
import multiprocessing as mp
import os
import sys
import time
from fractions import Fraction

import numpy as np
import z3

import oqupy
import oqupy.tempo as tempo_mod
import oqupy.pt_tempo as pt_tempo_mod
import oqupy.pt_tebd as pt_tebd_mod
import oqupy.system_dynamics as sd
import oqupy.gradient as gradient_mod
import oqupy.dynamics as dynamics_mod
from oqupy.tempo import Tempo, MeanFieldTempo, GibbsTempo, TempoParameters
from oqupy.pt_tempo import PtTempo
from oqupy.pt_tebd import PtTebd

from vf import core, fpx, sym, lib
from vf import env as venv
from vf.core import Case, Ob
from vf.fpx import FCase, FOb, FInputs
from vf.sym import S, SI
from vf.tsym import st, exact_floats, guard_library_exceptions

PROP = "C13"

ASSUMPTIONS = [
    "fpx: magnitude ranges 1e-3 <= dt <= 10, |start_time| <= 1000, m <= 1000 (so |start|/dt <= 1e6; no overflow)",
    "fpx: 'holds' verdicts come from the standard rounding-error model fl(x op y) = (x op y)(1+d)(+e), |d| <= 2^-53, |e| <= 2^-1074, "
    "which over-approximates IEEE-754 double arithmetic in these ranges; bit-precise QF_BVFP is used for counterexamples only",
    "an end_time 'that is a grid point up to rounding' = a double within one ulp of fl(start + fl(m*dt))",
    "off-grid end times keep a distance > 1e-6*dt from both neighbouring grid points",
    "E1 harnesses: exact real arithmetic for times (rounding of the labels is covered by H1t)",
]

FP_MODULES = ("oqupy.tempo", "oqupy.pt_tempo", "oqupy.util")
FP_ENV = {"extra": fpx.shadows(*FP_MODULES)}


# ==========================================================================
# tiny real objects for the replays on the real code
# ==========================================================================
def _tiny_bath():
    return oqupy.Bath(0.5 * oqupy.operators.sigma("z"),
                      oqupy.PowerLawSD(alpha=0.1, zeta=1, cutoff=1.0, cutoff_type="exponential"))


def _real_tempo(start, dt):
    system = oqupy.System(0.5 * oqupy.operators.sigma("x"))
    params = TempoParameters(dt=dt, epsrel=1e-3, dkmax=1)
    return Tempo(system, _tiny_bath(), params, oqupy.operators.spin_dm("z+"), start)


def _real_mf_tempo(start, dt):
    system = oqupy.TimeDependentSystemWithField(lambda t, a: 0.5 * oqupy.operators.sigma("x") + 0.0 * a * oqupy.operators.sigma("z"))
    mfs = oqupy.MeanFieldSystem([system], field_eom=lambda t, states, a: -0.1 * a)
    params = TempoParameters(dt=dt, epsrel=1e-3, dkmax=1)
    return MeanFieldTempo(mfs, [_tiny_bath()], params, [oqupy.operators.spin_dm("z+")], 0.1 + 0.0j, start)


def _standin(cls, start, dt):
    """object in the state the step-count code reads (no back-end)"""
    o = cls.__new__(cls)
    p = TempoParameters.__new__(TempoParameters)
    p._dt = dt
    o._start_time = start
    o._parameters = p
    return o


E2E_MAX = 200


class TempoSite:
    name, prefix, m_lo = "Tempo", "H1", 0
    functions = ("oqupy/tempo.py:Tempo._get_num_step",)

    def sym_steps(self, start, dt, end):
        return _standin(Tempo, start, dt)._get_num_step(0, end)

    def real_steps(self, start, dt, end, m):
        t = _real_tempo(start, dt)
        n = t._get_num_step(0, end)
        out = {"n": n}
        if m <= E2E_MAX:      # end to end through the public API
            dyn = t.compute(end, progress_type="silent")
            out["n_e2e"] = len(dyn.times) - 1
        return n, out


class MeanFieldTempoSite:
    name, prefix, m_lo = "MeanFieldTempo", "H1", 0
    functions = ("oqupy/tempo.py:MeanFieldTempo._get_num_step",)

    def sym_steps(self, start, dt, end):
        return _standin(MeanFieldTempo, start, dt)._get_num_step(0, end)

    def real_steps(self, start, dt, end, m):
        t = _real_mf_tempo(start, dt)
        n = t._get_num_step(0, end)
        out = {"n": n}
        if m <= 40:
            dyn = t.compute(end, progress_type="silent")
            out["n_e2e"] = len(dyn.times) - 1
        return n, out


class PtTempoSite:
    name, prefix, m_lo = "PtTempo", "H4", 2
    functions = ("oqupy/pt_tempo.py:PtTempo.__init__ (backward slice of self._num_steps, evaluated from the current source)",)

    def sym_steps(self, start, dt, end):
        o = _standin(PtTempo, start, dt)
        o._end_time = end
        val, stmts = fpx.eval_slice(PtTempo.__init__, "self._num_steps",
                                    {"self": o, "start_time": start, "end_time": end, "parameters": o._parameters})
        self.slice = stmts
        return val

    def real_steps(self, start, dt, end, m):
        params = TempoParameters(dt=dt, epsrel=1e-3, dkmax=1)
        try:
            pt = PtTempo(_tiny_bath(), start, end, params)
        except AssertionError:
            return -1, {"n": -1}        # "end_time must be more than two time steps larger": fewer than 2 steps computed
        n = pt._num_steps
        out = {"n": n}
        if m <= 24:
            out["n_e2e"] = len(pt.get_process_tensor(progress_type="silent"))
        return n, out


SITES = {"Tempo": TempoSite, "MeanFieldTempo": MeanFieldTempoSite, "PtTempo": PtTempoSite}


# ==========================================================================
# H1 / H4: number of steps
# ==========================================================================
EXACT_PAIRS = [(1.0, 0.25), (-0.5, 0.5), (2.25, 0.25)]      # non-zero binary-exact start_time, binary-exact dt


def _exact_start_instances(st, dt, m):
    """instances that expose a dropped / mis-signed start offset within seconds"""
    return [("start=%g, dt=%g, m<=15" % (a, b), [st == z3.FPVal(a, fpx.F64), dt == z3.FPVal(b, fpx.F64), z3.ULE(m, 15)])
            for a, b in EXACT_PAIRS]


class StepsOnGrid(FCase):
    env = FP_ENV
    stubs = ("Tempo/MeanFieldTempo/PtTempo objects built with __new__ + the attributes the step-count code reads "
             "(replays use fully constructed real objects and the public compute())",)
    assumptions = ("end_time within one ulp of fl(start_time + fl(m*dt))",)
    timeout_s = 90
    fp_timeout_s = 60

    def __init__(self, site):
        self.site = SITES[site]()
        self.id = "%s/%s/ongrid" % (self.site.prefix, site)
        self.bounds = {"m_max": 1000, "dt": [1e-3, 10], "start": [-1000, 1000], "end": "grid point +- 1 ulp"}
        self.functions = self.site.functions

    def fp_instances(self, fi):
        st, dt, m = fi.fpvars["start"], fi.fpvars["dt"], fi.fpvars["m"]
        z = st == z3.FPVal(0.0, fpx.F64)
        return [("start=0, dt=0.1, m<=15", [z, dt == z3.FPVal(0.1, fpx.F64), z3.ULE(m, 15)])] + _exact_start_instances(st, dt, m) + [
                ("start=0, m<=15", [z, z3.ULE(m, 15)]),
                ("start=0", [z]),
                ("m<=15", [z3.ULE(m, 15)])]

    def run(self, inp):
        fi = FInputs.wrap(inp)
        start = fi.double("start", -1000.0, 1000.0)
        dt = fi.double("dt", 1e-3, 10.0)
        m = fi.count("m", self.site.m_lo, 1000)
        grid = start + fi.to_float(m) * dt
        end = fi.neighbour("end", grid)
        if fi.symbolic:
            n = self.site.sym_steps(start, dt, end)
            return [FOb("number of steps == m", n == m, key="num_steps", outputs={"n": n},
                        info="end_time within 1 ulp of start+m*dt must give m steps")]
        n, outs = self.site.real_steps(start, dt, end, m)
        ok = (n == m) and outs.get("n_e2e", m) == m
        return [FOb("number of steps == m", ok, key="num_steps", outputs={"n": n},
                    info="start=%r dt=%r end=%r m=%d: computed %s" % (start, dt, end, m, outs))]


class StepsOffGrid(FCase):
    env = FP_ENV
    stubs = StepsOnGrid.stubs
    assumptions = ("end_time = start_time + (m+theta)*dt exactly, 1e-6 <= theta <= 1-1e-6",)
    timeout_s = 90
    fp_timeout_s = 60
    THETA = Fraction(1, 10 ** 6)

    def __init__(self, site):
        self.site = SITES[site]()
        self.id = "%s/%s/offgrid" % (self.site.prefix, site)
        self.bounds = {"m_max": 1000, "dt": [1e-3, 10], "start": [-1000, 1000], "theta": [1e-6, 1 - 1e-6]}
        self.functions = self.site.functions

    def fp_instances(self, fi):
        st, m, dt = fi.fpvars["start"], fi.fpvars["m"], fi.fpvars["dt"]
        z = st == z3.FPVal(0.0, fpx.F64)
        return _exact_start_instances(st, dt, m) + [("start=0, m<=15", [z, z3.ULE(m, 15)]), ("start=0", [z]), ("m<=15", [z3.ULE(m, 15)])]

    def run(self, inp):
        fi = FInputs.wrap(inp)
        start = fi.double("start", -1000.0, 1000.0)
        dt = fi.double("dt", 1e-3, 10.0)
        m = fi.count("m", self.site.m_lo, 1000)
        th = self.THETA
        if fi.symbolic:
            end = fi.double("end", -1000.0, 12000.0)
            mr = z3.ToReal(m.re)
            lo_r = start.re + (mr + fpx._rq(th)) * dt.re
            hi_r = start.re + (mr + 1 - fpx._rq(th)) * dt.re
            # FP twin (stronger: margin 2e-6, evaluated in floating point; rounding there is << 1e-6*dt)
            mf = z3.fpUnsignedToFP(fpx.RNE, m.nb, fpx.F64)

            def at(c):
                return z3.fpAdd(fpx.RNE, start.fp, z3.fpMul(fpx.RNE, z3.fpAdd(fpx.RNE, mf, z3.FPVal(c, fpx.F64)), dt.fp))
            fi.assume(fp=z3.And(z3.fpGEQ(end.fp, at(2e-6)), z3.fpLEQ(end.fp, at(1 - 2e-6))),
                      re=z3.And(end.re >= lo_r, end.re <= hi_r))
            n = self.site.sym_steps(start, dt, end)
            return [FOb("off-grid: number of steps == lower grid index", n == m, key="num_steps_offgrid", outputs={"n": n}, fp_exact=False)]
        if "end" in fi.values:
            end = float.fromhex(fi.values["end"])
        else:
            end = start + (m + fi.rnd.choice([0.013, 0.25, 0.5, 0.77, 0.991])) * dt
            fi.values["end"] = end.hex()
        d = Fraction(end) - Fraction(start)
        fi.assume(conc=(m + th) * Fraction(dt) <= d <= (m + 1 - th) * Fraction(dt))
        n, outs = self.site.real_steps(start, dt, end, m)
        ok = (n == m) and outs.get("n_e2e", m) == m
        return [FOb("off-grid: number of steps == lower grid index", ok, key="num_steps_offgrid", outputs={"n": n},
                    info="start=%r dt=%r end=%r m=%d: computed %s" % (start, dt, end, m, outs))]


class StepsExact(Case):
    """exact arithmetic: concrete non-zero binary-exact start_time and dt, symbolic integer target e,
    end_time = start + e*dt exactly (no rounding anywhere, also in the real floats of the replay):
    number of steps == e.  Linear integer queries; a model (e) replays directly."""
    env = {"extra": fpx.shadows(*FP_MODULES)}
    stubs = StepsOnGrid.stubs
    timeout_s = 60
    N = 8

    def __init__(self, site):
        self.site = SITES[site]()
        self.id = "%sx/%s" % (self.site.prefix, site)
        self.bounds = {"e": [self.site.m_lo, self.N], "(start, dt)": EXACT_PAIRS}
        self.functions = self.site.functions

    @guard_library_exceptions
    def run(self, inp):
        e = inp.int("e", self.site.m_lo, self.N)
        obs = []
        for a, b in EXACT_PAIRS:
            label = "start=%g dt=%g: number of steps == e" % (a, b)
            if inp.mode == "real":
                n, outs = self.site.real_steps(a, b, a + e * b, e)
                obs.append(Ob.holds(label, n == e and outs.get("n_e2e", e) == e, key="num_steps_exact",
                                    info="e=%d: computed %s" % (e, outs)))
            else:
                start, dt = st(S(Fraction(a))), st(S(Fraction(b)))
                end = start + e * dt
                with exact_floats():
                    n = self.site.sym_steps(start, dt, end)
                obs.append(Ob.holds(label, n == e, key="num_steps_exact"))
        return obs


# ==========================================================================
# H1t: time labels (accuracy and strict monotonicity in floating point)
# ==========================================================================
def _time_fn(kind, start, dt, sym_mode):
    """-> callable step -> label, running the real method"""
    if kind == "Tempo":
        return _standin(Tempo, start, dt)._time
    if kind == "MeanFieldTempo":
        return _standin(MeanFieldTempo, start, dt)._time
    if kind == "GibbsTempo":
        o = GibbsTempo.__new__(GibbsTempo)
        o._dt = dt
        return o._time
    if kind == "PtTebd":
        o = PtTebd.__new__(PtTebd)
        p = pt_tebd_mod.PtTebdParameters.__new__(pt_tebd_mod.PtTebdParameters)
        p._dt = dt
        o._parameters, o._start_time, o._start_step = p, start, 3
        return lambda k: o.time(k + 3)
    raise KeyError(kind)


class TimeLabels(FCase):
    env = {"extra": fpx.shadows("oqupy.tempo", "oqupy.pt_tebd")}
    stubs = ("objects built with __new__ + the attributes _time()/time() read",)
    timeout_s = 90

    def __init__(self, kind):
        self.kind = kind
        self.id = "H1t/%s" % kind
        self.bounds = {"k_max": 1000, "dt": [1e-3, 10], "start": [-1000, 1000]}
        self.functions = ("%s time label" % kind,)

    def fp_instances(self, fi):
        k = fi.fpvars["k"]
        return [("k<=15", [z3.ULE(k, 15)]), ("full", [])]

    def run(self, inp):
        fi = FInputs.wrap(inp)
        dt = fi.double("dt", 1e-3, 10.0)
        start = fi.double("start", -1000.0, 1000.0) if self.kind != "GibbsTempo" else (fpx.SF.const(0.0) if fi.symbolic else 0.0)
        k = fi.count("k", 0, 1000)
        f = _time_fn(self.kind, start, dt, fi.symbolic)
        t0, t1 = f(k), f(k + 1)
        if fi.symbolic:
            kr = z3.ToReal(k.re)
            exact = start.re + kr * dt.re
            bound = 4 * fpx._U * (z3.If(start.re >= 0, start.re, -start.re) + kr * dt.re) + 4 * fpx._ETA
            ref = start + fi.to_float(k) * dt           # harness-side reference (FP twin only)
            acc = fpx.FB(z3.fpEQ(t0.fp, ref.fp), z3.And(t0.re - exact <= bound, exact - t0.re <= bound))
            return [FOb("label = start + k*dt up to rounding", acc, key="label", outputs={"t": t0}, fp_exact=False),
                    FOb("labels strictly increasing", t1 > t0, key="monotone")]
        exact = Fraction(start) + k * Fraction(dt)
        bound = 4 * fpx.U * (abs(Fraction(start)) + k * Fraction(dt)) + 4 * fpx.ETA
        return [FOb("label = start + k*dt up to rounding", abs(Fraction(t0) - exact) <= bound, key="label", outputs={"t": t0},
                    info="k=%d start=%r dt=%r label=%r" % (k, start, dt, t0)),
                FOb("labels strictly increasing", t1 > t0, key="monotone", info="k=%d start=%r dt=%r: %r, %r" % (k, start, dt, t0, t1))]


# ==========================================================================
# H5: tcut -> dkmax
# ==========================================================================
class TcutDkmax(FCase):
    env = FP_ENV
    timeout_s = 90
    ETA = Fraction(1, 10 ** 6)
    assumptions = ("tcut/dt keeps a distance > 1e-6 from every half-integer (ties excluded)",)

    def __init__(self):
        self.id = "H5/tcut"
        self.bounds = {"k_max": 1000, "dt": [1e-3, 10]}
        self.functions = ("oqupy/tempo.py:_parameter_memory_input_parse",)

    def fp_instances(self, fi):
        k = fi.fpvars["k"]
        return [("k<=15", [z3.ULE(k, 15)]), ("full", [])]

    def run(self, inp):
        fi = FInputs.wrap(inp)
        dt = fi.double("dt", 1e-3, 10.0)
        k = fi.count("k", 0, 1000)
        eta = self.ETA
        if fi.symbolic:
            tcut = fi.double("tcut", 0.0, 10010.0)
            kr = z3.ToReal(k.re)
            kf = z3.fpUnsignedToFP(fpx.RNE, k.nb, fpx.F64)

            def at(c):
                return z3.fpMul(fpx.RNE, z3.fpAdd(fpx.RNE, kf, z3.FPVal(c, fpx.F64)), dt.fp)
            fi.assume(fp=z3.And(z3.fpGEQ(tcut.fp, at(-0.5 + 2e-6)), z3.fpLEQ(tcut.fp, at(0.5 - 2e-6))),
                      re=z3.And(tcut.re >= (kr - fpx._rq(Fraction(1, 2) - eta)) * dt.re, tcut.re <= (kr + fpx._rq(Fraction(1, 2) - eta)) * dt.re))
        else:
            if "tcut" in fi.values:
                tcut = float.fromhex(fi.values["tcut"])
            else:
                tcut = max(0.0, round((k + fi.rnd.choice([-0.4, -0.1, 0.0, 0.0, 0.3, 0.45])) * dt, 6))
                fi.values["tcut"] = tcut.hex()
            fi.assume(conc=tcut >= 0 and (k - Fraction(1, 2) + eta) * Fraction(dt) <= Fraction(tcut) <= (k + Fraction(1, 2) - eta) * Fraction(dt))
        got_tcut, got_dkmax = tempo_mod._parameter_memory_input_parse(tcut, None, dt)
        if fi.symbolic:
            return [FOb("dkmax == nearest integer of tcut/dt", got_dkmax == k, key="dkmax", outputs={"dkmax": got_dkmax}, fp_exact=False),
                    FOb("tcut returned unchanged", got_tcut == tcut, key="tcut")]
        return [FOb("dkmax == nearest integer of tcut/dt", got_dkmax == k, key="dkmax", outputs={"dkmax": got_dkmax},
                    info="tcut=%r dt=%r k=%d -> dkmax=%r" % (tcut, dt, k, got_dkmax)),
                FOb("tcut returned unchanged", got_tcut == tcut, key="tcut")]


# ==========================================================================
# E1 harnesses
# ==========================================================================
E1_BUILTINS = ("isinstance", "int", "float", "complex", "max", "min")


def _e1_env(*modules, np_proxy=()):
    extra = {}
    for m in modules:
        extra.update(venv.shadow_builtins(m, names=E1_BUILTINS))
    return {"extra": extra, "np_proxy_modules": tuple(np_proxy)}


def _scale(arr, c):
    """array * scalar, also for object arrays of S (S defers array operands)"""
    if isinstance(arr, np.ndarray) and arr.dtype == object:
        out = np.empty(arr.shape, dtype=object)
        for idx in np.ndindex(*arr.shape):
            out[idx] = arr[idx] * c
        return out
    return arr * c


def _scaled_props(inp, N, d):
    """distinct symbolic scalings per step: state at step k = (c_0 ... c_{k-1}) rho0, so a state attached
    to the wrong time is visible"""
    D = d * d
    cs = [inp.real("c%d" % k) for k in range(N)]
    eye = inp.const(np.identity(D))
    return cs, [_scale(eye, c) for c in cs], [eye for _ in cs]


def _times_obs(times, start, dt, ns, record_all, prefix=""):
    obs = []
    if record_all:
        obs.append(Ob.holds(prefix + "len(times) == num_steps+1", len(times) == ns + 1, key="len"))
        for i in range(min(len(times), ns + 1)):
            obs.append(Ob.eq(prefix + "times[%d] == start + %d*dt" % (i, i), times[i], start + i * dt, key="times"))
    else:
        obs.append(Ob.holds(prefix + "exactly one time when record_all=False", len(times) == 1, key="len"))
        if len(times):
            obs.append(Ob.eq(prefix + "record_all=False: time == start + num_steps*dt", times[0], start + ns * dt,
                             key="final_label", info="num_steps=%d" % ns))
    return obs


class _ApiLabels(Case):
    """common part of the three API-function harnesses"""
    NMAX = 4
    stubs = ("no process tensor (a bond-1 identity SimpleProcessTensor for the gradient): only times/states bookkeeping is under test",
             "System.get_propagators -> per-step symbolic multiples of the identity",)
    assumptions = ("dt > 0",)
    timeout_s = 60

    PTS = "none"       # "none": no process tensor | "trivial": a TrivialProcessTensor alone, explicit num_steps |
                       # "trivial+finite": a TrivialProcessTensor next to a finite one, num_steps=None (-> length of the finite one)

    def _pts(self, inp, ns):
        """-> (process tensor list or None, num_steps argument)"""
        if self.PTS == "none":
            return None, ns
        triv = oqupy.process_tensor.TrivialProcessTensor(hilbert_space_dimension=2)
        if self.PTS == "trivial":
            return [triv], ns
        return [_identity_pt(inp, ns), triv], None

    def __init__(self, record_all, nmax=4, pts="none"):
        self.record_all = record_all
        self.NMAX = nmax
        self.PTS = pts
        self.id = "H2/%s/record_all=%s" % (self.api, record_all) + ("" if pts == "none" else "/pt=" + pts)
        self.bounds = {"num_steps": [0 if self.api != "compute_gradient_and_dynamics" else 1, self.NMAX], "d": 2, "record_all": record_all,
                       "process_tensors": pts}

    def _inputs(self, inp, lo=0):
        ns = inp.int("ns", lo, self.NMAX)
        start = st(inp.real("start"))
        dt = st(inp.real("dt", lo=Fraction(1, 100)))
        ns_c = int(ns)                       # forks over every value inside the bound
        return ns_c, start, dt


class LabelsComputeDynamics(_ApiLabels):
    api = "compute_dynamics"
    functions = ("oqupy/system_dynamics.py:compute_dynamics", "oqupy/dynamics.py:Dynamics.add")
    env = _e1_env("oqupy.system_dynamics", "oqupy.dynamics", "oqupy.util", "oqupy.control", np_proxy=("oqupy.control",))
    real_env = {"oqupy.control.print": lambda *a, **k: None}

    @guard_library_exceptions
    def run(self, inp):
        ns, start, dt = self._inputs(inp)
        cs, P1, P2 = _scaled_props(inp, self.NMAX, 2)
        rho0 = inp.arr("r", (2, 2))
        pts, ns_arg = self._pts(inp, ns)
        dyn = sd.compute_dynamics(lib.FakeSystem(2, P1, P2), initial_state=rho0, dt=dt, num_steps=ns_arg, start_time=start,
                                  process_tensor=pts, record_all=self.record_all, progress_type="silent")
        times, states = list(dyn.times), list(dyn.states)
        obs = _times_obs(times, start, dt, ns, self.record_all)
        obs.append(Ob.holds("len(times) == len(states)", len(times) == len(states), key="len"))
        acc = inp.one()
        exp = []
        for k in range(ns + 1):
            exp.append(_scale(rho0, acc))
            if k < ns:
                acc = acc * cs[k]
        sel = range(ns + 1) if self.record_all else [ns]
        for j, k in enumerate(sel):
            if j < len(states):
                obs.append(Ob.eq("state %d is the state of step %d" % (j, k), states[j], exp[k], key="state_alignment"))
        return obs


def _identity_pt(inp, N, d=2, dt=None):
    """bond-dimension-1 process tensor that does nothing (the gradient code needs a real MPO tensor)"""
    D = d * d
    pt = oqupy.process_tensor.SimpleProcessTensor(hilbert_space_dimension=d, dt=dt)
    for k in range(N):
        pt.set_mpo_tensor(k, inp.const(np.identity(D).reshape(1, 1, D, D)))
    for k in range(N + 1):
        pt.set_cap_tensor(k, inp.const(np.ones(1)))
    return pt


class LabelsGradient(_ApiLabels):
    api = "compute_gradient_and_dynamics"
    functions = ("oqupy/gradient.py:compute_gradient_and_dynamics", "oqupy/dynamics.py:Dynamics.add")
    env = _e1_env("oqupy.system_dynamics", "oqupy.gradient", "oqupy.dynamics", "oqupy.util", "oqupy.control", np_proxy=("oqupy.control",))
    real_env = {"oqupy.control.print": lambda *a, **k: None}

    @guard_library_exceptions
    def run(self, inp):
        ns, start, dt = self._inputs(inp, lo=1)
        cs, P1, P2 = _scaled_props(inp, self.NMAX, 2)
        rho0 = inp.arr("r", (2, 2))
        target = inp.arr("g", (2, 2))
        if self.PTS == "trivial+finite":
            pts, ns_arg = self._pts(inp, ns)
        else:
            pts, ns_arg = [_identity_pt(inp, self.NMAX)], ns
        _, dyn = gradient_mod.compute_gradient_and_dynamics(
            lib.FakeParamSystem(2, P1, P2), initial_state=rho0, target_derivative=target, process_tensors=pts,
            parameters=[(0.0,)] * (2 * self.NMAX), start_time=start, dt=dt, num_steps=ns_arg, record_all=self.record_all,
            progress_type="silent")
        times, states = list(dyn.times), list(dyn.states)
        obs = _times_obs(times, start, dt, ns, self.record_all)
        obs.append(Ob.holds("len(times) == len(states)", len(times) == len(states), key="len"))
        acc = inp.one()
        exp = []
        for k in range(ns + 1):
            exp.append(_scale(rho0, acc))
            if k < ns:
                acc = acc * cs[k]
        sel = range(ns + 1) if self.record_all else [ns]
        for j, k in enumerate(sel):
            if j < len(states):
                obs.append(Ob.eq("state %d is the state of step %d" % (j, k), states[j], exp[k], key="state_alignment"))
        return obs


class _GradSystem(lib.FakeParamSystem):
    """one control parameter; the derivative of either half-step propagator is a fixed matrix (values irrelevant here)"""

    def __init__(self, inp, d, P1, P2):
        super().__init__(d, P1, P2)
        self._dP = [inp.const(np.identity(d * d))]

    def get_propagator_derivatives(self, dt, parameters):
        return lambda step: (self._dP, self._dP)


class LabelsStateGradient(_ApiLabels):
    """entry point state_gradient: num_steps and dt come from the process tensor, start_time is forwarded"""
    api = "state_gradient"
    functions = ("oqupy/gradient.py:state_gradient", "oqupy/gradient.py:compute_gradient_and_dynamics", "oqupy/gradient.py:_chain_rule",
                 "oqupy/dynamics.py:Dynamics.add")
    env = dict(_e1_env("oqupy.system_dynamics", "oqupy.gradient", "oqupy.dynamics", "oqupy.util", "oqupy.control",
                       np_proxy=("oqupy.control", "oqupy.gradient")))
    real_env = {"oqupy.control.print": lambda *a, **k: None}
    stubs = _ApiLabels.stubs + ("ParameterizedSystem.get_propagator_derivatives -> fixed matrices (one parameter)",)

    def __init__(self, nmax=4):
        super().__init__(True, nmax)
        self.id = "H2/state_gradient"
        self.bounds = {"num_steps (= len(process_tensor))": [1, nmax], "d": 2}

    @guard_library_exceptions
    def run(self, inp):
        ns, start, dt = self._inputs(inp, lo=1)
        cs, P1, P2 = _scaled_props(inp, self.NMAX, 2)
        rho0 = inp.arr("r", (2, 2))
        target = inp.arr("g", (2, 2))
        pt = _identity_pt(inp, ns, dt=dt)
        res = gradient_mod.state_gradient(_GradSystem(inp, 2, P1, P2), rho0, target, [pt], np.zeros((2 * ns, 1)),
                                          start_time=start, progress_type="silent")
        dyn = res["dynamics"]
        times, states = list(dyn.times), list(dyn.states)
        obs = _times_obs(times, start, dt, ns, True)
        obs.append(Ob.holds("len(times) == len(states)", len(times) == len(states), key="len"))
        acc = inp.one()
        for k in range(min(ns + 1, len(states))):
            obs.append(Ob.eq("state %d is the state of step %d" % (k, k), states[k], _scale(rho0, acc), key="state_alignment"))
            if k < ns:
                acc = acc * cs[k]
        obs.append(Ob.eq("final_state is the last state", res["final_state"], states[-1], key="state_alignment"))
        return obs


class _FakeFieldSystem(oqupy.TimeDependentSystemWithField):
    def __init__(self, d, P1, P2):
        super().__init__(lambda t, a: np.zeros((d, d)) + 0 * a)
        self._P1, self._P2 = P1, P2

    def get_propagators(self, dt, start_time, subdiv_limit, epsrel):
        return lambda step, field, field_derivative: (self._P1[step], self._P2[step])


class LabelsWithField(_ApiLabels):
    api = "compute_dynamics_with_field"
    functions = ("oqupy/system_dynamics.py:compute_dynamics_with_field", "oqupy/dynamics.py:MeanFieldDynamics.add")
    env = _e1_env("oqupy.system_dynamics", "oqupy.dynamics", "oqupy.util", "oqupy.control", np_proxy=("oqupy.control",))
    real_env = {"oqupy.control.print": lambda *a, **k: None}
    stubs = _ApiLabels.stubs + ("field equation of motion: da/dt = 0 (field bookkeeping is C09's subject)",)
    lo = 1

    def __init__(self, record_all, nmax=4, zero_steps=False, pts="none"):
        super().__init__(record_all, nmax, pts)
        if zero_steps:       # dedicated case: a computation over zero steps returns the initial state at start_time
            self.lo = self.NMAX = 0
            self.id = "H2/compute_dynamics_with_field/num_steps=0"
            self.bounds = {"num_steps": 0, "record_all": record_all}
        else:
            self.bounds["num_steps"] = [1, self.NMAX]

    @guard_library_exceptions
    def run(self, inp):
        ns, start, dt = self._inputs(inp, lo=self.lo)
        cs, P1, P2 = _scaled_props(inp, self.NMAX, 2)
        rho0 = inp.arr("r", (2, 2))
        mfs = oqupy.MeanFieldSystem([_FakeFieldSystem(2, P1, P2)], field_eom=lambda t, states, a: 0.0 * a)
        a0 = inp.one() * 1
        pts, ns_arg = self._pts(inp, ns)
        dyn = sd.compute_dynamics_with_field(mfs, initial_field=a0, dt=dt, num_steps=ns_arg, initial_state_list=[rho0],
                                             process_tensor_list=None if pts is None else [pts],
                                             start_time=start, record_all=self.record_all, progress_type="silent")
        times = list(dyn._times)
        sub = dyn._system_dynamics[0]
        obs = _times_obs(times, start, dt, ns, self.record_all)
        obs += _times_obs(list(sub._times), start, dt, ns, self.record_all, prefix="system dynamics: ")
        obs.append(Ob.holds("len(times) == len(fields) == len(states)", len(times) == len(dyn._fields) == len(sub._states), key="len"))
        acc = inp.one()
        exp = []
        for k in range(ns + 1):
            exp.append(_scale(rho0, acc))
            if k < ns:
                acc = acc * cs[k]
        sel = range(ns + 1) if self.record_all else [ns]
        for j, k in enumerate(sel):
            if j < len(sub._states):
                obs.append(Ob.eq("state %d is the state of step %d" % (j, k), sub._states[j], exp[k], key="state_alignment"))
        return obs


# -- compute() loops with a counting back-end -------------------------------------------
class _CountingBackend:
    """stands in for TempoBackend: state after k steps is rho0 * (c_0..c_{k-1})"""

    def __init__(self, rho0, cs, mean_field=False):
        self.rho0, self.cs, self.mf = rho0, cs, mean_field
        self._step = None

    @property
    def step(self):
        return self._step

    def _state(self):
        acc = self.rho0
        for c in self.cs[:self._step]:
            acc = _scale(acc, c)
        return acc.reshape(-1)

    def initialize(self):
        self._step = 0
        return (0, [self._state().reshape(2, 2)], 1 + 0j) if self.mf else (0, self._state())

    def compute_step(self):
        self._step += 1
        return (self._step, [self._state()], 1 + 0j) if self.mf else (self._step, self._state())


class ComputeLoop(Case):
    """Tempo.compute / MeanFieldTempo.compute: end_time = start + (m+theta) dt in exact arithmetic"""
    NMAX = 4
    env = {"extra": dict(_e1_env("oqupy.dynamics")["extra"], **fpx.shadows("oqupy.tempo", "oqupy.util"))}
    stubs = ("TempoBackend / MeanFieldTempoBackend -> counting stub (initialize/compute_step/step)",)
    assumptions = ("dt concrete and binary exact (1/4; 1/2 in the thorough tier), start_time symbolic",
                   "exact real arithmetic: end_time = start + (m+theta)*dt with 0 <= theta < 1")
    timeout_s = 60
    max_paths = 400          # the intact code needs < 150 paths; a wrong step count explodes -> inconclusive quickly

    def __init__(self, kind, nmax=4, dt=Fraction(1, 4)):
        self.kind = kind
        self.NMAX = nmax
        self.dt = Fraction(dt)
        self.id = "H2/%s.compute" % kind + ("" if self.dt == Fraction(1, 4) else "/dt=%s" % self.dt)
        self.bounds = {"m": [0, self.NMAX], "calls": 2, "dt": str(self.dt), "start_time": "symbolic"}
        self.functions = ("oqupy/tempo.py:%s.compute" % kind, "oqupy/tempo.py:%s._get_num_step" % kind, "oqupy/tempo.py:%s._time" % kind)

    @guard_library_exceptions
    def run(self, inp):
        cls = Tempo if self.kind == "Tempo" else MeanFieldTempo
        m1 = inp.int("m1", 0, self.NMAX)
        m2 = inp.int("m2", 0, self.NMAX)
        start = st(inp.real("start"))
        # dt concrete and binary exact (symbolic start): every query stays linear -- with a symbolic dt a wrong
        # step count (e.g. a dropped start_time) leads nlsat into queries that ignore their timeout
        dt = float(self.dt) if inp.mode == "real" else st(S(self.dt))
        th1 = inp.real("th1", lo=0, hi=Fraction(99, 100))
        th2 = inp.real("th2", lo=0, hi=Fraction(99, 100))
        cs = [inp.real("c%d" % k) for k in range(self.NMAX)]
        rho0 = inp.arr("r", (2, 2))
        o = _standin(cls, start, dt)
        o._dimension = 2
        o._name = "x"
        o._dynamics = None
        o._parsed_parameters_dict = {"hs_dim": [2]}
        o._backend_instance = _CountingBackend(rho0, cs, mean_field=(cls is MeanFieldTempo))
        end1 = start + (m1 + th1) * dt
        end2 = start + (m2 + th2) * dt
        with exact_floats():
            d1 = o.compute(end1, progress_type="silent")
            first_read = (len(d1.times), len(d1.states if cls is Tempo else d1.system_dynamics[0].states))
            dyn = o.compute(end2, progress_type="silent")
        m1c, m2c = int(m1), int(m2)
        top = max(m1c, m2c)
        times = list(dyn.times)          # public read-outs (a first read happened between the two compute calls)
        states = list(dyn.states) if cls is Tempo else list(dyn.system_dynamics[0].states)
        obs = [Ob.holds("read-out after the first compute: len(times) == len(states) == m1+1", first_read == (m1c + 1, m1c + 1), key="len"),
               Ob.holds("len(times) == max(m1,m2)+1", len(times) == top + 1, key="len"),
               Ob.holds("len(states) == len(times)", len(states) == len(times), key="len")]
        acc = inp.one()
        for k in range(min(len(times), top + 1)):
            obs.append(Ob.eq("times[%d]" % k, times[k], start + k * dt, key="times"))
            if k < len(states):
                obs.append(Ob.eq("state[%d]" % k, states[k], _scale(rho0, acc), key="state_alignment"))
            if k < self.NMAX:
                acc = acc * cs[k]
        return obs


class _FakeTMps:
    def __init__(self, **kw):
        self.calls = []

    def compute_traces(self, step, pts):
        self.calls.append(("traces", step))

    def get_norm(self):
        return 1.0

    def get_bond_dimensions(self):
        return [1]

    def clear_traces(self):
        pass

    def apply_nn_gate_layer(self, layer):
        pass

    def apply_process_tensors(self, step, pts):
        self.calls.append(("pt", step))

    def apply_site_gate_layer(self, layer):
        pass


class _FakeTebdProp:
    gate_layers = []


class PtTebdLoop(Case):
    NMAX = 4
    env = dict(_e1_env("oqupy.pt_tebd", "oqupy.dynamics", "oqupy.util"))
    env["extra"] = dict(env["extra"], **{"oqupy.pt_tebd.compute_tebd_propagator": lambda **kw: _FakeTebdProp(),
                                           "oqupy.pt_tebd.PtTebdBackend": _FakeTMps})
    real_env = {"oqupy.pt_tebd.compute_tebd_propagator": lambda **kw: _FakeTebdProp(), "oqupy.pt_tebd.PtTebdBackend": _FakeTMps}
    stubs = ("compute_tebd_propagator, PtTebdBackend -> recording stubs (no tensor network): only the step/time logic of PtTebd runs",)
    assumptions = ("dt > 0",)
    functions = ("oqupy/pt_tebd.py:PtTebd.compute", "PtTebd.compute_step", "PtTebd.initialize", "PtTebd.time", "PtTebd._append_results")
    timeout_s = 60

    def __init__(self):
        self.id = "H2/PtTebd.compute"
        self.bounds = {"end_step - start_step": [0, self.NMAX], "start_step": [0, 3], "calls": 2}

    @guard_library_exceptions
    def run(self, inp):
        s0 = int(inp.int("s0", 0, 3))
        n1 = int(inp.int("n1", 0, self.NMAX))
        n2 = int(inp.int("n2", 0, self.NMAX))
        start = st(inp.real("start"))
        dt = st(inp.real("dt", lo=Fraction(1, 100)))
        o = PtTebd.__new__(PtTebd)
        p = pt_tebd_mod.PtTebdParameters.__new__(pt_tebd_mod.PtTebdParameters)
        p._dt, p._epsrel, p._order = dt, 1e-6, 2
        o._parameters, o._start_time, o._start_step = p, start, s0
        o._system_chain = None
        o._process_tensors = [None]
        o._backend_config = {}

        class _Mps:
            gammas, lambdas = [], []
        o._initial_augmented_mps = _Mps()
        o._dynamics_sites = []
        o._tebd_propagator = o._t_mps = o._results = o._step = None

        class _NoControl:
            def get_single_site_controls(self, step, post):
                return None
        o._chain_control = _NoControl()
        o.compute(s0 + n1, progress_type="silent")
        res = o.compute(s0 + n2, progress_type="silent")
        top = max(n1, n2)
        times = list(res["time"])
        obs = [Ob.holds("len(results['time']) == steps+1", len(times) == top + 1, key="len"),
               Ob.holds("step counter == end step", o.step == s0 + top, key="len")]
        for k in range(min(len(times), top + 1)):
            obs.append(Ob.eq("time[%d] == start + %d*dt" % (k, k), times[k], start + k * dt, key="times"))
        pts = [c[1] for c in o._t_mps.calls if c[0] == "pt"]
        obs.append(Ob.holds("process tensors applied for steps start_step+1..end", pts == list(range(s0 + 1, s0 + top + 1)), key="len"))
        return obs


# -- H3 ordering ---------------------------------------------------------------------
class DynamicsAdd(Case):
    env = _e1_env("oqupy.dynamics")
    functions = ("oqupy/dynamics.py:Dynamics.add", "oqupy/dynamics.py:MeanFieldDynamics.add", "oqupy/dynamics.py:_find_list_index")
    timeout_s = 60
    max_paths = 4000

    def __init__(self, kind, n, rejected=False):
        self.kind, self.n, self.rejected = kind, n, rejected
        self.id = "H3/%s.add/n%d" % (kind, n) + ("/rejected_add" if rejected else "")
        self.bounds = {"insertions": n, "rejected adds (wrong state shape, caller catches the AssertionError)": 2 if rejected else 0}

    def _bad_add(self, inp, dyn, k):
        """an add with a state of the wrong shape after the k-th good add; the caller catches the error.
        The history continues: an add that raises must leave times / states / fields unchanged"""
        if not self.rejected or k not in (0, 1):
            return
        tb = inp.real("tb%d" % k)
        bad = _scale(inp.const(np.identity(3)), inp.real("sb%d" % k))
        try:
            if self.kind == "Dynamics":
                dyn.add(tb, bad)
            else:
                dyn.add(tb, [bad], inp.real("fb%d" % k))
        except AssertionError:
            pass

    @guard_library_exceptions
    def run(self, inp):
        n = self.n
        ts = [inp.real("t%d" % i) for i in range(n)]
        tags = [inp.real("s%d" % i) for i in range(n)]
        reads = []          # public read-outs after every accepted add: (len(times), len(states), len(expectations) [, len(fields)])
        if self.kind == "Dynamics":
            dyn = dynamics_mod.Dynamics()
            for k, (t, g) in enumerate(zip(ts, tags)):
                dyn.add(t, _scale(inp.const(np.identity(2)), g))
                self._bad_add(inp, dyn, k)
                reads.append((k + 1, len(dyn.times), len(dyn.states), len(dyn.expectations()[1])))
            times, states = list(dyn.times), [s_[0, 0] for s_ in dyn.states]
            expect = list(dyn.expectations()[1])
            fields = None
        else:
            dyn = dynamics_mod.MeanFieldDynamics()
            for k, (t, g) in enumerate(zip(ts, tags)):
                dyn.add(t, [_scale(inp.const(np.identity(2)), g)], g * 2)
                self._bad_add(inp, dyn, k)
                sub = dyn.system_dynamics[0]
                reads.append((k + 1, len(dyn.times), len(sub.states), len(sub.expectations()[1]), len(dyn.fields), len(sub.times)))
            times = list(dyn.times)
            sub = dyn.system_dynamics[0]
            states = [s_[0, 0] for s_ in sub.states]
            expect = list(sub.expectations()[1])
            fields = list(dyn.fields)
            sub_times = list(sub.times)
        obs_reads = [Ob.holds("public read-out after accepted add %d: times, states, expectations%s all have %d entries" % (
            r[0], "" if fields is None else ", fields", r[0]), all(x == r[0] for x in r[1:]), key="readout", info=str(r)) for r in reads]
        aligned = len(times) == n and len(states) == n and (fields is None or (len(fields) == n and len(sub_times) == n))
        obs = [Ob.holds("exactly the accepted insertions are recorded (times, states%s)" % ("" if fields is None else ", fields"), aligned,
                        key="len", info="len(times)=%d len(states)=%d accepted adds=%d" % (len(times), len(states), n))]
        obs = obs_reads + obs
        if not aligned or len(expect) != n:
            return obs + [Ob.holds("expectations() has one entry per time", len(expect) == len(times), key="readout")]
        for p in range(n):
            obs.append(Ob.eq("expectations()[%d] is the trace of states[%d]" % (p, p), expect[p], states[p] * 2, key="readout"))
        for i in range(len(times) - 1):
            obs.append(Ob.holds("times sorted at %d" % i, times[i] <= times[i + 1], key="sorted"))
        # every (time, state) pair is one of the inserted pairs and each inserted pair occurs once:
        # with symbolic distinct tags, position p must carry the tag of the insertion whose time it shows
        for p in range(len(times)):
            alts = []
            for i in range(n):
                e = sym.tob(times[p] == ts[i])
                e = z3.And(e, sym.tob(S.of(states[p]) == tags[i]))
                if fields is not None:
                    e = z3.And(e, sym.tob(S.of(fields[p]) == tags[i] * 2), sym.tob(sub_times[p] == ts[i]))
                alts.append(e)
            obs.append(Ob.holds("position %d holds an inserted (time, state%s) pair" % (p, ", field" if fields is not None else ""),
                                sym.SB(z3.Or(*alts)) if inp.symbolic else any(z3.is_true(z3.simplify(a)) for a in alts), key="alignment"))
        if inp.symbolic:
            for i in range(n):
                for j in range(i + 1, n):
                    inp.assume(tags[i] != tags[j])
        return obs


# ==========================================================================
# case lists and driver
# ==========================================================================
def fp_cases(tier):
    cs = [StepsOnGrid("Tempo"), StepsOnGrid("MeanFieldTempo"), StepsOnGrid("PtTempo"),
          StepsOffGrid("Tempo"), StepsOffGrid("MeanFieldTempo"), StepsOffGrid("PtTempo"),
          TimeLabels("Tempo"), TimeLabels("MeanFieldTempo"), TimeLabels("GibbsTempo"), TimeLabels("PtTebd"),
          TcutDkmax()]
    if tier == "thorough":
        for c in cs:
            c.validation_points = 12
            c.timeout_s = 600
            c.fp_timeout_s = 300
    return cs


def e1_cases(tier):
    n = 4 if tier == "quick" else 7
    cs = []
    for ra in (True, False):
        cs += [LabelsComputeDynamics(ra, n), LabelsWithField(ra, n), LabelsGradient(ra, n)]
    cs += [LabelsWithField(True, zero_steps=True), LabelsStateGradient(n)]
    # a TrivialProcessTensor (length 0, unlimited max_step) alone with explicit num_steps, and next to a finite one with num_steps=None
    cs += [LabelsComputeDynamics(True, n, pts="trivial"), LabelsComputeDynamics(True, n, pts="trivial+finite"),
           LabelsWithField(True, n, pts="trivial+finite")]
    # (compute_gradient_and_dynamics does not support a TrivialProcessTensor at all -- its back-propagation indexes the
    #  missing MPO tensor and raises IndexError -- so there is no gradient variant of these cases)
    if tier == "thorough":
        cs += [LabelsComputeDynamics(False, n, pts="trivial+finite"), LabelsWithField(True, n, pts="trivial"),
               LabelsWithField(False, n, pts="trivial+finite")]
    cs += [StepsExact("Tempo"), StepsExact("MeanFieldTempo"), StepsExact("PtTempo")]
    if tier == "thorough":
        cs += [ComputeLoop("Tempo", 5, Fraction(1, 2)), ComputeLoop("MeanFieldTempo", 5, Fraction(1, 2))]
    cs += [ComputeLoop("Tempo", 4 if tier == "quick" else 6), ComputeLoop("MeanFieldTempo", 4 if tier == "quick" else 6), PtTebdLoop()]
    cs += [DynamicsAdd("Dynamics", 3), DynamicsAdd("MeanFieldDynamics", 3)]
    cs += [DynamicsAdd("Dynamics", 3, rejected=True), DynamicsAdd("MeanFieldDynamics", 3, rejected=True)]
    if tier == "thorough":
        cs += [DynamicsAdd("Dynamics", 4), DynamicsAdd("MeanFieldDynamics", 4)]
    return cs


def cases(tier):
    return fp_cases(tier) + e1_cases(tier)


def main(tier, seed, args):
    return fpx.run_cases(PROP, sys.modules[__name__], tier, seed, args, hard_timeout_s=(300 if tier == "quick" else 1500))
