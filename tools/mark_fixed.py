#!/usr/bin/env python3
"""usage: mark_fixed.py <PROP> <commit> <key-substring>... : set status=fixed (+commit, record line) on matching entries of known_findings.json"""
import json, sys, os
ROOT = os.path.dirname(os.path.dirname(os.path.abspath(__file__)))
prop, commit, subs = sys.argv[1], sys.argv[2], sys.argv[3:]
p = os.path.join(ROOT, "known_findings.json")
d = json.load(open(p))
n = 0
for f in d["findings"]:
    if f["property"] == prop and any(s in f["key"] for s in subs) and f.get("status") != "fixed":
        f["status"] = "fixed"; f["commit"] = commit
        f["record"] = "fixed: property=%s %s %s" % (prop, commit, f["what"][:300]); n += 1
json.dump(d, open(p, "w"), indent=1)
print(prop, "marked fixed:", n)
