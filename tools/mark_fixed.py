#!/usr/bin/env python3
"""usage: mark_fixed.py <PROP> <commit> <key-substring> [<key-substring>...] : set status=fixed on matching findings"""
import json, sys, os
ROOT = os.path.dirname(os.path.dirname(os.path.abspath(__file__)))
prop, commit, subs = sys.argv[1], sys.argv[2], sys.argv[3:]
p = os.path.join(ROOT, "findings", prop + ".json")
d = json.load(open(p)) if os.path.exists(p) else {"findings": []}
n = 0
for f in d["findings"]:
    if any(s in f["key"] for s in subs) and f.get("status") != "fixed":
        f["status"] = "fixed"; f["commit"] = commit; n += 1
json.dump(d, open(p, "w"), indent=1)
print(prop, "marked fixed:", n)
