#!/usr/bin/env python3
"""Regenerates /verif/MANIFEST.json from the table below and validates it."""
import json, os, sys
ROOT = os.path.dirname(os.path.dirname(os.path.abspath(__file__)))

TB = ("z3 (verdicts), CPython operator dispatch and numpy object-array loops (the same code the real run uses), "
      "the stubs' contracts listed in the evidence file, exact-arithmetic reading of tensor code, harness oracles "
      "(validated on the real stack at seeded points every run); bounds are part of the claim")

CHECKS = {
 "C03": dict(
    text="Bounded symbolic checking: the real compute_dynamics / process-tensor / control code runs on symbolic tensors; z3 proves "
         "equality with the explicit joint-evolution index sum for ALL tensor values with d=2 (d=3 thorough), <=3 environments, bond<=2, "
         "N<=3(4) steps, rank-3/rank-4 MPOs, in/out transforms and control schedules, initial-state arrays in C, Fortran and strided memory layout, caller buffers re-used after set_mpo_tensor/set_cap_tensor (H9); counterexamples are replayed on the real stack.",
    note="Order independence is asserted where it is a mathematical truth (rank-3 delta tensors in a common basis). " + TB,
    ref="4/C03", technique="symbolic execution of the real numpy/tensornetwork code on z3 terms + SMT (QF_NRA) identity queries"),
}
NOT_BUILT = "check under construction in this round (see DESIGN.md section 4 for the planned harnesses)"

def main():
    import glob
    for f in sorted(glob.glob(os.path.join(ROOT, "checks", "c*.manifest.json"))):
        d = json.load(open(f))
        if d["property_id"] not in READY:
            continue
        CHECKS[d["property_id"]] = d
        if d.get("not_applicable_reason"):
            NA[d["property_id"]] = d["not_applicable_reason"]; CHECKS.pop(d["property_id"])
    props = [json.loads(l) for l in open(os.path.join(ROOT, "properties.jsonl"))]
    checks, na = [], []
    for p in props:
        pid = p["id"]
        if pid in CHECKS:
            c = CHECKS[pid]
            checks.append({
                "property_id": pid,
                "quick_cmd": "./check %s --tier quick" % pid,
                "thorough_cmd": "./check %s --tier thorough" % pid,
                "evidence_file": "/verif/evidence/%s.json" % pid,
                "replay_cmd_template": "./check %s --replay {path}" % pid,
                "engine": c.get("engine", "symx"),
                "level_claimed": {"category": "model_checking", "text": c["text"], "design_ref": c["ref"]},
                "level_note": c["note"],
                "technique": c["technique"],
            })
        else:
            na.append({"property_id": pid, "reason": NA.get(pid, NOT_BUILT)})
    m = {
        "version": 1,
        "setup_cmd": "./setup.sh",
        "hooks": {"guard": "OQUPY_VERIF", "enable": "none needed: all interposition is done from the harness side (module-global shadowing, tensornetwork back-end registry, subclassing)",
                  "baseline_off_cmd": "cd /repo && /venv/bin/python -m pytest -ra -q -p no:cacheprovider --timeout=900 --continue-on-collection-errors",
                  "source_commits": [], "add_only": True},
        "engines": [
            {"name": "symx", "path": "vf/sym.py vf/env.py vf/core.py vf/lib.py vf/physical.py vf/bathsym.py vf/tsym.py vf/h5stub.py",
             "serves_properties": sorted(k for k, v in CHECKS.items() if v.get("engine", "symx") == "symx"),
             "kind_free_text": "E1: concolic/symbolic executor for the real numpy/tensornetwork code over z3 terms (symbolic scalars in object arrays, path forking, stubs for LAPACK/QUADPACK/HDF5 contracts); SMT queries; replay of models on the real stack"},
            {"name": "fpx", "path": "vf/fpx.py", "serves_properties": sorted(k for k, v in CHECKS.items() if v.get("engine") == "fpx" or k in ("C13", "C15")),
             "kind_free_text": "E2: twin-encoded doubles (bit-precise QF_BVFP for counterexamples, rounding-error model over reals for the holds verdict) evaluated through the real expressions"},
            {"name": "thx", "path": "vf/thx.py vf/thx_replay.py", "serves_properties": sorted(k for k, v in CHECKS.items() if v.get("engine") == "thx"),
             "kind_free_text": "E3: transition system lowered from the real bytecode/AST of the progress-bar protocol and of every API that creates a progress object; z3 bounded model checking over thread schedules and fault points; replay with real threads"},
        ],
        "checks": checks,
        "not_applicable": na,
        "notes": "All checks: exit 0 = every query unsat and reachability twins sat; exit 1 + VIOLATION only after replay on the real code; exit 2 = inconclusive/harness error. Known findings: known_findings.json.",
    }
    json.dump(m, open(os.path.join(ROOT, "MANIFEST.json"), "w"), indent=1)
    import jsonschema
    jsonschema.validate(m, json.load(open("/root/.vp/MANIFEST.schema.json")))
    print("MANIFEST ok: %d checks, %d not_applicable" % (len(checks), len(na)))

NA = {}
# properties whose check has been integrated and run end-to-end by the lead
READY = {'C%02d' % i for i in range(1, 21)}
if __name__ == "__main__":
    main()
