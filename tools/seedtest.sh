#!/bin/bash
# usage: tools/seedtest.sh <patch.diff> <tier> <CHECK>...   -- runs checks against a scratch copy of /repo with the patch applied
P=$1; T=$2; shift 2
D=$(mktemp -d /tmp/seedtest_XXXX); cp -r ${SEEDBASE:-/repo} $D/repo; rm -rf $D/repo/.git
(cd $D/repo && git init -q . 2>/dev/null; git apply --whitespace=nowarn $P) || { echo "PATCH DOES NOT APPLY: $P"; rm -rf $D; exit 3; }
rm -rf $D/repo/.git
for c in "$@"; do
  out=$(VF_REPO=$D/repo timeout 3000 /verif/check $c --tier $T 2>&1 | grep -v conda)
  rc=$(echo "$out" | tail -1 | grep -o "rc=[0-9]*")
  echo "== $c $rc :: $(echo "$out" | grep -c '^VIOLATION') violations; $(echo "$out" | grep -m2 'case=' | cut -c1-160 | tr '\n' '|')"
done
rm -rf $D; rm -f /verif/replays/*.json
