#!/usr/bin/env python3
"""store a confirmed seeded change: tools/store_seed.py <PROP> <k> [<patch-override>]"""
import json, os, shutil, sys
prop, k = sys.argv[1], sys.argv[2]
src = os.environ.get("SEEDSRC") or "/tmp/seed/out_%s/%s" % (prop, k)
dst = "/verif/seeded/%s_%s" % (prop, k)
os.makedirs(dst, exist_ok=True)
patch = sys.argv[3] if len(sys.argv) > 3 else os.path.join(src, "patch.diff")
shutil.copy(patch, os.path.join(dst, "patch.diff"))
shutil.copy(os.path.join(src, "demo.py"), os.path.join(dst, "demo.py"))
meta = json.load(open(os.path.join(src, "meta.json")))
res = "/tmp/confirm/%s_%s.result" % (prop, k)
conf = json.load(open(res)) if os.path.exists(res) else {}
out = {"property": prop, "breaks": meta.get("summary"), "needs_to_manifest": meta.get("needs"),
       "author": "independent sub-agent given only the property text and a scratch worktree",
       "author_tests_run": meta.get("tests_run"),
       "confirmed_by_lead": {"scratch_worktree_of_repo_head": conf.get("head"), "patch_applies": conf.get("patch_applies") == 0,
                             "demo_passes_without_patch": conf.get("demo_without_patch_rc") == 0,
                             "demo_fails_with_patch": conf.get("demo_with_patch_rc", 0) != 0,
                             "unedited_test_suite_with_patch": conf.get("suite_tail"),
                             "command": "tools/confirm_seed.sh %s %s" % (prop, k)},
       "patch_ported_to_current_head": len(sys.argv) > 3}
json.dump(out, open(os.path.join(dst, "meta.json"), "w"), indent=1)
print("stored", dst, out["confirmed_by_lead"])
