#!/bin/bash
# usage: tools/confirm_seed.sh <PROP> <k>  -- confirm a seeded change in a fresh scratch worktree of /repo HEAD:
#   demo passes without the patch, fails with it, and the repository's test suite passes with it.
P=$1; K=$2; SRC=${SEEDSRC:-/tmp/seed/out_$P/$K}; W=/tmp/confirm/${P}_$K; OUT=/tmp/confirm/${P}_$K.result
mkdir -p /tmp/confirm; rm -rf $W; git -C /repo worktree prune; git -C /repo worktree add -q --detach $W HEAD || exit 3
export PYTHONPATH=$W OMP_NUM_THREADS=2 OPENBLAS_NUM_THREADS=2 MKL_NUM_THREADS=2
cd $W
timeout 600 /venv/bin/python $SRC/demo.py > $W.demo0.log 2>&1; d0=$?
git apply $SRC/patch.diff 2> $W.apply.log; ap=$?
timeout 600 /venv/bin/python $SRC/demo.py > $W.demo1.log 2>&1; d1=$?
timeout 3000 /venv/bin/python -m pytest -q -p no:cacheprovider --timeout=900 tests/coverage tests/physics > $W.tests.log 2>&1; t=$?
echo "{\"property\": \"$P\", \"k\": $K, \"head\": \"$(git -C /repo rev-parse --short HEAD)\", \"patch_applies\": $ap, \"demo_without_patch_rc\": $d0, \"demo_with_patch_rc\": $d1, \"suite_rc\": $t, \"suite_tail\": \"$(tail -1 $W.tests.log | tr -d '\"')\"}" > $OUT
cd /; git -C /repo worktree remove --force $W
cat $OUT
