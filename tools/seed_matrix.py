#!/usr/bin/env python3
"""Run the registered quick checks against every stored seeded change, ON /repo ITSELF
(git apply, run, git checkout -- .), and record which checks report it.
usage: tools/seed_matrix.py [--only C03_1,...] [--tier quick]"""
import json, os, subprocess, sys, glob, time
ROOT = "/verif"
EXTRA = {"C01_1": ["C13"], "C02_2": ["C15"], "C05_1": ["C06"], "C05_2": ["C16"], "C10_2": ["C04"], "C15_1": ["C07"], "C20_1": ["C18"],
         "C01_3": ["C06", "C05"], "C02_4": ["C05"], "C03_4": ["C15", "C18"], "C04_4": ["C11"], "C05_3": ["C16"], "C07_3": ["C18"],
         "C12_4": ["C20"], "C04_5": ["C10"], "C04_6": ["C16"], "C05_6": ["C16"], "C10_5": ["C14"], "C01_5": ["C02", "C06"],
         "C01_6": ["C12"], "C12_6": ["C20"], "C20_6": ["C07"], "C20_5": ["C18"],
         "C01_7": ["C04"], "C01_8": ["C12"], "C02_8": ["C14", "C13"], "C03_8": ["C18"], "C13_7": ["C08"],
         "C02_10": ["C16"], "C04_9": ["C11"], "C04_10": ["C10"], "C05_9": ["C04"], "C10_9": ["C04"], "C11_10": ["C14"], "C01_9": ["C12"], "C01_10": ["C16"],
         "C01_11": ["C16"], "C01_12": ["C12"], "C02_11": ["C16"], "C02_12": ["C16"], "C03_11": ["C16"], "C03_12": ["C18"], "C04_12": ["C10"],
         "C05_12": ["C16"], "C09_11": ["C14", "C13"], "C10_11": ["C04"], "C20_12": ["C13"],
         "C01_13": ["C09", "C06"], "C03_14": ["C18"], "C04_13": ["C12"], "C04_14": ["C09"],
         "C01_14": ["C06"], "C03_15": ["C16"], "C04_15": ["C11"], "C10_13": ["C04"], "C11_13": ["C12"], "C05_15": ["C16"]}
only = None
tier = "quick"
for i, a in enumerate(sys.argv):
    if a == "--only": only = sys.argv[i + 1].split(",")
    if a == "--tier": tier = sys.argv[i + 1]
assert subprocess.run(["git", "-C", "/repo", "status", "--porcelain"], capture_output=True, text=True).stdout.strip() == "", "/repo not clean"
rows = []
for d in sorted(glob.glob(os.path.join(ROOT, "seeded", "*_*"))):
    sid = os.path.basename(d)
    if only and sid not in only: continue
    prop = sid.split("_")[0]
    meta = json.load(open(os.path.join(d, "meta.json")))
    ap = subprocess.run(["git", "-C", "/repo", "apply", os.path.join(d, "patch.diff")], capture_output=True, text=True)
    res = {}
    if ap.returncode != 0:
        res["apply"] = "patch does not apply to current HEAD: " + ap.stderr.strip()[:200]
    else:
        try:
            for chk in [prop] + EXTRA.get(sid, []):
                t = time.time()
                r = subprocess.run([os.path.join(ROOT, "check"), chk, "--tier", tier], capture_output=True, text=True, timeout=3000)
                viol = [l for l in r.stdout.splitlines() if l.startswith("VIOLATION")]
                first = [l.strip() for l in r.stdout.splitlines() if l.strip().startswith("case=")][:1]
                res[chk] = {"rc": r.returncode, "violations": len(viol), "first": first[0][:300] if first else None, "wall_s": round(time.time() - t, 1)}
                if r.returncode == 1 and chk == prop:
                    break
        finally:
            subprocess.run(["git", "-C", "/repo", "checkout", "--", "."], check=True)
            subprocess.run("rm -f /verif/replays/*.json", shell=True)
    meta["checks_run_on_repo_with_patch_applied"] = {"repo_head": subprocess.run(["git", "-C", "/repo", "rev-parse", "--short", "HEAD"], capture_output=True, text=True).stdout.strip(),
                                                     "tier": tier, "results": res}
    meta["caught_by"] = sorted(k for k, v in res.items() if isinstance(v, dict) and v["rc"] == 1)
    json.dump(meta, open(os.path.join(d, "meta.json"), "w"), indent=1)
    rows.append((sid, meta["caught_by"], res))
    print(sid, "caught_by=", meta["caught_by"], {k: (v["rc"] if isinstance(v, dict) else v) for k, v in res.items()}, flush=True)
assert subprocess.run(["git", "-C", "/repo", "status", "--porcelain"], capture_output=True, text=True).stdout.strip() == ""
