#!/bin/bash
# usage: tools/mut.sh <file-relative-to-repo> <sed-expr> <check args...>   (scratch copy; never touches /repo)
D=/tmp/lead_$$; mkdir -p $D; cp -r /repo $D/repo; rm -rf $D/repo/.git
f=$1; e=$2; shift 2
sed -i "$e" $D/repo/$f
if diff -q /repo/$f $D/repo/$f >/dev/null; then echo "MUTATION DID NOT APPLY"; rm -rf $D; exit 3; fi
diff /repo/$f $D/repo/$f | head -6
VF_REPO=$D/repo /verif/check "$@" 2>&1 | grep -v conda | grep -v "^  " | cut -c1-220 | tail -6
rm -rf $D; rm -f /verif/replays/*.json
