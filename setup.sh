#!/bin/bash
# Build the overlay venv used by every check: /venv's interpreter and packages (OQuPy's own
# environment, OQuPy itself is imported from /repo's working tree) + z3-solver, cvc5,
# crosshair-tool, jsonschema from the offline wheelhouse.  Idempotent.
set -e
cd "$(dirname "$0")"
V=/verif/.venv
if [ ! -x "$V/bin/python" ] || ! "$V/bin/python" -c "import z3, cvc5, jsonschema, numpy, tensornetwork" 2>/dev/null; then
  rm -rf "$V"
  /venv/bin/python -m venv "$V"
  SP=$("$V/bin/python" -c "import sysconfig; print(sysconfig.get_paths()['purelib'])")
  echo "import site; site.addsitedir('/venv/lib/python3.12/site-packages')" > "$SP/overlay.pth"
  PIP_NO_INDEX=1 "$V/bin/pip" install -q --no-index --find-links /opt/veriftools/wheels z3-solver cvc5 crosshair-tool jsonschema >/dev/null 2>&1 \
   || PIP_NO_INDEX=1 "$V/bin/pip" install -q --no-index --find-links /opt/veriftools/wheels z3-solver cvc5 jsonschema
fi
"$V/bin/python" -c "import z3, oqupy; assert oqupy.__file__.startswith('/repo/'), oqupy.__file__"
echo "setup ok"
