"""Interposition from the harness side (no hooks in /repo): tensornetwork back-end
registry stub with exact non-truncating SVD, dtype rebinding, numpy proxy."""
import contextlib
import sys
import types
from fractions import Fraction

import numpy as np
import z3

from . import sym
from .sym import S, SB, SI

from tensornetwork.backends import backend_factory as _bf
from tensornetwork.backends.numpy.numpy_backend import NumPyBackend


class SymBackend(NumPyBackend):
    """numpy back-end whose `svd` is the exact, non-truncating factorisation
    M = M.1.I (or I.1.M).  Contract assumed of LAPACK SVD: u.diag(s).vh = M with
    no singular value discarded (eps -> 0)."""

    def svd(self, tensor, pivot_axis=-1, max_singular_values=None,
            max_truncation_error=None, relative=False):
        left = tensor.shape[:pivot_axis]
        right = tensor.shape[pivot_axis:]
        L = int(np.prod(left))
        R = int(np.prod(right))
        m = np.reshape(tensor, (L, R))
        if L >= R:
            u = m
            vh = sym.obj_eye(R)
            k = R
        else:
            vh = m
            u = sym.obj_eye(L)
            k = L
        s = np.empty((k,), dtype=object)
        for i in range(k):
            s[i] = S(1)
        return (np.reshape(u, list(left) + [k]), s,
                np.reshape(vh, [k] + list(right)), s[k:])

    def diagflat(self, tensor, k=0):
        n = tensor.shape[0]
        out = sym.obj_zeros((n, n))
        for i in range(n):
            out[i, i] = tensor[i]
        return out

    def convert_to_tensor(self, tensor):
        return np.asarray(tensor)

    def sqrt(self, tensor):
        # only ever applied to the stub's singular values (all 1)
        out = np.empty(tensor.shape, dtype=object)
        for idx in np.ndindex(*tensor.shape):
            v = S.of(tensor[idx])
            if not (v.is_concrete() and v.im == 0 and v.re >= 0):
                raise TypeError("sqrt of symbolic")
            r = Fraction(float(v.re) ** 0.5).limit_denominator(10**6)
            if r * r != v.re:
                raise TypeError("sqrt of non-square %s" % v.re)
            out[idx] = S(r)
        return out

    def inv(self, matrix):
        # only identity-like matrices (stub lambdas) are ever inverted
        n = matrix.shape[0]
        for i in range(n):
            for j in range(n):
                v = S.of(matrix[i, j])
                if not (v.is_concrete() and v == (1 if i == j else 0)):
                    raise TypeError("inv of non-identity symbolic matrix")
        return matrix


def stub_scipy_svd(theta, *a, **kw):
    """stand-in for scipy.linalg.svd(full_matrices=False): exact M = M.1.I"""
    L, R = theta.shape
    if L >= R:
        return theta, np.array([S(1)] * R, dtype=object), sym.obj_eye(R)
    return sym.obj_eye(L), np.array([S(1)] * L, dtype=object), theta


class NpProxy(types.ModuleType):
    """module-level `np` replacement: forwards to numpy except for the handful
    of functions that refuse object arrays / must stay symbolic."""

    def __init__(self, overrides=None):
        super().__init__("numpy_proxy")
        self.__dict__["_ov"] = dict(DEFAULT_NP_OVERRIDES)
        if overrides:
            self.__dict__["_ov"].update(overrides)

    def __getattr__(self, name):
        ov = self.__dict__["_ov"]
        if name in ov:
            return ov[name]
        return getattr(np, name)


def _is_sym(x):
    if isinstance(x, (S, SI, SB)):
        return True
    if isinstance(x, np.ndarray) and x.dtype == object:
        return True
    if isinstance(x, (list, tuple)):
        return any(_is_sym(y) for y in x)
    return False


def _p_zeros(shape, dtype=None, **kw):
    if dtype in (None, float, int, np.float64, np.int64, "i", "float64", bool):
        return np.zeros(shape, dtype=dtype, **kw)
    return sym.obj_zeros(shape)


def _p_empty(shape, dtype=None, **kw):
    if dtype in (None, float, int, np.float64, np.int64, bool):
        return np.empty(shape, dtype=dtype, **kw)
    return sym.obj_zeros(shape)


def _p_ones(shape, dtype=None, **kw):
    if dtype in (None, float, int, np.float64, np.int64, bool):
        return np.ones(shape, dtype=dtype, **kw)
    out = sym.obj_zeros(shape)
    for idx in np.ndindex(*out.shape):
        out[idx] = S(1)
    return out


def _p_exp(x):
    if not _is_sym(x):
        return np.exp(x)
    if isinstance(x, np.ndarray):
        out = np.empty(x.shape, dtype=object)
        for idx in np.ndindex(*x.shape):
            out[idx] = sym.sym_exp(x[idx])
        return out
    return sym.sym_exp(x)


def _p_round(x, decimals=0):
    if not _is_sym(x):
        return np.round(x, decimals)
    if isinstance(x, np.ndarray):
        out = np.empty(x.shape, dtype=object)
        for idx in np.ndindex(*x.shape):
            out[idx] = sym_round(x[idx])
        return out
    return sym_round(x)


def sym_round(x):
    """nearest integer as SI; ties are excluded by precondition (assume), real model"""
    if isinstance(x, SI):
        return x
    x = S.of(x)
    if x.is_concrete():
        return int(np.round(float(x.re)))
    assert sym._isz(x.im)
    n = z3.FreshInt("rnd")
    e = sym.zr(x.re)
    sym.assume(z3.And(z3.ToReal(n) - z3.RealVal("1/2") < e, e < z3.ToReal(n) + z3.RealVal("1/2")))
    return SI(n, -64, 64)


def sym_floor(x):
    if isinstance(x, SI):
        return x
    x = S.of(x)
    if x.is_concrete():
        return int(np.floor(float(x.re)))
    n = z3.FreshInt("flr")
    e = sym.zr(x.re)
    sym.assume(z3.And(z3.ToReal(n) <= e, e < z3.ToReal(n) + 1))
    return SI(n, -64, 64)


def sym_trunc(x):
    """int(): truncation towards zero"""
    if isinstance(x, SI):
        return x
    x = S.of(x)
    if x.is_concrete():
        return int(float(x.re))
    n = z3.FreshInt("trc")
    e = sym.zr(x.re)
    nr = z3.ToReal(n)
    sym.assume(z3.Or(z3.And(e >= 0, nr <= e, e < nr + 1), z3.And(e < 0, nr - 1 < e, e <= nr)))
    return SI(n, -64, 64)


def _p_floor(x):
    if not _is_sym(x):
        return np.floor(x)
    if isinstance(x, np.ndarray):
        out = np.empty(x.shape, dtype=object)
        for idx in np.ndindex(*x.shape):
            out[idx] = sym_floor(x[idx])
        return out
    return sym_floor(x)


def _p_ceil(x):
    if not _is_sym(x):
        return np.ceil(x)
    f = lambda v: -sym_floor(-S.of(v)) if not isinstance(v, SI) else v
    if isinstance(x, np.ndarray):
        out = np.empty(x.shape, dtype=object)
        for idx in np.ndindex(*x.shape):
            out[idx] = f(x[idx])
        return out
    return f(x)


def _p_arange(*args, **kw):
    """np.arange with symbolic integer bounds: bounded concretisation (path forking)"""
    conc = []
    for a in args:
        if isinstance(a, SI):
            conc.append(int(a))
        elif isinstance(a, S) and a.is_concrete():
            conc.append(float(a))
        else:
            conc.append(a)
    return np.arange(*conc, **kw)


def _p_allclose(a, b, *args, **kw):
    if not (_is_sym(a) or _is_sym(b)):
        return np.allclose(a, b, *args, **kw)
    a = np.asarray(a, dtype=object)
    b = np.asarray(b, dtype=object)
    a, b = np.broadcast_arrays(a, b)
    ds = sym.neq_terms(a, b)
    if not ds:
        return True
    return bool(SB(z3.Not(z3.Or(*ds))))


def _p_real(x):
    if not _is_sym(x):
        return np.real(x)
    if isinstance(x, np.ndarray):
        out = np.empty(x.shape, dtype=object)
        for idx in np.ndindex(*x.shape):
            out[idx] = S.of(x[idx]).real
        return out
    return S.of(x).real


def _p_isnan(x):
    if not _is_sym(x):
        return np.isnan(x)
    if isinstance(x, np.ndarray):
        out = np.zeros(x.shape, dtype=bool)
        for idx in np.ndindex(*x.shape):
            v = x[idx]
            out[idx] = isinstance(v, float) and v != v
        return out
    return isinstance(x, float) and x != x


DEFAULT_NP_OVERRIDES = {
    "zeros": _p_zeros, "empty": _p_empty, "ones": _p_ones, "exp": _p_exp,
    "round": _p_round, "allclose": _p_allclose, "real": _p_real, "isnan": _p_isnan, "floor": _p_floor, "ceil": _p_ceil, "arange": _p_arange,
}

_DTYPE_NAMES = ("NpDtype", "NpDtypeReal")


@contextlib.contextmanager
def symbolic_env(np_proxy_modules=(), extra=None, noconj=False):
    """Install all interposition; restore everything on exit.

    np_proxy_modules: names of oqupy modules whose global `np` becomes an NpProxy
    extra: dict  "module.attr" -> replacement  (module-global shadowing)
    """
    import oqupy  # noqa: F401  (makes sure sub-modules are imported)
    import oqupy.backends.tempo_backend as tb
    import oqupy.backends.pt_tempo_backend as ptb
    import oqupy.backends.pt_tebd_backend  # noqa: F401
    import oqupy.mps_mpo  # noqa: F401
    saved = []

    def setattr_saved(mod, name, val):
        saved.append((mod, name, mod.__dict__.get(name, _MISSING)))
        setattr(mod, name, val)

    old_backend = _bf._INSTANTIATED_BACKENDS.get("numpy", _MISSING)
    _bf._INSTANTIATED_BACKENDS["numpy"] = SymBackend()
    for mname, mod in list(sys.modules.items()):
        if mod is None or not (mname == "oqupy" or mname.startswith("oqupy.")):
            continue
        for n in _DTYPE_NAMES:
            if n in mod.__dict__ and mname != "oqupy.config":
                setattr_saved(mod, n, object)
    # names imported `from numpy import zeros, exp` in the back-ends
    for mod in (tb, ptb):
        if "zeros" in mod.__dict__:
            setattr_saved(mod, "zeros", _p_zeros)
    setattr_saved(tb, "svd", stub_scipy_svd)
    setattr_saved(tb, "exp", _p_exp)
    for mname in np_proxy_modules:
        mod = sys.modules[mname]
        setattr_saved(mod, "np", NpProxy())
    if extra:
        for k, v in extra.items():
            mname, attr = k.rsplit(".", 1)
            __import__(mname)
            setattr_saved(sys.modules[mname], attr, v)
    old_noconj = S.NOCONJ
    S.NOCONJ = noconj
    try:
        yield
    finally:
        S.NOCONJ = old_noconj
        for mod, name, val in reversed(saved):
            if val is _MISSING:
                try:
                    delattr(mod, name)
                except AttributeError:
                    pass
            else:
                setattr(mod, name, val)
        if old_backend is _MISSING:
            _bf._INSTANTIATED_BACKENDS.pop("numpy", None)
        else:
            _bf._INSTANTIATED_BACKENDS["numpy"] = old_backend


@contextlib.contextmanager
def patched(extra):
    """plain module-global shadowing (used in real mode too)"""
    saved = []
    try:
        for k, v in extra.items():
            mname, attr = k.rsplit(".", 1)
            __import__(mname)
            mod = sys.modules[mname]
            saved.append((mod, attr, mod.__dict__.get(attr, _MISSING)))
            setattr(mod, attr, v)
        yield
    finally:
        for mod, name, val in reversed(saved):
            if val is _MISSING:
                try:
                    delattr(mod, name)
                except AttributeError:
                    pass
            else:
                setattr(mod, name, val)


class _Missing:
    pass


_MISSING = _Missing()


# -- builtins shadowing (module globals), DESIGN 2.1(2) ----------------------------
_isinstance = isinstance


def sym_isinstance(x, t):
    """SI counts as int, real S as float (complex S as complex)"""
    ts = t if _isinstance(t, tuple) else (t,)
    # the module may have `int`/`float`/`complex` shadowed by our functions: map them back
    ts = tuple({sym_int: int, sym_float: float, sym_complex: complex}.get(u, u) if callable(u) and not _isinstance(u, type) else u for u in ts)
    t = ts
    if _isinstance(x, SI):
        return int in ts or np.integer in ts
    if _isinstance(x, S):
        if sym._isz(x.im):
            return float in ts or complex in ts
        return complex in ts
    if _isinstance(x, SB):
        return bool in ts
    return _isinstance(x, t)


def sym_int(x, *a):
    if _isinstance(x, SI):
        return x
    if _isinstance(x, S):
        return sym_trunc(x)
    return int(x, *a)


def sym_float(x):
    if _isinstance(x, (S, SI)):
        return S.of(x)
    return float(x)


def sym_complex(x, *a):
    if _isinstance(x, (S, SI)):
        return S.of(x)
    return complex(x, *a)


def sym_max(*a, **kw):
    if len(a) == 1:
        a = tuple(a[0])
    if not any(_isinstance(v, (S, SI)) for v in a):
        return max(*a, **kw) if len(a) > 1 else a[0]
    m = a[0]
    for v in a[1:]:
        if v > m:        # forks
            m = v
    return m


def sym_min(*a, **kw):
    if len(a) == 1:
        a = tuple(a[0])
    if not any(_isinstance(v, (S, SI)) for v in a):
        return min(*a, **kw) if len(a) > 1 else a[0]
    m = a[0]
    for v in a[1:]:
        if v < m:
            m = v
    return m


BUILTIN_SHADOWS = {"isinstance": sym_isinstance, "int": sym_int, "float": sym_float, "complex": sym_complex,
                   "max": sym_max, "min": sym_min}


def shadow_builtins(module_name, names=("isinstance", "int", "float")):
    """-> dict for symbolic_env(extra=...)"""
    return {"%s.%s" % (module_name, n): BUILTIN_SHADOWS[n] for n in names}
