"""`ST`: a symbolic scalar (subclass of vf.sym.S) that can be combined with numpy arrays.

vf.sym.S announces `__array_priority__` (so numpy defers `array op S` to S) but returns
NotImplemented for array operands, which makes expressions of the time-grid code such as
`start_time + np.arange(n)*dt` or `(control_times - start_time)/dt` raise TypeError.  ST handles
array operands element-wise (object arrays) and is closed under scalar arithmetic, so the times,
time steps and shifts of the C13/C15 harnesses stay usable wherever the real code mixes them with arrays."""
import numpy as np

from .sym import S, SI


def _wrap(r):
    if type(r) is S:
        return ST(r.re, r.im)
    return r


def _each(arr, f):
    out = np.empty(arr.shape, dtype=object)
    for idx in np.ndindex(*arr.shape):
        out[idx] = f(arr[idx])
    return out


def _is_arr(o):
    return isinstance(o, np.ndarray) and o.shape != ()


class ST(S):
    __slots__ = ()

    @staticmethod
    def of(x):
        if isinstance(x, ST):
            return x
        return _wrap(S.of(x))

    def __add__(self, o):
        if _is_arr(o):
            return _each(o, lambda x: self + x)
        return _wrap(S.__add__(self, o))
    __radd__ = __add__

    def __sub__(self, o):
        if _is_arr(o):
            return _each(o, lambda x: self - x)
        return _wrap(S.__sub__(self, o))

    def __rsub__(self, o):
        if _is_arr(o):
            return _each(o, lambda x: x - self)
        return _wrap(S.__rsub__(self, o))

    def __mul__(self, o):
        if _is_arr(o):
            return _each(o, lambda x: self * x)
        return _wrap(S.__mul__(self, o))
    __rmul__ = __mul__

    def __truediv__(self, o):
        if _is_arr(o):
            return _each(o, lambda x: self / x)
        return _wrap(S.__truediv__(self, o))

    def __rtruediv__(self, o):
        if _is_arr(o):
            return _each(o, lambda x: x / self)
        return _wrap(S.__rtruediv__(self, o))

    def __neg__(self):
        return _wrap(S.__neg__(self))

    __hash__ = S.__hash__


def st(x):
    """harness input -> array-capable scalar (floats of the real mode pass through)"""
    if isinstance(x, (S, SI)):
        return ST.of(x)
    return x


class exact_floats:
    """context manager: float constants met in the code are taken as the exact dyadic rational they
    are (vf.sym.LIFT_FLOATS = False).  Needed where the code under test adds a small tolerance such as
    1e-8: the default lifting rule maps |x| < 1e-7 to 0 or to the contradictory symbol sqrt(0) > 0."""

    def __enter__(self):
        from . import sym
        self.old = sym.LIFT_FLOATS
        sym.LIFT_FLOATS = False

    def __exit__(self, *a):
        from . import sym
        sym.LIFT_FLOATS = self.old


# --------------------------------------------------------------------------
# opaque functions as atoms (user callables, expm, quadrature) -- C15
# --------------------------------------------------------------------------
import z3
from fractions import Fraction
from . import sym as _sym


SIMPLIFY_KEYS = False     # purely syntactic keys: equality of arguments is left to the solver (congruence axioms)


def _key(x):
    x = S.of(x)
    out = []
    for p in (x.re, x.im):
        if isinstance(p, Fraction):
            out.append(str(p))
        elif SIMPLIFY_KEYS:
            out.append(z3.simplify(_sym.zr(p), som=True).sexpr())
        else:
            out.append(_sym.zr(p).sexpr())
    return tuple(out)


class Opaque:
    """Uninterpreted function realised by atoms: one fresh constant (vector) per syntactically distinct
    argument tuple; `congruence_axioms` (added by the harness as side conditions of every query) state
    args_i == args_j -> value_i == value_j, so the atoms behave exactly like a z3 uninterpreted function
    while the queries stay in QF_NRA.  Only congruence is assumed (a proof can only use that the code
    passed the same arguments; a refutation is replayed with `concrete`).
    `concrete(*args)` is used when every argument is concrete (frac / real modes and the constructor
    probes of the real code)."""

    def __init__(self, name, concrete, shape=(), cplx=False):
        self.name, self.concrete, self.shape, self.cplx = name, concrete, shape, cplx
        self.table = {}
        self.keys_args = []     # argument tuple of each table entry (for the congruence axioms)
        self.values = []
        self.calls = []         # argument tuples in call order

    def _symbolic(self, a):
        if isinstance(a, np.ndarray):
            return a.dtype == object and any(not S.of(v).is_concrete() for v in a.flat)
        return isinstance(a, (S, SI)) and not S.of(a).is_concrete()

    def __call__(self, *args):
        self.calls.append(args)
        if not any(self._symbolic(a) for a in args):
            return self.concrete(*args)
        key = []
        for a in args:
            if isinstance(a, np.ndarray):
                key.append(tuple(_key(v) for v in a.flat))
            else:
                key.append(_key(a))
        key = tuple(key)
        if key not in self.table:
            k = len(self.table)

            def atom(suffix):
                n = "%s!%d%s" % (self.name, k, suffix)
                return S(z3.Real(n + "r"), z3.Real(n + "i") if self.cplx else Fraction(0))
            if self.shape == ():
                self.table[key] = atom("")
            else:
                out = np.empty(self.shape, dtype=object)
                for idx in np.ndindex(*self.shape):
                    out[idx] = atom("_" + "_".join(map(str, idx)))
                self.table[key] = out
            self.keys_args.append(args)
            self.values.append(self.table[key])
        v = self.table[key]
        return v.copy() if isinstance(v, np.ndarray) else v


def _eq_terms(x, y):
    x, y = S.of(x), S.of(y)
    out = []
    for p, q in ((x.re, y.re), (x.im, y.im)):
        if isinstance(p, Fraction) and isinstance(q, Fraction):
            if p != q:
                return None
        else:
            out.append(_sym.zr(p) == _sym.zr(q))
    return out


def congruence_axioms(op):
    """args_i == args_j  ->  value_i == value_j for every pair of table entries of an Opaque.
    Makes the atoms a genuine function of their arguments: proofs may use semantic (not only syntactic)
    equality of arguments, and a counterexample must make some ARGUMENT differ (so that it can be replayed
    with a concrete function)."""
    items = list(zip(op.keys_args, op.values))
    axs = []
    for i in range(len(items)):
        for j in range(i + 1, len(items)):
            (ai, vi), (aj, vj) = items[i], items[j]
            conds, impossible = [], False
            for p, q in zip(ai, aj):
                pf = list(p.flat) if isinstance(p, np.ndarray) else [p]
                qf = list(q.flat) if isinstance(q, np.ndarray) else [q]
                if len(pf) != len(qf):
                    impossible = True
                    break
                for u, v in zip(pf, qf):
                    e = _eq_terms(u, v)
                    if e is None:
                        impossible = True
                        break
                    conds += e
                if impossible:
                    break
            if impossible:
                continue
            vf_ = list(vi.flat) if isinstance(vi, np.ndarray) else [vi]
            wf_ = list(vj.flat) if isinstance(vj, np.ndarray) else [vj]
            concl = []
            for u, v in zip(vf_, wf_):
                concl += _eq_terms(u, v) or []
            axs.append(z3.Implies(z3.And(*conds) if conds else z3.BoolVal(True), z3.And(*concl)))
    return axs


# --------------------------------------------------------------------------
# exceptions raised by the library on valid (assumption-respecting) inputs
# --------------------------------------------------------------------------
def guard_library_exceptions(run):
    """decorator for Case.run: an ordinary exception whose innermost non-library frame lies in the repository
    (an assert of the library failing, a KeyError in its bookkeeping ...) on a path of the symbolic run is turned
    into the obligation 'no exception on valid input' for THAT path, so that the solver model of the path is
    replayed on the real code (which raises too, or shows different values) instead of ending as a harness error.
    Exceptions from harness/engine frames are re-raised (harness errors stay harness errors)."""
    import functools
    import traceback

    @functools.wraps(run)
    def wrapper(self, inp):
        from . import core
        try:
            return run(self, inp)
        except core.PreconditionFailed:
            raise
        except Exception as e:  # noqa  (vf.sym control-flow exceptions derive from BaseException)
            tb = traceback.extract_tb(e.__traceback__)
            last_own = max([i for i, f in enumerate(tb) if f.filename.startswith(core.ROOT)] or [-1])
            last_repo = max([i for i, f in enumerate(tb) if f.filename.startswith(core.REPO + "/oqupy")] or [-1])
            if last_repo <= last_own:
                raise
            info = "".join(traceback.format_list(tb[-3:]))[-700:] + "%s: %s" % (type(e).__name__, str(e)[:200])
            cond = False
            if inp.mode == "sym":
                # ask the solver for a generic point of the path (non-zero start / shift): the symbolic run may raise
                # for reasons that vanish at degenerate values (e.g. a dictionary key that changed by start_time = 0)
                gen = []
                for n, (kind, lo, hi) in inp.decl.items():
                    if kind == "real" and n in ("startr", "taur"):
                        gen.append(z3.Real(n) == 0)
                if "startr" in inp.decl and "taur" in inp.decl:
                    gen.append(z3.Real("startr") + z3.Real("taur") == 0)
                cond = _sym.SB(z3.Or(*gen)) if gen else False
            return [core.Ob.holds("no exception raised by the library on valid input", cond,
                                  key="exception:%s" % type(e).__name__, info=info)]
    return wrapper
