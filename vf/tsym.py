"""`ST`: a symbolic scalar (subclass of vf.sym.S) that can be combined with numpy arrays.

vf.sym.S announces `__array_priority__` (so numpy defers `array op S` to S) but returns
NotImplemented for array operands, which makes expressions of the time-grid code such as
`start_time + np.arange(n)*dt` or `(control_times - start_time)/dt` raise TypeError.  ST handles
array operands element-wise (object arrays) and is closed under scalar arithmetic, so the times,
time steps and shifts of the C13/C15 harnesses stay usable wherever the real code mixes them with arrays."""
import numpy as np

from .sym import S, SI


def _wrap(r):
    if type(r) is S:
        return ST(r.re, r.im)
    return r


def _each(arr, f):
    out = np.empty(arr.shape, dtype=object)
    for idx in np.ndindex(*arr.shape):
        out[idx] = f(arr[idx])
    return out


def _is_arr(o):
    return isinstance(o, np.ndarray) and o.shape != ()


class ST(S):
    __slots__ = ()

    @staticmethod
    def of(x):
        if isinstance(x, ST):
            return x
        return _wrap(S.of(x))

    def __add__(self, o):
        if _is_arr(o):
            return _each(o, lambda x: self + x)
        return _wrap(S.__add__(self, o))
    __radd__ = __add__

    def __sub__(self, o):
        if _is_arr(o):
            return _each(o, lambda x: self - x)
        return _wrap(S.__sub__(self, o))

    def __rsub__(self, o):
        if _is_arr(o):
            return _each(o, lambda x: x - self)
        return _wrap(S.__rsub__(self, o))

    def __mul__(self, o):
        if _is_arr(o):
            return _each(o, lambda x: self * x)
        return _wrap(S.__mul__(self, o))
    __rmul__ = __mul__

    def __truediv__(self, o):
        if _is_arr(o):
            return _each(o, lambda x: self / x)
        return _wrap(S.__truediv__(self, o))

    def __rtruediv__(self, o):
        if _is_arr(o):
            return _each(o, lambda x: x / self)
        return _wrap(S.__rtruediv__(self, o))

    def __neg__(self):
        return _wrap(S.__neg__(self))

    __hash__ = S.__hash__


def st(x):
    """harness input -> array-capable scalar (floats of the real mode pass through)"""
    if isinstance(x, (S, SI)):
        return ST.of(x)
    return x
