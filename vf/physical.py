"""User-level API drivers: the real Tempo / PtTempo / Bath / TempoParameters classes with
only three stubs: bath correlation integrals (one symbol per requested cell), system
propagators (symbolic matrices), SVD (exact, non-truncating)."""
import numpy as np
from fractions import Fraction

import oqupy
from oqupy.bath_correlations import BaseCorrelations

from .sym import S
from . import lib


class SymCorrelations(BaseCorrelations):
    """`correlation_2d_integral` returns one complex symbol per requested cell
    (shape, time_1, time_2).  The rectangle of extent delta is tied to the square at the
    same position (C12/H1(a) proves the real correlations objects do that)."""

    def __init__(self, inp, name="eta", cplx=True):
        self.inp = inp
        self.nm = name
        self.cplx = cplx
        self.requests = []
        self.cache = {}
        super().__init__(name="sym-corr")

    def correlation(self, tau, epsrel=None, subdiv_limit=None):
        raise NotImplementedError

    def correlation_2d_integral(self, delta, time_1, time_2=None, shape="square", epsrel=None, subdiv_limit=None,
                                matsubara=False):
        self.requests.append((shape, time_1, time_2, delta))
        k1 = int(round(float(time_1) / float(delta) * 1000))
        if shape == "rectangle":
            ext = int(round((float(time_2) - float(time_1)) / float(delta) * 1000))
            if ext == 1000:
                key = ("square", k1, None)
            else:
                key = ("rectangle", k1, ext)
        elif shape == "upper-triangle":
            key = ("triangle", 0, None)
        else:
            key = ("square", k1, None)
        if key not in self.cache:
            self.inp.scale = Fraction(1, 4)
            nm = "%s_%s_%d%s" % (self.nm, key[0][:3], key[1], "" if key[2] is None else "_%d" % key[2])
            self.cache[key] = self.inp.cplx(nm) if self.cplx else self.inp.real(nm)
            self.inp.scale = 1
        return self.cache[key]


_SIGMA = {
    "sz": np.array([[1.0, 0.0], [0.0, -1.0]]),
    "id": np.array([[1.0, 0.0], [0.0, 1.0]]),
    "sx": np.array([[0.0, 1.0], [1.0, 0.0]]),
    "half": np.array([[0.5, 0.0], [0.0, -0.5]]),
    "sy": np.array([[0.0, -1.0j], [1.0j, 0.0]]),
    "syz": np.array([[0.6, -0.8j], [0.8j, -0.6]]),      # complex eigenvectors, eigenvalues +-1
}


def coupling_matrix(name):
    if isinstance(name, str):
        return _SIGMA[name]
    return np.asarray(name)


def bath_for(coupling, corr):
    """real Bath (real diagonalisation / degeneracy maps) on a CONCRETE coupling operator"""
    import oqupy.bath as bathmod
    # Bath.__init__ coerces with NpDtype; the coupling operator is concrete: keep it complex
    saved = bathmod.NpDtype
    bathmod.NpDtype = np.complex128
    try:
        return oqupy.Bath(coupling_matrix(coupling), corr)
    finally:
        bathmod.NpDtype = saved


def parameters(dt, K, tau, epsrel=lib.EPS_REAL):
    return oqupy.TempoParameters(dt=dt, epsrel=epsrel, dkmax=K, add_correlation_time=tau)


def tempo_states(bath, params, system, rho0, N, start_time=0.0, unique=False):
    """real Tempo(...).compute(end_time) -> (times, states)"""
    t = oqupy.Tempo(system, bath, params, rho0, start_time, unique=unique)
    dyn = t.compute(start_time + N * params.dt, progress_type="silent")
    return list(dyn._times), list(dyn._states), t


def pt_tempo_process_tensor(bath, params, N, start_time=0.0, unique=False):
    """real PtTempo(...).get_process_tensor()"""
    p = oqupy.PtTempo(bath, start_time, start_time + N * params.dt, params, unique=unique)
    return p.get_process_tensor(progress_type="silent"), p
