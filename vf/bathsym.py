"""Symbolic helpers for oqupy.bath_correlations / oqupy.bath (C12, C20).

* `SP`            S with negative integer powers (PowerLawSD: cutoff ** (1 - zeta))
* `bc_env`        symbolic_env kwargs that shadow `np`, `float`, `complex`, `integrate` in
                  oqupy.bath_correlations (and friends) -- all interposition from the harness side
* `ExpGens`       np.exp over integer combinations of declared base arguments -> monomials in
                  generator symbols with their algebraic relations (QF_NRA, no UF needed);
                  every decomposition is *verified by the solver* (validity query), random points
                  are only used to guess the integer coefficients
* quadrature stand-ins: `PointQuad` (evaluation functional at one frequency, records the
                  integrand), `UFQuad` (uninterpreted function of the integrand's value at one
                  generic symbolic frequency and of the limits), `DblRecorder` / `UFDblQuad`
* `m_exp/m_cos/m_sin`  mode-agnostic transcendental helpers for oracles
"""
import cmath
import itertools
import math
import random
import types
from fractions import Fraction

import numpy as np
import z3

from . import sym
from .sym import S, SI, SB, zr
from .env import NpProxy, _is_sym, _p_real

R = z3.RealSort()
INF = float("inf")


# --------------------------------------------------------------------------
# scalars
# --------------------------------------------------------------------------
class SP(S):
    """S that also supports negative integer powers (1/x**k)."""
    __slots__ = ()

    def __pow__(self, k):
        kk = k
        if isinstance(kk, S) and kk.is_concrete():
            kk = kk.re
        if isinstance(kk, (float, Fraction)) and Fraction(kk).denominator == 1:
            kk = int(kk)
        if isinstance(kk, (int, np.integer)) and -12 <= int(kk) < 0:
            return S(1) / S.__pow__(S(self.re, self.im), -int(kk))
        return S.__pow__(self, k)


def sp(x):
    x = S.of(x)
    return SP(x.re, x.im)


def unwrap(x):
    if isinstance(x, np.ndarray) and x.shape == ():
        return x.item()
    return x


def bs_float(x):
    """`float` as seen by the module under analysis: symbolic reals stay symbolic"""
    x = unwrap(x)
    if isinstance(x, SI):
        return S.of(x)
    if isinstance(x, S):
        if not sym._isz(x.im):
            raise TypeError("float() argument must be a real number, not complex")
        return x
    return float(x)


def bs_complex(x, *a):
    x = unwrap(x)
    if isinstance(x, (S, SI)):
        return S.of(x)
    return complex(x, *a)


def _map(fn, x):
    if isinstance(x, np.ndarray) and x.shape != ():
        out = np.empty(x.shape, dtype=object)
        for idx in np.ndindex(*x.shape):
            out[idx] = fn(x[idx])
        return out
    return fn(unwrap(x))


def _p_imag(x):
    if not _is_sym(x):
        return np.imag(x)
    return _map(lambda v: S.of(v).imag, x)


def _p_real2(x):
    if not _is_sym(x):
        return np.real(x)
    return _map(lambda v: S.of(v).real, x)


def _p_heaviside(x, h0):
    if not _is_sym(x):
        return np.heaviside(x, h0)

    def one(v):
        v = S.of(v)
        if v > 0:          # forks on a symbolic argument
            return S(1)
        if v < 0:
            return S(0)
        return S.of(h0)
    return _map(one, x)


class _FInfo:
    def __init__(self, t):
        fi = np.finfo(float)          # `float` may be shadowed in the module under analysis
        # exact dyadic value: the generic float lifting would round 2**-52 to 0
        self.eps = S(Fraction(float(fi.eps)))
        self.max = float(fi.max)
        self.tiny = S(Fraction(float(fi.tiny)))


# --------------------------------------------------------------------------
# exp
# --------------------------------------------------------------------------
_EXPR = z3.Function("expR", R, R)          # generic exp of a real argument (congruence only)
_HANDLER = [None]


def generic_exp(x):
    x = S.of(unwrap(x))
    if x.is_concrete():
        return sym.sym_exp(x)
    if sym._isz(x.im):
        return S(_EXPR(z3.simplify(zr(x.re))))
    return sym.sym_exp(x)


def _p_exp(x):
    if not _is_sym(x):
        return np.exp(x)
    h = _HANDLER[0]
    return _map(h.exp if h is not None else generic_exp, x)


def _ipow(base, n, inv=None):
    out = S(1)
    if n >= 0:
        for _ in range(n):
            out = out * base
        return out
    b = inv if inv is not None else S(1) / base
    for _ in range(-n):
        out = out * b
    return out


class ExpGens:
    """exp(x + i y) with x = sum n_i g_i, y = sum m_j th_j (integer n, m in [-rng, rng]) over
    declared real bases g_i (symbol e_i = exp(g_i) > 0, e_i < 1 if g_i < 0 is known) and phase bases
    th_j (symbols c_j, s_j with c^2 + s^2 = 1) becomes prod e_i^n_i prod (c_j + i s_j)^m_j.
    Anything else falls back to an uninterpreted exp (congruence only)."""

    def __init__(self, inp, rng=3):
        self.inp = inp
        self.rng = rng
        self.rb = []      # (z3 g, z3 e)
        self.ib = []      # (z3 th, z3 c, z3 s)
        self.memo = {}
        # input bounds declared so far (linear facts such as T >= 1/4): the only side conditions the
        # decomposition queries need (definedness of divisions); generator axioms / path condition are
        # deliberately left out (a decomposition valid under fewer assumptions is valid on the path)
        self.base_side = list(inp.assumptions)
        self.fallbacks = 0
        self.decomposed = 0
        self.failed = []          # np.exp arguments (S) that are no integer combination of the generators

    # declarations (mode-agnostic: return symbols in sym mode, numbers otherwise)
    def decay(self, name, g, sign=None):
        """returns exp(g) for a real g; sign = -1 / +1 if the harness knows g < 0 / g > 0 from its
        input bounds (then e < 1 / e > 1 is added; checked by the solver once)"""
        if self.inp.mode != "sym":
            return m_exp(self.inp, g)
        g = S.of(g)
        gz = zr(g.re)
        e = z3.Real("E_" + name)
        if sign is not None:
            s = z3.Solver()
            s.set("timeout", 20000)
            s.add(*self.base_side)
            s.add(*self._div_side())
            s.add(gz >= 0 if sign < 0 else gz <= 0)
            if s.check() != z3.unsat:
                raise sym.Inconclusive("sign of generator argument %s not implied by the input bounds" % name)
        ax = e > 0 if sign is None else (z3.And(e > 0, e < 1) if sign < 0 else e > 1)
        self.inp.assumptions.append(ax)
        self.rb.append((gz, e))
        return S(e)

    def phase(self, name, th):
        """returns (cos th, sin th) for a real th"""
        if self.inp.mode != "sym":
            return m_cos(self.inp, th), m_sin(self.inp, th)
        th = S.of(th)
        tz = zr(th.re)
        c, s = z3.Real("C_" + name), z3.Real("Sn_" + name)
        self.inp.assumptions.append(c * c + s * s == 1)
        self.ib.append((tz, c, s))
        return S(c), S(s)

    # quotient variables of vf.sym (q with q*b == a) ------------------------------
    @staticmethod
    def _div_side():
        return list(sym.div_axioms()) if hasattr(sym, "div_axioms") else []

    @staticmethod
    def _expand_divs(expr):
        """replace vf.sym's quotient variables by true quotients (only for the numeric guess)"""
        divs = getattr(sym, "_DIVS", {})
        if not divs:
            return expr
        sub = []
        for q, ax in divs.values():
            eq = ax.arg(0)                      # q*b == a   (either orientation)
            l, r = eq.arg(0), eq.arg(1)
            prod, a = (l, r) if (l.num_args() == 2 and (l.arg(0).eq(q) or l.arg(1).eq(q))) else (r, l)
            assert prod.num_args() == 2 and z3.is_mul(prod), "unexpected quotient axiom %s" % ax
            b = prod.arg(1) if prod.arg(0).eq(q) else prod.arg(0)
            sub.append((q, a / b))
        for _ in range(6):
            new = z3.substitute(expr, *sub)
            if new.eq(expr):
                break
            expr = new
        return expr

    def __enter__(self):
        self._old = _HANDLER[0]
        _HANDLER[0] = self if self.inp.mode == "sym" else None
        return self

    def __exit__(self, *a):
        _HANDLER[0] = self._old

    # ------------------------------------------------------------------
    def _decomp(self, expr, bases):
        if isinstance(expr, Fraction):
            return [0] * len(bases) if expr == 0 else None
        if not bases:
            return None
        key = (expr.get_id(), len(bases))
        if key in self.memo and self.memo[key][0].eq(expr):     # keep expr alive: ids are reused after GC
            return self.memo[key][1]
        xexpr = self._expand_divs(expr)
        xbases = [self._expand_divs(b) for b in bases]
        vs = sym.free_vars(xexpr, *xbases)
        rnd = random.Random(12345)
        cands = list(itertools.product(range(-self.rng, self.rng + 1), repeat=len(bases)))
        for _ in range(3):
            sub = [(v, z3.RealVal(str(Fraction(rnd.randint(1, 9), rnd.randint(1, 7))))) for v in vs
                   if v.sort().kind() == z3.Z3_REAL_SORT]

            def val(t):
                r = z3.simplify(z3.substitute(t, *sub))
                if not z3.is_rational_value(r):
                    return None
                return Fraction(r.numerator_as_long(), r.denominator_as_long())
            ev = val(xexpr)
            bv = [val(b) for b in xbases]
            if ev is None or any(b is None for b in bv):
                cands = []
                break
            cands = [c for c in cands if sum(n * b for n, b in zip(c, bv)) == ev]
            if not cands:
                break
        out = None
        for c in cands[:2]:
            comb = sum((n * b for n, b in zip(c, bases)), z3.RealVal(0))
            s = z3.Solver()
            s.set("timeout", 10000)
            s.add(*self.base_side)
            s.add(*self._div_side())
            s.add(expr != comb)
            if s.check() == z3.unsat:        # the decomposition is valid for ALL values
                out = list(c)
                break
        self.memo[key] = (expr, out)
        return out

    def combination_formula(self, x):
        """z3 formula: the exp argument x IS an integer combination (coefficients in [-rng, rng]) of the
        declared generator arguments -- real part over the real bases, imaginary part over the phases"""
        x = S.of(x)

        def part(t, bases):
            t = zr(t)
            alts = []
            for c in itertools.product(range(-self.rng, self.rng + 1), repeat=len(bases)):
                comb = sum((n * b for n, b in zip(c, bases)), z3.RealVal(0))
                alts.append(t == comb)
            return z3.Or(*alts) if alts else t == 0
        return z3.And(part(x.re, [g for g, _ in self.rb]), part(x.im, [t for t, _, _ in self.ib]))

    def exp(self, x):
        x = S.of(unwrap(x))
        if x.is_concrete():
            return sym.sym_exp(x)
        re = self._decomp(x.re, [g for g, _ in self.rb])
        im = self._decomp(x.im, [t for t, _, _ in self.ib])
        if re is None or im is None:
            self.fallbacks += 1
            self.failed.append(x)
            return generic_exp(x)
        self.decomposed += 1
        out = S(1)
        for n, (g, e) in zip(re, self.rb):
            out = out * _ipow(S(e), n)
        for m, (t, c, s) in zip(im, self.ib):
            out = out * _ipow(S(c, s), m, inv=S(c, -s))
        return out


# mode-agnostic transcendental helpers for oracles --------------------------------
def _conc(inp, fn, x):
    if inp.mode == "real":
        return fn(float(x))
    x = S.of(x)
    return S.of(fn(float(x.re)))


def m_exp(inp, x):
    if inp.mode == "sym":
        return generic_exp(x)
    return _conc(inp, math.exp, x)


def m_cos(inp, x):
    return _conc(inp, math.cos, x)


def m_sin(inp, x):
    return _conc(inp, math.sin, x)


# --------------------------------------------------------------------------
# quadrature stand-ins (scipy.integrate replacement objects)
# --------------------------------------------------------------------------
class PointQuad:
    """`integrate.quad` := evaluation functional at the frequency w0 (a linear functional of the
    integrand, like the integral); records (value, a, b) of every call."""

    def __init__(self, w0):
        self.w0 = w0
        self.calls = []

    def quad(self, func, a=None, b=None, epsrel=None, limit=None, **kw):
        v = unwrap(func(self.w0))
        self.calls.append({"v": v, "a": a, "b": b, "epsrel": epsrel, "limit": limit})
        return (v, 0.0)


_Q = z3.Function("quad", R, R, R, R)
_QINF = z3.Function("quad_inf", R, R, R)
_DQ = z3.Function("dblquad", R, R, R, R, R, R)
_QT = z3.Function("quad_tol", R, R, R)


def _isinf(b):
    return isinstance(b, (float, np.floating)) and b == INF


class UFQuad:
    """`integrate.quad(f, a, b)` := Q(f(w*), a, b) with Q uninterpreted and w* one generic symbolic
    frequency: equal integrands and limits give equal quadratures, nothing else is assumed.
    In 'frac' mode Q is a fixed concrete function (injective enough for validation)."""

    def __init__(self, inp, wstar, tol_dependent=False):
        # tol_dependent: the result also depends (through an uninterpreted term) on epsrel and limit,
        # so that answers for different tolerances are distinguishable
        self.inp, self.w, self.tol = inp, wstar, tol_dependent
        self.calls = []

    def _tolterm(self, epsrel, limit):
        if not self.tol or epsrel is None or limit is None:
            return S(0)
        e = epsrel.re if isinstance(epsrel, S) else Fraction(float(epsrel))     # exact, no float lifting
        l = Fraction(int(limit))
        if self.inp.mode == "sym":
            return S(_QT(zr(e), zr(l)))
        return S(e * 4096 + l / 997)

    def quad(self, func, a=None, b=None, epsrel=None, limit=None, **kw):
        v = S.of(unwrap(func(self.w)))
        a_ = S.of(a)
        assert sym._isz(v.im) and sym._isz(a_.im)
        self.calls.append({"v": v, "a": a, "b": b, "epsrel": epsrel, "limit": limit})
        t = self._tolterm(epsrel, limit)
        if self.inp.mode == "sym":
            if _isinf(b):
                return (S(_QINF(zr(v.re), zr(a_.re))) + t, 0.0)
            return (S(_Q(zr(v.re), zr(a_.re), zr(S.of(b).re))) + t, 0.0)
        bb = S(Fraction(11, 3)) if _isinf(b) else S.of(b)
        return (v * (a_ + 3) + v * v * bb / 7 + bb / 5 + t, 0.0)

    def dblquad(self, func, a, b, gfun, hfun, epsrel=None, **kw):
        x, y = self.w, self.w / 3
        v = S.of(unwrap(func(y, x)))
        g, h = S.of(unwrap(gfun(x))), S.of(unwrap(hfun(x)))
        a_, b_ = S.of(a), S.of(b)
        if self.inp.mode == "sym":
            return (S(_DQ(*[zr(t.re) for t in (v, a_, b_, g, h)])), 0.0)
        return (v * (a_ + 3) + v * v * b_ / 7 + g / 5 + h * h / 3 + b_, 0.0)


class DblRecorder:
    """`integrate.dblquad` recorder: scipy contract  int_a^b dx int_{gfun(x)}^{hfun(x)} dy func(y, x)"""

    def __init__(self, x, y, rets):
        self.x, self.y, self.rets = x, y, list(rets)
        self.calls = []

    def dblquad(self, func, a, b, gfun, hfun, epsrel=None, **kw):
        self.calls.append({"a": a, "b": b, "g": unwrap(gfun(self.x)), "h": unwrap(hfun(self.x)),
                           "f": unwrap(func(self.y, self.x)), "epsrel": epsrel})
        return (self.rets[len(self.calls) - 1], 0.0)


# --------------------------------------------------------------------------
# environment
# --------------------------------------------------------------------------
BC = "oqupy.bath_correlations"


def bc_proxy():
    return NpProxy({"exp": _p_exp, "real": _p_real2, "imag": _p_imag, "heaviside": _p_heaviside,
                    "finfo": _FInfo})


def bc_env(integrate=None, more=None, noconj=False):
    """kwargs for symbolic_env / Case.env"""
    extra = {BC + ".np": bc_proxy(), BC + ".float": bs_float, BC + ".complex": bs_complex}
    if integrate is not None:
        extra[BC + ".integrate"] = integrate
    if more:
        extra.update(more)
    return {"extra": extra, "noconj": noconj}


class Late:
    """module attribute stand-in whose target is set per run (Case.env is built once per case,
    the stub object is created inside run())"""

    def __init__(self):
        self.__dict__["_t"] = None

    def set(self, t):
        self.__dict__["_t"] = t

    def __getattr__(self, n):
        t = self.__dict__["_t"]
        if t is None:
            import scipy.integrate
            return getattr(scipy.integrate, n)
        return getattr(t, n)
