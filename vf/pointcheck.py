"""Exact evaluation at rational points BEFORE any normaliser / solver call (sat side only).

A violated obligation is a polynomial NON-identity; expanding it (simplify(som=True)) or handing it
to nlsat can take unbounded time and memory.  Before an obligation goes to the solver, both sides are
evaluated exactly at a few rational points (all symbols bound to rationals, z3's rewriter folds the
constants bottom-up over the term DAG: linear in its size, no search, no expansion).  If they differ at a
point, that point IS an instance model of the violation formula: the obligation is replaced by one whose
violation formula is the conjunction `x1 == v1 and ... and xn == vn` (trivially sat, model = the point),
which core then replays on the untouched real code as usual.  If they agree at every tried point the
original obligation goes to z3 unchanged; only z3's `unsat` is ever reported as "holds".
"""
import random
from fractions import Fraction

import numpy as np
import z3

from . import sym
from .core import Ob, _as_obj
from .sym import S

_PACK = {}


def _pack(n):
    if n not in _PACK:
        _PACK[n] = z3.Function("pc_pack%d" % n, *([z3.RealSort()] * (n + 1)))
    return _PACK[n]


class PointOb(Ob):
    """obligation already refuted by exact evaluation at `point` ({z3 const: Fraction})"""

    def __init__(self, ob, point):
        Ob.__init__(self, ob.label, ob.kind, got=ob.got, exp=ob.exp, cond=ob.cond, key=ob.key, info=ob.info)
        self.point = point

    def violation_formula(self):
        return z3.And(*[v == sym.zr(val) for v, val in self.point])


def _terms(ob):
    """list of z3 Real terms that must all be 0 (eq) / list with one Bool that must be true (holds);
    None if the obligation is concrete or has a shape mismatch"""
    if ob.kind == "eq":
        g, e = _as_obj(ob.got), _as_obj(ob.exp)
        if g.shape != e.shape:
            return None
        out = []
        for idx in np.ndindex(*g.shape):
            x, y = S.of(g[idx]), S.of(e[idx])
            for p, q in ((x.re, y.re), (x.im, y.im)):
                if isinstance(p, Fraction) and isinstance(q, Fraction):
                    if p != q:
                        return None
                    continue
                p, q = sym.zr(p), sym.zr(q)
                if not p.eq(q):
                    out.append(p - q)
        return out
    c = ob.cond
    if isinstance(c, sym.SB):
        return [c.f]
    return None


class Guard:
    def __init__(self, inp, points=2, seed=0):
        self.inp = inp
        self.rnd = random.Random(seed)
        self.npoints = points
        self.points = []          # list of dict name -> (const, Fraction)

    def _value(self, name):
        d = self.inp.decl.get(name)
        lo = hi = None
        if d is not None and d[0] in ("real", "int"):
            lo, hi = d[1], d[2]
        if d is not None and d[0] == "int":
            return Fraction(self.rnd.randint(lo, hi))
        v = Fraction(self.rnd.randint(-5, 5), self.rnd.choice([1, 2, 3]))
        if v == 0:
            v = Fraction(1, 2)
        if (lo is not None and v < lo) or (hi is not None and v > hi):
            a = Fraction(lo) if lo is not None else Fraction(hi) - 4
            b = Fraction(hi) if hi is not None else Fraction(lo) + 4
            v = a + (b - a) * Fraction(self.rnd.randint(1, 15), 16)
        return v

    def _extend(self, point, consts):
        for c in consts:
            n = str(c)
            if n not in point:
                point[n] = (c, self._value(n))

    def _side_ok(self, point):
        side = list(self.inp.assumptions) + (list(sym.CTX.pc) if sym.CTX is not None else [])
        if not side:
            return True
        f = z3.And(*side)
        self._extend(point, [c for c in sym.free_vars(f) if c.sort().kind() == z3.Z3_REAL_SORT])
        r = z3.simplify(z3.substitute(f, *[(c, sym.zr(v)) for c, v in point.values()]))
        return z3.is_true(r)

    def refute(self, ob):
        """-> PointOb if exact evaluation at a point violates ob, else ob itself"""
        if not self.inp.symbolic:
            return ob
        ts = _terms(ob)
        if not ts:
            return ob
        consts = [c for c in sym.free_vars(*ts)]
        if any(c.sort().kind() != z3.Z3_REAL_SORT or str(c).startswith("sqrt_") for c in consts):
            return ob
        while len(self.points) < self.npoints:
            for _ in range(50):
                p = {}
                if self._side_ok(p):
                    self.points.append(p)
                    break
            else:
                return ob
        for point in self.points:
            self._extend(point, consts)
            subs = [(c, sym.zr(v)) for c, v in point.values()]
            if ob.kind == "eq":
                packed = _pack(len(ts))(*ts)
                r = z3.simplify(z3.substitute(packed, *subs))
                vals = r.children()
                bad = any(not (z3.is_rational_value(v) or z3.is_int_value(v)) for v in vals)
                if bad:
                    return ob
                differs = any(v.numerator_as_long() != 0 for v in vals)
            else:
                r = z3.simplify(z3.substitute(ts[0], *subs))
                if not (z3.is_true(r) or z3.is_false(r)):
                    return ob
                differs = z3.is_false(r)
            if differs and self._side_ok(point):
                return PointOb(ob, list(point.values()))
        return ob

    def all(self, obs):
        return [self.refute(ob) for ob in obs]
