"""E3 `thx` -- bounded model checking of the progress-timer protocol.

The transition system is LOWERED FROM THE REAL CODE at run time:

* `lower_bytecode(fn, ...)`  abstract interpretation of `dis.get_instructions(fn)` (CPython 3.12
  opcodes) -> per-method IR (one IR instruction per bytecode instruction),
* `lower_ast_method(fn, ...)` the same IR from the method's AST by evaluation order
  (cross-check: `traces()` of both must coincide),
* `lower_ast_api(fn, ...)`   an API function's AST -> IR with progress calls, fault sites (every
  call expression), exception edges of `with` / `try`, loops unrolled,
* `link(...)`                inlining of self-method calls -> flat thread programs,
* `slice_programs(...)`      keeps only what can influence a timer / lock operation,
* `Bmc`                      z3 unrolling (bit-vectors, functional next-state encoding) with a symbolic
  thread choice per step, `threading.Timer` modelled by its documented contract.

IR instruction (class Ins): op, a, b, c, d, err(handler pc or None), pos(line)
  read  a=dst reg  b=attr                    reg := self.attr
  write a=attr     b=val                     self.attr := val
  new   a=dst reg  b=target method  c=kind   reg := Timer(.., self.target) / Thread(target=..)
  start/cancel/join a=val
  acq/rel a=lock attr
  call  a=method   b=tuple of arg vals       self.method(*args)            (inlined by link)
  pcall a=progress-object ordinal b=method c=args   (API functions; becomes call or fault)
  fault a=[(site_id, label, pos)]            any of these call expressions may raise
  cj    a=kind('truthy'|'none') b=val c=target d=sense    jump if kind(val)==sense
  nd    c=target                             branch on an untracked condition
  jmp   c=target ;  ret ; raise ; nop
values: ('reg',name) ('const',v) ('param',name) ('other',)
"""
import ast
import dis
import inspect
import sys
import textwrap
import threading
import builtins as _bi

import z3

EVENT_OPS = ("read", "write", "new", "start", "cancel", "join", "acq", "rel", "fault", "nd", "xuse", "xshut")
CTRL_OPS = ("cj", "jmp", "ret", "raise", "nop")
MODEL_ERRORS = (RuntimeError, AttributeError)   # what Timer.start()/None.cancel()/Lock.release() raise in the model


class LoweringError(Exception):
    pass


OTHER = ("other",)
NULL = ("null",)
SELF = ("self",)


class Ins:
    __slots__ = ("op", "a", "b", "c", "d", "err", "pos")

    def __init__(self, op, a=None, b=None, c=None, d=None, err=None, pos=None):
        self.op, self.a, self.b, self.c, self.d, self.err, self.pos = op, a, b, c, d, err, pos

    def copy(self):
        return Ins(self.op, self.a, self.b, self.c, self.d, self.err, self.pos)

    def __repr__(self):
        xs = [self.op] + [repr(x) for x in (self.a, self.b, self.c, self.d) if x is not None]
        return "<%s%s>" % (" ".join(xs), "" if self.err is None else " !%s" % self.err)


class MethodIR:
    def __init__(self, name, params, defaults, code, returns_self=None, how=""):
        self.name, self.params, self.defaults, self.code = name, params, defaults, code
        self.returns_self = returns_self
        self.how = how


def irval(av):
    """abstract value -> IR operand"""
    if av[0] in ("reg", "param"):
        return av
    if av[0] == "const" and (av[1] is None or av[1] is True or av[1] is False):
        return av
    return OTHER


# ---------------------------------------------------------------------------------------
# class inspection (real instance -> initial attribute values, lock attributes)
# ---------------------------------------------------------------------------------------
_LOCK_T = type(threading.Lock())
_RLOCK_T = type(threading.RLock())


class ClassInfo:
    """what the lowerers need to know about the progress class: which attributes are methods,
    which are locks, initial values (from a REAL instance: cls(3, 'title'))."""

    def __init__(self, cls):
        self.cls = cls
        inst = cls(3, "t")
        self.init = {}
        self.locks = {}
        self.events = {}
        for k, v in vars(inst).items():
            if isinstance(v, threading.Event):
                self.events[k] = True
                self.init[k] = ("const", bool(v.is_set()))
            elif isinstance(v, _LOCK_T):
                self.locks[k] = "Lock"
            elif isinstance(v, _RLOCK_T):
                self.locks[k] = "RLock"
            elif v is None or v is True or v is False:
                self.init[k] = ("const", v)
            elif isinstance(v, threading.Thread):
                raise LoweringError("%s.__init__ creates a thread (%s): not modelled" % (cls.__name__, k))
            elif type(v).__module__ == "threading":
                raise LoweringError("unsupported synchronisation primitive %s.%s = %r" % (cls.__name__, k, type(v)))
            else:
                self.init[k] = OTHER

    def is_method(self, name):
        try:
            v = inspect.getattr_static(self.cls, name)
        except AttributeError:
            return False
        return inspect.isfunction(v)

    def function(self, name):
        v = inspect.getattr_static(self.cls, name)
        if not inspect.isfunction(v):
            raise LoweringError("%s.%s is not a plain function" % (self.cls.__name__, name))
        return v


def _thread_kind(obj):
    if inspect.isclass(obj) and issubclass(obj, threading.Thread):
        return "timer" if issubclass(obj, threading.Timer) else "thread"
    return None


def _new_from_call(cls_obj, args, kwargs, pos):
    """Timer(interval, function) / Thread(target=...) -> target method name"""
    kind = _thread_kind(cls_obj)
    tgt = None
    if kind == "timer":
        tgt = kwargs.get("function", args[1] if len(args) > 1 else None)
    else:
        tgt = kwargs.get("target", args[1] if len(args) > 1 else None)
    if tgt is None or tgt[0] != "selfmeth":
        raise LoweringError("line %s: %s(...) with a target that is not a bound method of self: %r" % (pos, cls_obj.__name__, tgt))
    return kind, tgt[1]


def _call_effect(fav, args, kwargs, pos, ci, newreg):
    """shared by both method lowerers.  -> (Ins or None, result abstract value)"""
    k = fav[0]
    if k == "py":
        obj = fav[1]
        if _thread_kind(obj):
            kind, tgt = _new_from_call(obj, args, kwargs, pos)
            r = newreg()
            return Ins("new", r[1], tgt, kind, pos=pos), r
        if obj in (threading.Lock, threading.RLock) or (inspect.isclass(obj) and obj.__module__ == "threading"):
            raise LoweringError("line %s: synchronisation object created outside __init__: %r" % (pos, obj))
        return None, OTHER
    if k == "selfmeth":
        return Ins("call", fav[1], tuple(irval(a) for a in args), pos=pos), OTHER
    if k == "exitfn":
        cm = fav[1]
        if cm[0] == "lock":
            return Ins("rel", cm[1], pos=pos), ("const", None)
        return None, OTHER
    if k == "meth":
        recv, name = fav[1], fav[2]
        if recv[0] == "lock":
            if name in ("acquire", "__enter__"):
                if args or kwargs:
                    raise LoweringError("line %s: lock.acquire with arguments is not modelled" % pos)
                return Ins("acq", recv[1], pos=pos), ("const", True)
            if name in ("release", "__exit__"):
                return Ins("rel", recv[1], pos=pos), ("const", None)
            raise LoweringError("line %s: lock method %s not modelled" % (pos, name))
        if recv[0] == "evt":
            if name == "set":
                return Ins("write", recv[1], ("const", True), pos=pos), ("const", None)
            if name == "clear":
                return Ins("write", recv[1], ("const", False), pos=pos), ("const", None)
            if name in ("is_set", "isSet"):
                r = newreg()
                return Ins("read", r[1], recv[1], pos=pos), r
            raise LoweringError("line %s: Event.%s is not modelled" % (pos, name))
        if recv[0] in ("reg", "param"):
            if name in ("start", "cancel", "join"):
                if name == "join" and (args or kwargs):
                    raise LoweringError("line %s: join with timeout is not modelled" % pos)
                return Ins(name, irval(recv), pos=pos), ("const", None)
            if name in ("is_alive", "run"):
                raise LoweringError("line %s: Timer.%s is not modelled" % (pos, name))
            return None, OTHER
        if recv[0] == "other" and name in ("start", "cancel", "join", "acquire", "release"):
            raise LoweringError("line %s: .%s() on a receiver the lowering cannot track" % (pos, name))
        return None, OTHER
    if k in ("reg", "param") or k == "other":
        return None, OTHER
    return None, OTHER


def _callee_label(fav):
    if fav[0] == "py":
        return getattr(fav[1], "__name__", "call")
    if fav[0] == "meth":
        return "." + str(fav[2])
    return "call"


def strip_faults(mir):
    """the same method IR with its fault sites (calls without protocol meaning) turned into no-ops"""
    code = [(Ins("nop", pos=i.pos, err=i.err) if i.op == "fault" else i) for i in mir.code]
    out = MethodIR(mir.name, mir.params, mir.defaults, code, mir.returns_self, mir.how)
    return out


def _exc_match(cav):
    """except <class>: does it catch the model's errors?  -> True/False/None(unknown)"""
    if cav[0] != "py" or not inspect.isclass(cav[1]):
        return None
    hits = [issubclass(e, cav[1]) for e in MODEL_ERRORS]
    if all(hits):
        return True
    if not any(hits):
        return False
    return None


# ---------------------------------------------------------------------------------------
# bytecode lowering (CPython 3.12)
# ---------------------------------------------------------------------------------------
def _join_av(a, b):
    return a if a == b else OTHER


class _BcState:
    __slots__ = ("stack", "loc")

    def __init__(self, stack, loc):
        self.stack, self.loc = tuple(stack), dict(loc)

    def join(self, o):
        if len(self.stack) != len(o.stack):
            raise LoweringError("stack depth mismatch at merge")
        st = tuple(_join_av(a, b) for a, b in zip(self.stack, o.stack))
        loc = {}
        for k in set(self.loc) | set(o.loc):
            loc[k] = _join_av(self.loc.get(k, OTHER), o.loc.get(k, OTHER))
        ch = st != self.stack or loc != self.loc
        return _BcState(st, loc), ch


# opcode -> (pops, pushes) for opcodes without tracked meaning (pushes are OTHER)
_GENERIC = {
    "NOP": (0, 0), "RESUME": (0, 0), "CACHE": (0, 0), "EXTENDED_ARG": (0, 0), "PRECALL": (0, 0),
    "POP_TOP": (1, 0), "END_FOR": (2, 0), "UNARY_NEGATIVE": (1, 1), "UNARY_INVERT": (1, 1),
    "BINARY_OP": (2, 1), "BINARY_SUBSCR": (2, 1), "STORE_SUBSCR": (3, 0), "DELETE_SUBSCR": (2, 0),
    "BINARY_SLICE": (3, 1), "STORE_SLICE": (4, 0), "COMPARE_OP": (2, 1), "CONTAINS_OP": (2, 1),
    "GET_ITER": (1, 1), "GET_LEN": (0, 1), "FORMAT_VALUE": None, "BUILD_STRING": None, "BUILD_TUPLE": None,
    "BUILD_LIST": None, "BUILD_SET": None, "BUILD_MAP": None, "BUILD_CONST_KEY_MAP": None, "BUILD_SLICE": None,
    "LIST_EXTEND": (1, 0), "SET_UPDATE": (1, 0), "DICT_UPDATE": (1, 0), "DICT_MERGE": (1, 0), "LIST_APPEND": (1, 0),
    "SET_ADD": (1, 0), "MAP_ADD": (2, 0), "UNPACK_SEQUENCE": None, "LOAD_DEREF": (0, 1), "STORE_DEREF": (1, 0),
    "LOAD_CLOSURE": (0, 1), "MAKE_CELL": (0, 0), "COPY_FREE_VARS": (0, 0), "MAKE_FUNCTION": None,
    "STORE_GLOBAL": (1, 0), "DELETE_FAST": (0, 0), "IMPORT_NAME": (2, 1), "IMPORT_FROM": (0, 1),
    "LOAD_BUILD_CLASS": (0, 1), "LOAD_ASSERTION_ERROR": (0, 1), "CALL_INTRINSIC_1": (1, 1), "CALL_INTRINSIC_2": (2, 1),
    "LIST_TO_TUPLE": (1, 1), "DELETE_ATTR": (1, 0), "LOAD_NAME": (0, 1), "STORE_NAME": (1, 0),
}


def lower_bytecode(fn, ci, selfname=None):
    """abstract interpretation of the bytecode of one method -> MethodIR (1 IR ins per bytecode ins)"""
    # the opcode table below is for CPython 3.12; on other versions the first unknown opcode raises
    # LoweringError (the check then exits 2: no verdict rather than a wrong one)
    code = fn.__code__
    argn = code.co_argcount + code.co_kwonlyargcount
    names = list(code.co_varnames[:argn])
    if not names:
        raise LoweringError("%s has no self parameter" % fn.__qualname__)
    selfname = names[0]
    params = names[1:]
    defaults = {}
    dv = fn.__defaults__ or ()
    pos_params = list(code.co_varnames[:code.co_argcount])
    for n, v in zip(pos_params[len(pos_params) - len(dv):], dv):
        defaults[n] = v
    for n, v in (fn.__kwdefaults__ or {}).items():
        defaults[n] = v
    ins = [i for i in dis.get_instructions(fn, show_caches=False)]
    off2idx = {i.offset: k for k, i in enumerate(ins)}
    entries = list(dis.Bytecode(fn).exception_entries)

    def handler_of(off):
        best = None
        for e in entries:
            if e.start <= off < e.end:
                if best is None or (e.end - e.start) < (best.end - best.start):
                    best = e
        return best

    n = len(ins)
    out = [Ins("nop", pos=None) for _ in range(n)]
    states = [None] * n
    loc0 = {selfname: SELF}
    for p in params:
        loc0[p] = ("param", p)
    states[0] = _BcState((), loc0)
    work = [0]
    kwnames = {}
    ret_self = []

    def flow(k, st):
        if k >= n:
            raise LoweringError("fell off the bytecode")
        if states[k] is None:
            states[k] = st
            work.append(k)
        else:
            j, ch = states[k].join(st)
            if ch:
                states[k] = j
                work.append(k)

    line_of = {}
    ln = None
    for k, i in enumerate(ins):
        if i.starts_line is not None:
            ln = i.starts_line
        if i.positions is not None and i.positions.lineno is not None:
            line_of[k] = i.positions.lineno
        else:
            line_of[k] = ln

    guard = 0
    while work:
        guard += 1
        if guard > 20000:
            raise LoweringError("bytecode abstract interpretation does not converge")
        k = work.pop()
        st = states[k]
        i = ins[k]
        op = i.opname
        S = list(st.stack)
        L = dict(st.loc)
        pos = line_of[k]
        res = Ins("nop", pos=pos)
        nxt = [k + 1]          # successor instruction indices
        jump_state = None      # state for the jump target when different from fallthrough

        def newreg():
            return ("reg", "b%d" % k)

        def pop():
            if not S:
                raise LoweringError("abstract stack underflow at %s" % op)
            return S.pop()

        if op in ("LOAD_FAST", "LOAD_FAST_CHECK"):
            S.append(L.get(i.argval, OTHER))
        elif op == "LOAD_FAST_AND_CLEAR":
            S.append(L.get(i.argval, OTHER))
            L[i.argval] = OTHER
        elif op == "STORE_FAST":
            v = pop()
            L[i.argval] = v if v[0] in ("reg", "param", "const", "self", "lock", "evt", "py", "selfmeth", "bx") else OTHER
        elif op == "LOAD_CONST":
            S.append(("const", i.argval))
        elif op == "RETURN_CONST":
            ret_self.append(False)
            res = Ins("ret", pos=pos)
            nxt = []
        elif op == "RETURN_VALUE":
            v = pop()
            ret_self.append(v == SELF)
            res = Ins("ret", pos=pos)
            nxt = []
        elif op == "LOAD_GLOBAL":
            name = i.argval
            if i.arg & 1:
                S.append(NULL)
            g = fn.__globals__
            if name in g:
                S.append(("py", g[name]))
            elif hasattr(_bi, name):
                S.append(("py", getattr(_bi, name)))
            else:
                S.append(OTHER)
        elif op == "PUSH_NULL":
            S.append(NULL)
        elif op == "LOAD_ATTR":
            name = i.argval
            meth = bool(i.arg & 1)
            recv = pop()
            if recv == SELF:
                if name in ci.locks:
                    val = ("lock", name)
                elif name in ci.events:
                    val = ("evt", name)
                elif ci.is_method(name):
                    val = ("selfmeth", name)
                else:
                    r = newreg()
                    res = Ins("read", r[1], name, pos=pos)
                    val = r
                if meth:
                    S.append(NULL)
                S.append(val)
            elif recv[0] == "py":
                try:
                    val = ("py", getattr(recv[1], name))
                except AttributeError:
                    val = OTHER
                if meth:
                    S.append(NULL)
                S.append(val)
            else:
                if meth:
                    S.append(NULL)
                S.append(("meth", recv, name))
        elif op == "STORE_ATTR":
            recv = pop()
            v = pop()
            if recv == SELF:
                if i.argval in ci.locks or i.argval in ci.events:
                    raise LoweringError("line %s: lock/event attribute %s is reassigned" % (pos, i.argval))
                res = Ins("write", i.argval, irval(v), pos=pos)
        elif op == "KW_NAMES":
            kwnames[k + 1] = i.argval
        elif op == "CALL":
            argc = i.arg
            args = [pop() for _ in range(argc)][::-1]
            s1 = pop()
            s0 = pop()
            if s0 == NULL:
                fav = s1
            else:
                fav = s0
                args = [s1] + args
            kw = {}
            kn = kwnames.get(k, ())
            if kn:
                for nme, v in zip(kn, args[len(args) - len(kn):]):
                    kw[nme] = v
                args = args[:len(args) - len(kn)]
            e, r = _call_effect(fav, args, kw, pos, ci, newreg)
            if e is not None:
                res = e
            elif fav[0] != "exitfn":
                # a call without protocol meaning (print, format, write, flush, time, ...): it may RAISE
                res = Ins("fault", [(-1, _callee_label(fav), pos, (fn.__name__, i.offset))], pos=pos)
            S.append(r)
        elif op == "CALL_FUNCTION_EX":
            if i.arg & 1:
                pop()
            pop()
            f = pop()
            if S and S[-1] == NULL:
                pop()
            if f[0] in ("selfmeth", "exitfn") or (f[0] == "py" and _thread_kind(f[1])) or (f[0] == "meth" and f[2] in ("start", "cancel", "join", "acquire", "release")):
                raise LoweringError("line %s: *args call of a tracked callable" % pos)
            res = Ins("fault", [(-1, _callee_label(f), pos, (fn.__name__, i.offset))], pos=pos)
            S.append(OTHER)
        elif op in ("POP_JUMP_IF_TRUE", "POP_JUMP_IF_FALSE", "POP_JUMP_IF_NONE", "POP_JUMP_IF_NOT_NONE"):
            v = pop()
            tgt = off2idx[i.argval]
            if op in ("POP_JUMP_IF_NONE", "POP_JUMP_IF_NOT_NONE"):
                kind, sense = "none", op == "POP_JUMP_IF_NONE"
                if v[0] == "bx":
                    v = OTHER
            else:
                kind, sense = "truthy", op == "POP_JUMP_IF_TRUE"
                if v[0] == "bx":
                    kind, v, neg = v[1], v[2], v[3]
                    if neg:
                        sense = not sense
            res, nxt = _cond_ins(kind, v, sense, tgt, k, pos)
        elif op in ("JUMP_FORWARD", "JUMP_BACKWARD", "JUMP_BACKWARD_NO_INTERRUPT", "JUMP"):
            tgt = off2idx[i.argval]
            res = Ins("jmp", c=tgt, pos=pos)
            nxt = [tgt]
        elif op == "IS_OP":
            b = pop()
            a = pop()
            if b == ("const", None) and a[0] in ("reg", "param"):
                S.append(("bx", "none", a, bool(i.arg)))
            elif a == ("const", None) and b[0] in ("reg", "param"):
                S.append(("bx", "none", b, bool(i.arg)))
            elif a[0] in ("reg", "param") and b[0] in ("reg", "param"):
                S.append(("bx", "same", (a, b), bool(i.arg)))
            else:
                S.append(OTHER)
        elif op == "UNARY_NOT":
            v = pop()
            if v[0] in ("reg", "param"):
                S.append(("bx", "truthy", v, True))
            elif v[0] == "bx":
                S.append(("bx", v[1], v[2], not v[3]))
            else:
                S.append(OTHER)
        elif op == "COPY":
            S.append(S[-i.arg])
        elif op == "SWAP":
            S[-1], S[-i.arg] = S[-i.arg], S[-1]
        elif op == "BEFORE_WITH":
            cm = pop()
            S.append(("exitfn", cm))
            if cm[0] == "lock":
                res = Ins("acq", cm[1], pos=pos)
                S.append(("const", True))
            else:
                if cm[0] in ("reg", "param"):
                    raise LoweringError("line %s: `with` on a tracked non-lock value" % pos)
                S.append(OTHER)
        elif op == "PUSH_EXC_INFO":
            v = pop()
            S.append(OTHER)
            S.append(v)
        elif op == "WITH_EXCEPT_START":
            ex = S[-4]
            if ex[0] == "exitfn" and ex[1][0] == "lock":
                res = Ins("rel", ex[1][1], pos=pos)
                S.append(("const", None))
            else:
                S.append(OTHER)
        elif op == "CHECK_EXC_MATCH":
            c = pop()
            m = _exc_match(c)
            S.append(("const", m) if m is not None else OTHER)
        elif op == "POP_EXCEPT":
            pop()
        elif op == "RERAISE":
            pop()
            if i.arg:
                pop()
            res = Ins("raise", pos=pos)
            nxt = []
        elif op == "RAISE_VARARGS":
            for _ in range(i.arg):
                pop()
            res = Ins("raise", pos=pos)
            nxt = []
        elif op == "FOR_ITER":
            tgt = off2idx[i.argval]
            res = Ins("nd", c=tgt, pos=pos)
            # fallthrough: pushes next value; jump: iterator stays (END_FOR pops 2 in 3.12)
            jump_state = _BcState(S + [OTHER], L)
            S.append(OTHER)
            nxt = [k + 1, tgt]
        elif op in _GENERIC:
            eff = _GENERIC[op]
            if eff is None:
                a = i.arg or 0
                if op == "FORMAT_VALUE":
                    eff = (2 if (a & 0x04) else 1, 1)
                elif op in ("BUILD_STRING", "BUILD_TUPLE", "BUILD_LIST", "BUILD_SET"):
                    eff = (a, 1)
                elif op == "BUILD_MAP":
                    eff = (2 * a, 1)
                elif op == "BUILD_CONST_KEY_MAP":
                    eff = (a + 1, 1)
                elif op == "BUILD_SLICE":
                    eff = (a, 1)
                elif op == "UNPACK_SEQUENCE":
                    eff = (1, a)
                elif op == "MAKE_FUNCTION":
                    eff = (1 + bin(a).count("1"), 1)
            for _ in range(eff[0]):
                v = pop()
            for _ in range(eff[1]):
                S.append(OTHER)
        else:
            raise LoweringError("bytecode opcode %s (line %s of %s) is not in the lowering table of this CPython version"
                                % (op, pos, fn.__qualname__))
        # exception edge
        h = handler_of(i.offset)
        if h is not None:
            hidx = off2idx[h.target]
            res.err = hidx
            base = list(st.stack[:h.depth])
            if h.lasti:
                base.append(OTHER)
            base.append(("exc",))
            flow(hidx, _BcState(base, st.loc))
        out[k] = res
        ns = _BcState(S, L)
        for t in nxt:
            if jump_state is not None and t != k + 1:
                flow(t, jump_state)
            else:
                flow(t, ns)
    rs = bool(ret_self) and all(ret_self)
    return MethodIR(fn.__name__, params, defaults, out, returns_self=rs, how="bytecode")


def _cond_ins(kind, v, sense, tgt, k, pos):
    """conditional jump on abstract value v.  -> (Ins, successors)"""
    if kind == "same":
        return Ins("cj", kind, v, tgt, sense, pos=pos), [k + 1, tgt]
    if v[0] == "const":
        val = (v[1] is None) if kind == "none" else bool(v[1])
        if val == sense:
            return Ins("jmp", c=tgt, pos=pos), [tgt]
        return Ins("nop", pos=pos), [k + 1]
    if v[0] in ("self", "selfmeth", "py", "lock", "evt", "exitfn", "meth"):
        val = False if kind == "none" else True
        if val == sense:
            return Ins("jmp", c=tgt, pos=pos), [tgt]
        return Ins("nop", pos=pos), [k + 1]
    if v[0] in ("reg", "param"):
        return Ins("cj", kind, v, tgt, sense, pos=pos), [k + 1, tgt]
    return Ins("nd", c=tgt, pos=pos), [k + 1, tgt]


# ---------------------------------------------------------------------------------------
# AST lowering: shared statement machinery
# ---------------------------------------------------------------------------------------
class Label:
    __slots__ = ("pc",)

    def __init__(self):
        self.pc = None


def _fn_ast(fn):
    src = textwrap.dedent(inspect.getsource(fn))
    tree = ast.parse(src)
    node = tree.body[0]
    if not isinstance(node, (ast.FunctionDef, ast.AsyncFunctionDef)):
        raise LoweringError("cannot find the def of %s" % fn.__qualname__)
    off = fn.__code__.co_firstlineno - node.lineno
    if node.decorator_list:
        off = fn.__code__.co_firstlineno - node.decorator_list[0].lineno
    return node, off, src


class _AstLower:
    """statement-level lowering by evaluation order; subclasses give the expression semantics"""
    unroll = None            # None: loops as real back edges; k: unrolled k times (DAG)

    def __init__(self, fn):
        self.fn = fn
        self.node, self.lineoff, self.src = _fn_ast(fn)
        self.code = []
        self.err = None          # current handler label
        self.cleanup = []        # stack of ('with', cm, node) / ('finally', stmts) / ('loop', Lbreak, Lcont)
        self.env = {}
        self.nreg = 0
        self.rets = []

    # -- emission --------------------------------------------------------------------
    def emit(self, ins):
        if ins.err is None:
            ins.err = self.err
        self.code.append(ins)
        return ins

    def place(self, lab):
        lab.pc = len(self.code)

    def pos(self, n):
        return getattr(n, "lineno", 0) + self.lineoff

    def newreg(self):
        self.nreg += 1
        return ("reg", "a%d" % self.nreg)

    def finalize(self):
        self.code.append(Ins("ret"))
        for i in self.code:
            if isinstance(i.c, Label):
                i.c = i.c.pc
            if isinstance(i.err, Label):
                i.err = i.err.pc
        return self.code

    def condjump(self, v, sense, lab, pos):
        """jump to lab if truth(v) == sense"""
        kind = "truthy"
        if v[0] == "bx":
            kind, v, neg = v[1], v[2], v[3]
            if neg:
                sense = not sense
        if kind == "same":
            self.emit(Ins("cj", kind, v, lab, sense, pos=pos))
            return
        if v[0] == "const":
            val = (v[1] is None) if kind == "none" else bool(v[1])
            if val == sense:
                self.emit(Ins("jmp", c=lab, pos=pos))
            return
        if v[0] in ("self", "selfmeth", "py", "lock", "evt", "exitfn", "meth", "prog", "progcls"):
            val = False if kind == "none" else True
            if val == sense:
                self.emit(Ins("jmp", c=lab, pos=pos))
            return
        if v[0] in ("reg", "param"):
            self.emit(Ins("cj", kind, v, lab, sense, pos=pos))
        else:
            self.emit(Ins("nd", c=lab, pos=pos))

    def cond(self, n, lab, sense):
        """emit code that jumps to lab iff truth(n) == sense, falls through otherwise"""
        if isinstance(n, ast.BoolOp):
            is_and = isinstance(n.op, ast.And)
            if is_and != sense:
                # and/jump-if-false  or  or/jump-if-true: every operand may jump
                for v in n.values:
                    self.cond(v, lab, sense)
            else:
                skip = Label()
                for v in n.values[:-1]:
                    self.cond(v, skip, not sense)
                self.cond(n.values[-1], lab, sense)
                self.place(skip)
            return
        if isinstance(n, ast.UnaryOp) and isinstance(n.op, ast.Not):
            self.cond(n.operand, lab, not sense)
            return
        v = self.ev(n)
        self.condjump(v, sense, lab, self.pos(n))

    # -- joins of the local environment -------------------------------------------------
    def _join_env(self, a, b):
        out = {}
        for k in set(a) | set(b):
            out[k] = _join_av(a.get(k, OTHER), b.get(k, OTHER))
        return out

    # -- statements ------------------------------------------------------------------
    def block(self, stmts):
        for s in stmts:
            self.stmt(s)

    def stmt(self, s):
        m = getattr(self, "s_" + type(s).__name__, None)
        if m is None:
            raise LoweringError("line %s: statement %s not supported by the AST lowering" % (self.pos(s), type(s).__name__))
        m(s)

    def s_Expr(self, s):
        self.ev(s.value)

    def s_Pass(self, s):
        pass

    s_Global = s_Nonlocal = s_Import = s_ImportFrom = s_Pass

    def s_FunctionDef(self, s):
        for d in s.decorator_list:
            self.ev(d)
        for d in s.args.defaults + [k for k in s.args.kw_defaults if k is not None]:
            self.ev(d)
        self.env[s.name] = OTHER

    s_AsyncFunctionDef = s_FunctionDef

    def s_ClassDef(self, s):
        self.env[s.name] = OTHER

    def s_Delete(self, s):
        for t in s.targets:
            if isinstance(t, ast.Name):
                self.env[t.id] = OTHER
            else:
                for c in ast.iter_child_nodes(t):
                    if isinstance(c, ast.expr):
                        self.ev(c)

    def s_Assign(self, s):
        v = self.ev(s.value)
        for t in s.targets:
            self.assign(t, v)

    def s_AnnAssign(self, s):
        if s.value is not None:
            v = self.ev(s.value)
            self.assign(s.target, v)

    def s_AugAssign(self, s):
        t = s.target
        if isinstance(t, ast.Name):
            self.ev(ast.Name(id=t.id, ctx=ast.Load(), lineno=t.lineno, col_offset=t.col_offset))
            self.ev(s.value)
            self.env[t.id] = OTHER
        elif isinstance(t, ast.Attribute):
            recv = self.ev(t.value)
            self.load_attr(recv, t.attr, t)
            self.ev(s.value)
            self.store_attr(recv, t.attr, OTHER, t)
        else:
            for c in ast.iter_child_nodes(t):
                if isinstance(c, ast.expr):
                    self.ev(c)
            self.ev(s.value)

    def assign(self, t, v):
        if isinstance(t, ast.Name):
            self.bind(t.id, v)
        elif isinstance(t, ast.Attribute):
            recv = self.ev(t.value)
            self.store_attr(recv, t.attr, v, t)
        elif isinstance(t, (ast.Tuple, ast.List)):
            for e in t.elts:
                self.assign(e.value if isinstance(e, ast.Starred) else e, OTHER)
        elif isinstance(t, ast.Subscript):
            self.ev(t.value)
            self.ev(t.slice)
            self.escape(v, t)
        elif isinstance(t, ast.Starred):
            self.assign(t.value, OTHER)
        else:
            raise LoweringError("line %s: assignment target %s" % (self.pos(t), type(t).__name__))

    def bind(self, name, v):
        keep = ("reg", "param", "const", "self", "lock", "evt", "py", "selfmeth", "bx", "prog", "progcls")
        self.env[name] = v if v[0] in keep else OTHER

    def escape(self, v, node):
        pass

    def s_Return(self, s):
        v = ("const", None)
        if s.value is not None:
            v = self.ev(s.value)
        self.rets.append(v)
        self.unwind(None)
        self.emit(Ins("ret", pos=self.pos(s)))

    def unwind(self, upto_loop):
        """inline the exit code of enclosing with/finally blocks (return: all; break/continue: up to the loop)"""
        saved_err, saved_cleanup = self.err, self.cleanup
        k = len(saved_cleanup)
        try:
            while k > 0:
                k -= 1
                ent = saved_cleanup[k]
                if ent[0] == "loop":
                    if upto_loop:
                        return ent
                    continue
                # code emitted here runs outside that block
                self.cleanup = saved_cleanup[:k]
                self.err = ent[-1]
                if ent[0] == "with":
                    self.with_exit(ent[1], ent[2], False)
                elif ent[0] == "finally":
                    self.block(ent[1])
            if upto_loop:
                raise LoweringError("break/continue outside a loop")
        finally:
            self.err, self.cleanup = saved_err, saved_cleanup

    def s_Break(self, s):
        ent = self.unwind(True)
        self.emit(Ins("jmp", c=ent[1], pos=self.pos(s)))

    def s_Continue(self, s):
        ent = self.unwind(True)
        self.emit(Ins("jmp", c=ent[2], pos=self.pos(s)))

    def s_Raise(self, s):
        if s.exc is not None:
            self.ev(s.exc)
        if s.cause is not None:
            self.ev(s.cause)
        self.emit(Ins("raise", pos=self.pos(s)))

    def s_Assert(self, s):
        self.ev(s.test)
        if s.msg is not None:
            pass   # evaluated only on failure
        self.may_raise(s, "assert")

    def may_raise(self, node, what):
        pass

    def s_If(self, s):
        lelse, lend = Label(), Label()
        self.cond(s.test, lelse, False)
        env0 = dict(self.env)
        self.block(s.body)
        env1 = self.env
        if s.orelse:
            self.emit(Ins("jmp", c=lend, pos=self.pos(s)))
            self.place(lelse)
            self.env = dict(env0)
            self.block(s.orelse)
            self.env = self._join_env(env1, self.env)
            self.place(lend)
        else:
            self.place(lelse)
            self.env = self._join_env(env1, env0)

    def s_While(self, s):
        self.loop(s, lambda lexit: self.cond(s.test, lexit, False), None)

    def s_For(self, s):
        self.ev(s.iter)

        def head(lexit):
            self.emit(Ins("nd", c=lexit, pos=self.pos(s)))
            self.assign(s.target, OTHER)
        self.loop(s, head, None)

    def loop(self, s, head, _):
        lexit, lafter = Label(), Label()
        env0 = dict(self.env)
        # anything assigned in the loop is unknown at the head
        for n in ast.walk(s):
            if isinstance(n, ast.Name) and isinstance(n.ctx, (ast.Store, ast.Del)):
                self.env[n.id] = OTHER
        if self.unroll is None:
            ltop = Label()
            self.place(ltop)
            head(lexit)
            self.cleanup.append(("loop", lafter, ltop, self.err))
            self.block(s.body)
            self.cleanup.pop()
            self.emit(Ins("jmp", c=ltop, pos=self.pos(s)))
        else:
            for it in range(self.unroll):
                lnext = Label()
                head(lexit)
                self.cleanup.append(("loop", lafter, lnext, self.err))
                self.block(s.body)
                self.cleanup.pop()
                self.place(lnext)
            # bound: the loop is assumed to end after `unroll` iterations (its test is evaluated once more)
            head(lexit)
            self.emit(Ins("jmp", c=lexit, pos=self.pos(s)))
        self.place(lexit)
        self.block(s.orelse)
        self.place(lafter)
        self.env = self._join_env(env0, self.env)

    def s_With(self, s):
        self._with_items(s, 0)

    s_AsyncWith = s_With

    def _with_items(self, s, k):
        if k == len(s.items):
            self.block(s.body)
            return
        item = s.items[k]
        cm = self.ev(item.context_expr)
        outer = self.err
        val = self.with_enter(cm, item.context_expr)
        handler, after = Label(), Label()
        self.err = handler
        if item.optional_vars is not None:
            self.assign(item.optional_vars, val)
        self.cleanup.append(("with", cm, item.context_expr, outer))
        self._with_items(s, k + 1)
        self.cleanup.pop()
        self.err = outer
        self.with_exit(cm, item.context_expr, False)
        self.emit(Ins("jmp", c=after, pos=self.pos(s)))
        self.place(handler)
        sup = self.with_exit(cm, item.context_expr, True)
        if sup:
            self.emit(Ins("nd", c=after, pos=self.pos(s)))
        self.emit(Ins("raise", pos=self.pos(s)))
        self.place(after)

    def s_Try(self, s):
        outer = self.err
        lend = Label()
        fh = Label() if s.finalbody else None
        inner_outer = fh if fh is not None else outer
        if fh is not None:
            self.cleanup.append(("finally", s.finalbody, outer))
        env0 = dict(self.env)
        if s.handlers:
            eh, lendinner = Label(), Label()
            self.err = eh
            self.block(s.body)
            self.err = inner_outer
            self.block(s.orelse)
            self.emit(Ins("jmp", c=lendinner, pos=self.pos(s)))
            self.place(eh)
            envs = [self.env]
            for h in s.handlers:
                self.env = dict(env0)
                lnext = Label()
                m = True
                if h.type is not None:
                    m = self.handler_matches(h.type)
                if m is False:
                    self.place(lnext)
                    continue
                if m is None:
                    self.emit(Ins("nd", c=lnext, pos=self.pos(h)))
                if h.name:
                    self.env[h.name] = OTHER
                # names assigned in the try body are unknown here
                for n in ast.walk(ast.Module(body=s.body, type_ignores=[])):
                    if isinstance(n, ast.Name) and isinstance(n.ctx, ast.Store):
                        self.env[n.id] = OTHER
                self.block(h.body)
                self.emit(Ins("jmp", c=lendinner, pos=self.pos(h)))
                envs.append(self.env)
                self.place(lnext)
                if m is True:
                    break
            else:
                self.emit(Ins("raise", pos=self.pos(s)))
            env = envs[0]
            for e in envs[1:]:
                env = self._join_env(env, e)
            self.env = env
            self.place(lendinner)
        else:
            self.err = inner_outer
            self.block(s.body)
            self.block(s.orelse)
        self.err = outer
        if fh is not None:
            self.cleanup.pop()
            self.block(s.finalbody)
            self.emit(Ins("jmp", c=lend, pos=self.pos(s)))
            self.place(fh)
            envn = dict(self.env)
            self.block(s.finalbody)
            self.emit(Ins("raise", pos=self.pos(s)))
            self.env = envn
        self.place(lend)

    s_TryStar = s_Try

    def s_Match(self, s):
        raise LoweringError("match statement not supported")

    # -- generic expression walk (children in evaluation order) ----------------------------
    def ev_children(self, n):
        for c in ast.iter_child_nodes(n):
            if isinstance(c, ast.expr):
                self.ev(c)
            elif isinstance(c, ast.keyword):
                self.ev(c.value)
        return OTHER

    def ev_boolop(self, n):
        lend = Label()
        sense = isinstance(n.op, ast.Or)     # or: leave early when true; and: when false
        for v in n.values[:-1]:
            x = self.ev(v)
            self.condjump(x, sense, lend, self.pos(n))
        self.ev(n.values[-1])
        self.place(lend)
        return OTHER

    def ev_ifexp(self, n):
        lelse, lend = Label(), Label()
        self.cond(n.test, lelse, False)
        a = self.ev(n.body)
        self.emit(Ins("jmp", c=lend, pos=self.pos(n)))
        self.place(lelse)
        b = self.ev(n.orelse)
        self.place(lend)
        return _join_av(a, b)

    def ev_compare(self, n):
        left = self.ev(n.left)
        rs = [self.ev(c) for c in n.comparators]
        if len(n.ops) == 1 and isinstance(n.ops[0], (ast.Is, ast.IsNot)):
            neg = isinstance(n.ops[0], ast.IsNot)
            a, b = left, rs[0]
            if b == ("const", None) and a[0] in ("reg", "param"):
                return ("bx", "none", a, neg)
            if a == ("const", None) and b[0] in ("reg", "param"):
                return ("bx", "none", b, neg)
            if a[0] in ("reg", "param") and b[0] in ("reg", "param"):
                return ("bx", "same", (a, b), neg)
        return OTHER

    def ev_not(self, n):
        v = self.ev(n.operand)
        if v[0] in ("reg", "param"):
            return ("bx", "truthy", v, True)
        if v[0] == "bx":
            return ("bx", v[1], v[2], not v[3])
        return OTHER


# ---------------------------------------------------------------------------------------
# AST lowering of a progress-class method
# ---------------------------------------------------------------------------------------
class _MethodAst(_AstLower):
    def __init__(self, fn, ci):
        _AstLower.__init__(self, fn)
        self.ci = ci
        a = self.node.args
        names = [x.arg for x in a.posonlyargs + a.args]
        self.selfname = names[0]
        self.params = names[1:] + [x.arg for x in a.kwonlyargs]
        self.env[self.selfname] = SELF
        for p in self.params:
            self.env[p] = ("param", p)
        if a.vararg:
            self.env[a.vararg.arg] = OTHER
        if a.kwarg:
            self.env[a.kwarg.arg] = OTHER

    def lower(self):
        self.block(self.node.body)
        code = self.finalize()
        fn = self.fn
        defaults = {}
        dv = fn.__defaults__ or ()
        pp = list(fn.__code__.co_varnames[:fn.__code__.co_argcount])
        for n, v in zip(pp[len(pp) - len(dv):], dv):
            defaults[n] = v
        for n, v in (fn.__kwdefaults__ or {}).items():
            defaults[n] = v
        rs = bool(self.rets) and all(r == SELF for r in self.rets)
        return MethodIR(fn.__name__, self.params, defaults, code, returns_self=rs, how="ast")

    def load_attr(self, recv, name, node):
        if recv == SELF:
            if name in self.ci.locks:
                return ("lock", name)
            if name in self.ci.events:
                return ("evt", name)
            if self.ci.is_method(name):
                return ("selfmeth", name)
            r = self.newreg()
            self.emit(Ins("read", r[1], name, pos=self.pos(node)))
            return r
        if recv[0] == "py":
            try:
                return ("py", getattr(recv[1], name))
            except AttributeError:
                return OTHER
        return ("meth", recv, name)

    def store_attr(self, recv, name, v, node):
        if recv == SELF:
            if name in self.ci.locks or name in self.ci.events:
                raise LoweringError("line %s: lock/event attribute %s is reassigned" % (self.pos(node), name))
            self.emit(Ins("write", name, irval(v), pos=self.pos(node)))

    def ev(self, n):
        t = type(n)
        if t is ast.Name:
            if n.id in self.env:
                return self.env[n.id]
            g = self.fn.__globals__
            if n.id in g:
                return ("py", g[n.id])
            if hasattr(_bi, n.id):
                return ("py", getattr(_bi, n.id))
            return OTHER
        if t is ast.Constant:
            return ("const", n.value)
        if t is ast.Attribute:
            return self.load_attr(self.ev(n.value), n.attr, n)
        if t is ast.Call:
            f = self.ev(n.func)
            args, kw, star = [], {}, False
            for a in n.args:
                if isinstance(a, ast.Starred):
                    star = True
                    self.ev(a.value)
                else:
                    args.append(self.ev(a))
            for k in n.keywords:
                v = self.ev(k.value)
                if k.arg is None:
                    star = True
                else:
                    kw[k.arg] = v
            if star:
                if f[0] in ("selfmeth", "exitfn") or (f[0] == "py" and _thread_kind(f[1])) or (f[0] == "meth" and f[2] in ("start", "cancel", "join", "acquire", "release")):
                    raise LoweringError("line %s: *args call of a tracked callable" % self.pos(n))
                self.emit(Ins("fault", [(-1, _callee_label(f), self.pos(n), None)], pos=self.pos(n)))
                return OTHER
            e, r = _call_effect(f, args, kw, self.pos(n), self.ci, self.newreg)
            if e is not None:
                self.emit(e)
            elif f[0] != "exitfn":
                self.emit(Ins("fault", [(-1, _callee_label(f), self.pos(n), None)], pos=self.pos(n)))
            return r
        if t is ast.Compare:
            return self.ev_compare(n)
        if t is ast.UnaryOp and isinstance(n.op, ast.Not):
            return self.ev_not(n)
        if t is ast.BoolOp:
            return self.ev_boolop(n)
        if t is ast.IfExp:
            return self.ev_ifexp(n)
        if t is ast.NamedExpr:
            v = self.ev(n.value)
            self.bind(n.target.id, v)
            return v
        if t is ast.Lambda:
            return OTHER
        if t in (ast.ListComp, ast.SetComp, ast.DictComp, ast.GeneratorExp):
            for c in ast.walk(n):
                if isinstance(c, ast.Name) and c.id == self.selfname:
                    raise LoweringError("line %s: comprehension over self in a progress method is not modelled" % self.pos(n))
            return OTHER
        return self.ev_children(n)

    def with_enter(self, cm, node):
        if cm[0] == "lock":
            self.emit(Ins("acq", cm[1], pos=self.pos(node)))
            return ("const", True)
        if cm[0] in ("reg", "param"):
            raise LoweringError("line %s: `with` on a tracked non-lock value" % self.pos(node))
        return OTHER

    def with_exit(self, cm, node, exc):
        if cm[0] == "lock":
            self.emit(Ins("rel", cm[1], pos=self.pos(node)))
            return False
        return True      # unknown context manager may swallow the exception

    def handler_matches(self, tnode):
        return _exc_match(self.ev(tnode))


def lower_ast_method(fn, ci):
    return _MethodAst(fn, ci).lower()


# ---------------------------------------------------------------------------------------
# traces: the observable event sequences of a method IR (for the bytecode/AST cross-check)
# ---------------------------------------------------------------------------------------
def _simple_paths(code, pc, limit=64):
    """handler continuation: set of op sequences until the method is left"""
    out = set()

    def go(p, acc, seen):
        if len(out) > limit:
            return
        if p is None:
            out.add(acc + ("propagate",))
            return
        if p in seen or p >= len(code):
            out.add(acc + ("...",))
            return
        i = code[p]
        seen = seen | {p}
        if i.op == "ret":
            out.add(acc + ("ret",))
        elif i.op == "raise":
            go(i.err, acc, seen) if i.err is not None else out.add(acc + ("propagate",))
        elif i.op == "jmp":
            go(i.c, acc, seen)
        elif i.op in ("cj", "nd"):
            go(i.c, acc, seen)
            go(p + 1, acc, seen)
        elif i.op == "nop":
            go(p + 1, acc, seen)
        elif i.op == "read":
            go(p + 1, acc, seen)
        else:
            go(p + 1, acc + ((i.op, i.a if i.op in ("acq", "rel", "write", "call") else None),), seen)
    go(pc, (), frozenset())
    return frozenset(out)


RAISING = ("start", "cancel", "join", "rel", "call", "fault", "pcall")


def traces(mir, limit=4000):
    """set of canonical traces (normal flow; raising-capable events carry their handler continuation)"""
    code = mir.code
    out = set()

    def canon(v, rm):
        if v is None:
            return None
        if isinstance(v, tuple) and v and v[0] == "reg":
            return ("r", rm.get(v[1], "?"))
        if isinstance(v, tuple):
            return tuple(canon(x, rm) if isinstance(x, tuple) else x for x in v)
        return v

    def go(p, acc, rm, back):
        if len(out) > limit:
            raise LoweringError("too many traces in %s" % mir.name)
        if p >= len(code):
            out.add(acc + (("end",),))
            return
        i = code[p]
        op = i.op
        if op == "nop":
            return go(p + 1, acc, rm, back)
        if op == "jmp":
            if i.c <= p:
                if back.get(p, 0) >= 1:
                    out.add(acc + (("loop",),))
                    return
                back = dict(back)
                back[p] = back.get(p, 0) + 1
            return go(i.c, acc, rm, back)
        if op == "ret":
            out.add(acc + (("ret",),))
            return
        if op == "raise":
            if i.err is not None:
                return go(i.err, acc, rm, back)
            out.add(acc + (("raise",),))
            return
        if op == "cj":
            for outcome in (True, False):
                t = i.c if outcome == i.d else p + 1
                if t <= p:
                    if back.get((p, outcome), 0) >= 1:
                        out.add(acc + (("loop",),))
                        continue
                    b2 = dict(back)
                    b2[(p, outcome)] = 1
                else:
                    b2 = back
                go(t, acc + (("test", i.a, canon(i.b, rm), outcome),), rm, b2)
            return
        if op == "nd":
            for t in (i.c, p + 1):
                if t <= p:
                    if back.get((p, t), 0) >= 1:
                        out.add(acc + (("loop",),))
                        continue
                    b2 = dict(back)
                    b2[(p, t)] = 1
                else:
                    b2 = back
                go(t, acc + (("nd",),), rm, b2)
            return
        rm2 = rm
        if op in ("read", "new"):
            rm2 = dict(rm)
            rm2[i.a] = len(rm)
        if op == "read":
            item = ("read", i.b, ("r", rm2[i.a]))
        elif op == "new":
            item = ("new", i.b, i.c, ("r", rm2[i.a]))
        elif op == "write":
            item = ("write", i.a, canon(i.b, rm))
        elif op in ("start", "cancel", "join"):
            item = (op, canon(i.a, rm))
        elif op in ("acq", "rel"):
            item = (op, i.a)
        elif op == "call":
            item = ("call", i.a, canon(i.b, rm))
        elif op == "fault":
            item = ("fault",)
        else:
            item = (op, repr(i.a))
        if op in RAISING:
            item = item + (_simple_paths(code, i.err) if i.err is not None else frozenset({("propagate",)}),)
        go(p + 1, acc + (item,), rm2, back)
    go(0, (), {}, {})
    return out


# ---------------------------------------------------------------------------------------
# linking: inline self-method calls -> flat thread program
# ---------------------------------------------------------------------------------------
class Program:
    """flat thread program.  Terminals are the pseudo pcs END (returned) / ABORT (left by exception)."""

    def __init__(self, name):
        self.name = name
        self.code = []
        self.segs = []        # (label, start_pc, end_pc) of the top-level calls
        self.regs = []

    def events(self):
        return [i for i in self.code if i.op in EVENT_OPS]

    def dump(self):
        return ["%3d %r" % (k, i) for k, i in enumerate(self.code)]


END, ABORT = "END", "ABORT"


def _subst(v, args, defaults, prefix):
    if v is None:
        return None
    if v[0] == "reg":
        return ("reg", prefix + v[1])
    if v[0] == "param":
        if v[1] in args:
            return args[v[1]]
        if v[1] in defaults:
            d = defaults[v[1]]
            return ("const", d) if (d is None or d is True or d is False) else OTHER
        return OTHER
    return v


def link(name, top, resolver, max_depth=6, renumber=False):
    """top: MethodIR whose `call` instructions are inlined through resolver(name)->MethodIR.
    Returns Program (unsliced).  renumber: every inlined copy of a fault site gets its own id
    (prog.sites: [(id, label, line, origin, original id)])."""
    prog = Program(name)
    out = prog.code
    regs = []
    prog.sites = []

    def inline(mir, args, prefix, ret_to, err_to, depth, toplevel):
        if depth > max_depth:
            raise LoweringError("call depth > %d while inlining %s" % (max_depth, mir.name))
        labs = [Label() for _ in range(len(mir.code) + 1)]

        def errt(i):
            return labs[i.err] if i.err is not None else err_to
        for k, i in enumerate(mir.code):
            labs[k].pc = len(out)
            op = i.op
            e = errt(i)
            if op == "ret":
                out.append(Ins("jmp", c=ret_to, pos=i.pos))
            elif op == "raise":
                out.append(Ins("jmp", c=e if e is not None else ABORT, pos=i.pos))
            elif op == "jmp":
                out.append(Ins("jmp", c=labs[i.c], pos=i.pos))
            elif op == "cj" and i.a == "same":
                v1 = _subst(i.b[0], args, mir.defaults, prefix)
                v2 = _subst(i.b[1], args, mir.defaults, prefix)
                if v1[0] == "reg" and v2[0] == "reg":
                    out.append(Ins("cj", "same", (v1, v2), labs[i.c], i.d, pos=i.pos))
                else:
                    out.append(Ins("nd", c=labs[i.c], pos=i.pos))
            elif op == "cj":
                v = _subst(i.b, args, mir.defaults, prefix)
                if v[0] == "const":
                    val = (v[1] is None) if i.a == "none" else bool(v[1])
                    out.append(Ins("jmp", c=labs[i.c], pos=i.pos) if val == i.d else Ins("nop", pos=i.pos))
                elif v[0] == "reg":
                    out.append(Ins("cj", i.a, v, labs[i.c], i.d, pos=i.pos))
                else:
                    out.append(Ins("nd", c=labs[i.c], pos=i.pos))
            elif op == "nd":
                out.append(Ins("nd", c=labs[i.c], err=e, pos=i.pos))
            elif op == "call":
                callee = resolver(i.a)
                bound = {}
                cargs = [_subst(a, args, mir.defaults, prefix) for a in (i.b or ())]
                for pn, av in zip(callee.params, cargs):
                    bound[pn] = av
                after = Label()
                start = len(out)
                inline(callee, bound, "%s%d." % (prefix, len(out)), after, e, depth + 1, False)
                after.pc = len(out)
                if toplevel:
                    prog.segs.append((i.a, start, len(out)))
            elif op in ("read", "new"):
                r = prefix + i.a
                regs.append(r)
                out.append(Ins(op, r, i.b, i.c, i.d, err=e, pos=i.pos))
            elif op == "write":
                out.append(Ins(op, i.a, _subst(i.b, args, mir.defaults, prefix), err=e, pos=i.pos))
            elif op in ("start", "cancel", "join", "xuse", "xshut"):
                out.append(Ins(op, _subst(i.a, args, mir.defaults, prefix), err=e, pos=i.pos))
            elif op == "fault" and renumber:
                ents = []
                for ent in i.a:
                    nid = len(prog.sites)
                    prog.sites.append((nid, ent[1], ent[2], mir.name, ent[0]))
                    ents.append((nid,) + tuple(ent[1:]))
                out.append(Ins(op, ents, err=e, pos=i.pos))
            elif op in ("acq", "rel", "fault", "nop"):
                out.append(Ins(op, i.a, i.b, i.c, i.d, err=e, pos=i.pos))
            else:
                raise LoweringError("link: unexpected op %s" % op)
        labs[len(mir.code)].pc = len(out)
    inline(top, {}, "", END, None, 0, True)
    out.append(Ins("jmp", c=END))
    for i in out:
        if isinstance(i.c, Label):
            i.c = i.c.pc
        if isinstance(i.err, Label):
            i.err = i.err.pc
    prog.regs = regs
    return prog


def toplevel_calls(calls):
    """synthetic caller: p.m1(args); p.m2(args); ...   calls = [(method, (argvals...)), ...]"""
    code = [Ins("call", m, tuple(a)) for m, a in calls]
    code.append(Ins("ret"))
    return MethodIR("<caller>", [], {}, code)


# ---------------------------------------------------------------------------------------
# slicing + compaction
# ---------------------------------------------------------------------------------------
SEED_OPS = ("new", "start", "cancel", "join", "acq", "rel", "fault", "xuse", "xshut")


def _branch_relevance(prog, relev):
    """which cj/nd instructions matter, given the set `relev` of relevant non-branch instructions:
    a branch is irrelevant iff both successors meet at the same instruction before anything relevant
    happens (branches already proven irrelevant are transparent)"""
    code = prog.code
    proven = set()

    def g(p):
        seen = set()
        while True:
            if p in (END, ABORT):
                return p
            if p >= len(code):
                return END
            if p in seen:
                return ("loop", p)
            seen.add(p)
            i = code[p]
            if p in relev:
                return p
            if i.op == "jmp":
                p = i.c
            elif i.op in ("cj", "nd"):
                if p in proven:
                    p = p + 1
                else:
                    return p
            else:
                p = p + 1
    branches = [k for k, i in enumerate(code) if i.op in ("cj", "nd")]
    changed = True
    while changed:
        changed = False
        for k in branches:
            if k in proven:
                continue
            a, b = g(code[k].c), g(k + 1)
            if a == b and not (isinstance(a, tuple)):
                proven.add(k)
                changed = True
    return set(branches) - proven


def slice_programs(progs):
    """marks irrelevant instructions as nop (jointly over all thread programs); returns relevant attrs"""
    relev = [set(k for k, i in enumerate(p.code) if i.op in SEED_OPS) for p in progs]
    relbr = [set() for _ in progs]
    attrs = set()
    changed = True
    while changed:
        changed = False
        for pi, p in enumerate(progs):
            used = set()
            for k in relev[pi] | relbr[pi]:
                i = p.code[k]
                for v in (i.a, i.b) + (tuple(i.b) if (i.op == "cj" and i.a == "same") else ()):
                    if isinstance(v, tuple) and v and v[0] == "reg":
                        used.add(v[1])
            for k, i in enumerate(p.code):
                if k in relev[pi]:
                    continue
                if i.op == "read" and i.a in used:
                    relev[pi].add(k)
                    changed = True
                    attrs.add(i.b)
                elif i.op == "write" and i.a in attrs:
                    relev[pi].add(k)
                    changed = True
            nb = _branch_relevance(p, relev[pi])
            if nb != relbr[pi]:
                relbr[pi] = nb
                changed = True
    for pi, p in enumerate(progs):
        for k, i in enumerate(p.code):
            if k in relev[pi] or k in relbr[pi] or i.op == "jmp":
                continue
            p.code[k] = Ins("nop", pos=i.pos)
    return attrs


def compact(prog):
    """drop nops, thread jumps; keeps segs"""
    code = prog.code
    n = len(code)

    def thread(p, seen=()):
        while p not in (END, ABORT) and p < n and p not in seen:
            i = code[p]
            if i.op == "nop":
                seen += (p,)
                p += 1
            elif i.op == "jmp":
                seen += (p,)
                p = i.c
            else:
                break
        if p not in (END, ABORT) and p >= n:
            return END
        return p
    keep = [k for k, i in enumerate(code) if i.op not in ("nop", "jmp")]
    # a kept instruction that falls through into a jmp needs that jmp: re-emit explicit jumps where needed
    new = []
    idx = {}
    pending = []
    for k in keep:
        idx[k] = len(new)
        i = code[k].copy()
        new.append(i)
        ft = thread(k + 1)
        # fallthrough must reach `ft`: if the next kept instruction is not ft, add a jmp
        nxt_keep = next((q for q in keep if q > k), None)
        if ft != nxt_keep:
            new.append(Ins("jmp", c=("old", ft), pos=i.pos))
    def m(t):
        if t in (END, ABORT):
            return t
        t = thread(t)
        if t in (END, ABORT):
            return t
        return idx[t]
    for i in new:
        if i.op == "jmp" and isinstance(i.c, tuple):
            i.c = m(i.c[1])
        elif i.op in ("cj", "nd"):
            i.c = m(i.c)
        if i.err is not None:
            i.err = m(i.err)
    segs = []
    for (nm, a, b) in prog.segs:
        ka = [idx[k] for k in keep if a <= k < b]
        segs.append((nm, min(ka) if ka else None, (max(ka) + 1) if ka else None))
    out = Program(prog.name)
    out.code = new
    out.segs = segs
    out.entry = m(0)
    used = []
    for i in new:
        if i.op in ("read", "new") and i.a not in used:
            used.append(i.a)
    out.regs = used
    return out


# ---------------------------------------------------------------------------------------
# bounded model checking
# ---------------------------------------------------------------------------------------
UNBORN, CREATED, WAITING, RUNNING, DONE, CANCELLED, CANCUN = range(7)
TS_NAMES = ["UNBORN", "CREATED", "WAITING", "RUNNING", "DONE", "CANCELLED", "CANCELLED-BEFORE-START"]


def _bits(n):
    return max(1, (max(1, n) - 1).bit_length() if n > 1 else 1)


class Bmc:
    """z3 unrolling of: one caller thread (`main` Program) + up to T timer objects, each of which, when it
    fires, runs the Program of its target in its own thread.

    threading.Timer contract: start(): CREATED->WAITING (a timer cancelled before start() exits at once);
    after its interval a WAITING timer atomically becomes RUNNING and executes its target; cancel():
    CREATED/WAITING -> cancelled, RUNNING/DONE -> no effect; start() of a started timer raises RuntimeError;
    calling a method on None raises AttributeError (the raising thread leaves through its handlers).
    Lock/RLock: acquire blocks; `with` releases on exceptions (lowered handler code)."""

    def __init__(self, main, callbacks, fields_init, locks, T, B, firing=True, nfault=0, fault_any=None):
        """fault_any: None | 'caller' | 'all' -- every execution of a fault site (by the caller / by any thread)
        may raise (one free Bool per step) instead of the single symbolic fault index of H2"""
        self.fault_any = fault_any
        self.main, self.cbs = main, callbacks
        self.cbnames = sorted(callbacks)
        self.T, self.B = T, B
        self.firing = firing
        self.locks = dict(locks)
        self.attrs = sorted(fields_init)
        self.fields_init = fields_init
        self.nfault = nfault
        T_ = T
        self.NONE, self.FALSE, self.TRUE, self.OTHERV = T_, T_ + 1, T_ + 2, T_ + 3
        self.vb = _bits(T_ + 4)
        maxlen = max([len(main.code)] + [len(p.code) for p in callbacks.values()])
        self.pb = _bits(maxlen + 3)
        self.ENDPC = (1 << self.pb) - 2
        self.ABORTPC = (1 << self.pb) - 1
        self.MAINTID = T_
        self.FREE = T_ + 1
        self.ob = _bits(T_ + 2)
        self.wb = _bits(T_ + 2)
        self.STUT = T_ + 1
        self.tb = _bits(max(1, len(self.cbnames)))
        self.fb = _bits(nfault + 2)
        self.NOFAULT = (1 << self.fb) - 1
        self.transitions = 0
        self.solver = None

    # -- helpers -----------------------------------------------------------------------
    def V(self, x):
        return z3.BitVecVal(x, self.vb)

    def P(self, x):
        if x == END:
            x = self.ENDPC
        elif x == ABORT:
            x = self.ABORTPC
        return z3.BitVecVal(x, self.pb)

    def val(self, v, regs, prog):
        if v[0] == "reg":
            return regs[prog.regs.index(v[1])]
        if v[0] == "const":
            if v[1] is None:
                return self.V(self.NONE)
            return self.V(self.TRUE if v[1] else self.FALSE)
        return self.V(self.OTHERV)

    def is_timer(self, x):
        return z3.ULT(x, self.V(self.T))

    def truthy(self, x):
        return z3.And(x != self.V(self.NONE), x != self.V(self.FALSE))

    def resolve(self, prog, p, regs, ndv, depth=0):
        """pc of the next event instruction from p (control instructions are skipped)"""
        if p in (END, ABORT):
            return self.P(p)
        if depth > 200:
            raise LoweringError("control-flow resolution too deep (loop without events?)")
        if p >= len(prog.code):
            return self.P(END)
        i = prog.code[p]
        if i.op == "jmp":
            return self.resolve(prog, i.c, regs, ndv, depth + 1)
        if i.op == "nop":
            return self.resolve(prog, p + 1, regs, ndv, depth + 1)
        if i.op == "cj":
            if i.a == "same":
                c = self.val(i.b[0], regs, prog) == self.val(i.b[1], regs, prog)
            else:
                x = self.val(i.b, regs, prog)
                c = (x == self.V(self.NONE)) if i.a == "none" else self.truthy(x)
            if not i.d:
                c = z3.Not(c)
            return z3.If(c, self.resolve(prog, i.c, regs, ndv, depth + 1), self.resolve(prog, p + 1, regs, ndv, depth + 1))
        return self.P(p)

    def state(self, k):
        T = self.T
        s = {
            "ts": [z3.BitVec("ts%d_%d" % (k, i), 3) for i in range(T)],
            "tg": [z3.BitVec("tg%d_%d" % (k, i), self.tb) for i in range(T)],
            "fld": {a: z3.BitVec("f%d_%s" % (k, a), self.vb) for a in self.attrs},
            "own": {a: z3.BitVec("lo%d_%s" % (k, a), self.ob) for a in self.locks},
            "cnt": {a: z3.BitVec("lc%d_%s" % (k, a), 3) for a in self.locks if self.locks[a] == "RLock"},
            "mpc": z3.BitVec("mpc%d" % k, self.pb),
            "mreg": [z3.BitVec("mr%d_%d" % (k, j), self.vb) for j in range(len(self.main.regs))],
            "cpc": [z3.BitVec("cpc%d_%d" % (k, i), self.pb) for i in range(T)],
            "creg": [[z3.BitVec("cr%d_%d_%d" % (k, i, j), self.vb) for j in range(self.ncreg)] for i in range(T)],
            "nxt": z3.BitVec("nxt%d" % k, self.vb),
            "flt": z3.Bool("flt%d" % k),
        }
        return s

    def flat(self, s):
        out = list(s["ts"]) + list(s["tg"]) + [s["fld"][a] for a in self.attrs] + [s["own"][a] for a in sorted(s["own"])]
        out += [s["cnt"][a] for a in sorted(s["cnt"])] + [s["mpc"]] + list(s["mreg"]) + list(s["cpc"]) + [r for rr in s["creg"] for r in rr] + [s["nxt"]]
        return out

    # -- one thread's events -------------------------------------------------------------
    def thread_events(self, a, upd, act, prog, pc, regs, tid, ndv, fk, window=None):
        """a: current state; upd: dict of pending next-state expressions (mutated: shared components);
        returns (enabled, nextpc, newregs)"""
        T = self.T
        en = []
        nextpc = pc
        newregs = list(regs)
        for p, ins in enumerate(prog.code):
            op = ins.op
            if op not in EVENT_OPS:
                continue
            if window is not None and not window(p):
                continue
            self.transitions += 1
            here = pc == self.P(p)
            g = z3.And(act, here)
            enabled = z3.BoolVal(True)
            err = z3.BoolVal(False)
            regs_p = list(regs)
            ndjump = None
            if op == "read":
                j = prog.regs.index(ins.a)
                regs_p[j] = a["fld"][ins.b]
            elif op == "write":
                upd["fld"][ins.a] = z3.If(g, self.val(ins.b, regs, prog), upd["fld"][ins.a])
            elif op == "new":
                j = prog.regs.index(ins.a)
                enabled = z3.ULT(a["nxt"], self.V(T))
                tix = self.cbnames.index(ins.b)
                for i in range(T):
                    gi = z3.And(g, a["nxt"] == self.V(i))
                    upd["ts"][i] = z3.If(gi, z3.BitVecVal(CREATED, 3), upd["ts"][i])
                    upd["tg"][i] = z3.If(gi, z3.BitVecVal(tix, self.tb), upd["tg"][i])
                upd["nxt"] = z3.If(g, a["nxt"] + 1, upd["nxt"])
                regs_p[j] = a["nxt"]
            elif op in ("start", "cancel", "join"):
                x = self.val(ins.a, regs, prog)
                tsx = z3.BitVecVal(UNBORN, 3)
                for i in range(T):
                    tsx = z3.If(x == self.V(i), a["ts"][i], tsx)
                if op == "start":
                    err = z3.Not(z3.And(self.is_timer(x), z3.Or(tsx == CREATED, tsx == CANCUN)))
                    for i in range(T):
                        gi = z3.And(g, x == self.V(i))
                        upd["ts"][i] = z3.If(z3.And(gi, a["ts"][i] == CREATED), z3.BitVecVal(WAITING, 3),
                                             z3.If(z3.And(gi, a["ts"][i] == CANCUN), z3.BitVecVal(CANCELLED, 3), upd["ts"][i]))
                elif op == "cancel":
                    err = z3.Or(x == self.V(self.NONE), x == self.V(self.TRUE), x == self.V(self.FALSE))
                    for i in range(T):
                        gi = z3.And(g, x == self.V(i))
                        upd["ts"][i] = z3.If(z3.And(gi, a["ts"][i] == CREATED), z3.BitVecVal(CANCUN, 3),
                                             z3.If(z3.And(gi, a["ts"][i] == WAITING), z3.BitVecVal(CANCELLED, 3), upd["ts"][i]))
                else:
                    bad = z3.Or(z3.Not(self.is_timer(x)), tsx == CREATED, tsx == CANCUN, tsx == UNBORN)
                    if tid != self.MAINTID:
                        bad = z3.Or(bad, x == self.V(tid))
                    err = bad
                    enabled = z3.Or(bad, tsx == DONE, tsx == CANCELLED)
            elif op in ("xuse", "xshut"):
                # concurrent.futures executor objects share the timer-object id space:
                # CREATED (constructed, no thread) -> WAITING (worker threads alive) -> CANCELLED (shut down)
                x = self.val(ins.a, regs, prog)
                tsx = z3.BitVecVal(UNBORN, 3)
                for i in range(T):
                    tsx = z3.If(x == self.V(i), a["ts"][i], tsx)
                if op == "xuse":
                    err = z3.And(self.is_timer(x), z3.Or(tsx == CANCELLED, tsx == CANCUN))   # submit after shutdown raises
                    for i in range(T):
                        gi = z3.And(g, x == self.V(i))
                        upd["ts"][i] = z3.If(z3.And(gi, a["ts"][i] == CREATED), z3.BitVecVal(WAITING, 3), upd["ts"][i])
                else:
                    for i in range(T):
                        gi = z3.And(g, x == self.V(i))
                        upd["ts"][i] = z3.If(z3.And(gi, z3.Or(a["ts"][i] == CREATED, a["ts"][i] == WAITING)), z3.BitVecVal(CANCELLED, 3), upd["ts"][i])
            elif op == "acq":
                own = a["own"][ins.a]
                me = z3.BitVecVal(tid, self.ob)
                free = own == z3.BitVecVal(self.FREE, self.ob)
                if self.locks[ins.a] == "RLock":
                    enabled = z3.Or(free, own == me)
                    upd["cnt"][ins.a] = z3.If(g, a["cnt"][ins.a] + 1, upd["cnt"][ins.a])
                else:
                    enabled = free
                upd["own"][ins.a] = z3.If(g, me, upd["own"][ins.a])
            elif op == "rel":
                own = a["own"][ins.a]
                me = z3.BitVecVal(tid, self.ob)
                freev = z3.BitVecVal(self.FREE, self.ob)
                if self.locks[ins.a] == "RLock":
                    err = own != me
                    last = a["cnt"][ins.a] == 1
                    upd["cnt"][ins.a] = z3.If(z3.And(g, z3.Not(err)), a["cnt"][ins.a] - 1, upd["cnt"][ins.a])
                    upd["own"][ins.a] = z3.If(z3.And(g, z3.Not(err), last), freev, upd["own"][ins.a])
                else:
                    err = own == freev
                    upd["own"][ins.a] = z3.If(g, freev, upd["own"][ins.a])
            elif op == "fault":
                ids = [s_[0] for s_ in ins.a]
                lo, hi = min(ids), max(ids)
                if fk is None:
                    err = z3.BoolVal(False)
                elif z3.is_bool(fk):
                    err = fk
                    upd["flt"] = z3.Or(upd["flt"], z3.And(g, err))
                else:
                    err = z3.And(z3.UGE(fk, z3.BitVecVal(lo, self.fb)), z3.ULE(fk, z3.BitVecVal(hi, self.fb)))
                    upd["flt"] = z3.Or(upd["flt"], z3.And(g, err))
            elif op == "nd":
                ndjump = ins.c
            if ndjump is not None:
                np_ = z3.If(ndv, self.resolve(prog, ndjump, regs_p, ndv), self.resolve(prog, p + 1, regs_p, ndv))
            else:
                np_ = self.resolve(prog, p + 1, regs_p, ndv)
            if not z3.is_false(err):
                eh = self.resolve(prog, ins.err, regs_p, ndv) if ins.err is not None else self.P(ABORT)
                np_ = z3.If(err, eh, np_)
            nextpc = z3.If(here, np_, nextpc)
            for j in range(len(regs)):
                if regs_p[j] is not regs[j]:
                    newregs[j] = z3.If(here, regs_p[j], newregs[j])
            en.append(z3.And(here, enabled))
        return (z3.Or(*en) if en else z3.BoolVal(False)), nextpc, newregs

    # -- unrolling -------------------------------------------------------------------------
    def build(self, timeout_s=120):
        T, B = self.T, self.B
        self.ncreg = max([len(p.regs) for p in self.cbs.values()] + [0])
        s = z3.SolverFor("QF_BV")
        s.set("timeout", int(timeout_s * 1000))
        S = [self.state(k) for k in range(B + 1)]
        who = [z3.BitVec("who%d" % k, self.wb) for k in range(B)]
        ndv = [z3.Bool("nd%d" % k) for k in range(B)]
        fk = z3.BitVec("fault", self.fb) if self.nfault else None
        self.fz = [z3.Bool("fz%d" % k) for k in range(B)] if self.fault_any else None
        self.S, self.who, self.ndv, self.fk = S, who, ndv, fk
        # sequential system (timers never fire): the caller's k-th step can only execute instructions at depth k
        seqwin = depth_windows(self.main) if not self.firing else None
        s0 = S[0]
        init = [x == UNBORN for x in s0["ts"]] + [x == 0 for x in s0["tg"]]
        for a_ in self.attrs:
            init.append(s0["fld"][a_] == self.val(self.fields_init[a_], [], self.main))
        for a_ in self.locks:
            init.append(s0["own"][a_] == self.FREE)
        for a_ in s0["cnt"]:
            init.append(s0["cnt"][a_] == 0)
        none = self.V(self.NONE)
        init.append(s0["mpc"] == self.resolve(self.main, getattr(self.main, "entry", 0), [none] * len(self.main.regs), False))
        init += [r == none for r in s0["mreg"]]
        init += [x == self.P(END) for x in s0["cpc"]] + [r == none for rr in s0["creg"] for r in rr]
        init.append(s0["nxt"] == 0)
        init.append(z3.Not(s0["flt"]))
        s.add(*init)
        if fk is not None:
            s.add(z3.Or(fk == self.NOFAULT, z3.ULT(fk, z3.BitVecVal(self.nfault, self.fb))))
        for k in range(B):
            a, b = S[k], S[k + 1]
            upd = {"ts": list(a["ts"]), "tg": list(a["tg"]), "fld": dict(a["fld"]), "own": dict(a["own"]), "cnt": dict(a["cnt"]), "nxt": a["nxt"], "flt": a["flt"]}
            w = who[k]
            enabled = []
            # main thread
            mact = w == self.MAINTID
            main_live = z3.And(a["mpc"] != self.P(END), a["mpc"] != self.P(ABORT))
            window = None
            if seqwin is not None:
                window = (lambda p, k=k: p in seqwin[0] and seqwin[0][p] <= k <= seqwin[1][p])
            en, npc, nregs = self.thread_events(a, upd, mact, self.main, a["mpc"], a["mreg"], self.MAINTID, ndv[k],
                                                (self.fz[k] if self.fault_any else fk), window)
            enabled.append(z3.And(mact, main_live, en))
            s.add(b["mpc"] == z3.If(mact, npc, a["mpc"]))
            for j in range(len(a["mreg"])):
                s.add(b["mreg"][j] == z3.If(mact, nregs[j], a["mreg"][j]))
            # timer threads
            for i in range(T):
                iact = w == i
                npc_i = a["cpc"][i]
                nregs_i = list(a["creg"][i])
                en_i = []
                if self.firing:
                    fire = z3.And(iact, a["ts"][i] == WAITING)
                    self.transitions += 1
                    startpc = self.P(END)
                    for tix, nm in enumerate(self.cbnames):
                        pr = self.cbs[nm]
                        sp = self.resolve(pr, getattr(pr, "entry", 0), [none] * self.ncreg, ndv[k])
                        startpc = z3.If(a["tg"][i] == tix, sp, startpc)
                    npc_i = z3.If(fire, startpc, npc_i)
                    nregs_i = [z3.If(fire, none, r) for r in nregs_i]
                    en_i.append(fire)
                    for tix, nm in enumerate(self.cbnames):
                        pr = self.cbs[nm]
                        if not pr.events():
                            continue
                        tact = z3.And(iact, a["ts"][i] == RUNNING, a["tg"][i] == tix)
                        regs_t = a["creg"][i][:len(pr.regs)]
                        e2, np2, nr2 = self.thread_events(a, upd, tact, pr, a["cpc"][i], regs_t, i, ndv[k],
                                                          self.fz[k] if self.fault_any == "all" else None)
                        en_i.append(z3.And(tact, e2))
                        npc_i = z3.If(tact, np2, npc_i)
                        for j in range(len(regs_t)):
                            nregs_i[j] = z3.If(tact, nr2[j], nregs_i[j])
                    # a thread whose pc reaches a terminal is DONE (in the same step)
                    term = z3.Or(npc_i == self.P(END), npc_i == self.P(ABORT))
                    upd["ts"][i] = z3.If(z3.And(iact, term), z3.BitVecVal(DONE, 3),
                                         z3.If(z3.And(iact, a["ts"][i] == WAITING), z3.BitVecVal(RUNNING, 3), upd["ts"][i]))
                s.add(b["cpc"][i] == npc_i)
                for j in range(self.ncreg):
                    s.add(b["creg"][i][j] == nregs_i[j])
                if en_i:
                    enabled.append(z3.Or(*en_i))
            stut = w == self.STUT
            enabled.append(stut)
            if k + 1 < B:
                s.add(z3.Implies(stut, who[k + 1] == self.STUT))
            s.add(z3.Or(*enabled))
            s.add(z3.ULE(w, z3.BitVecVal(self.STUT, self.wb)))
            for i in range(T):
                s.add(b["ts"][i] == upd["ts"][i], b["tg"][i] == upd["tg"][i])
            for a_ in self.attrs:
                s.add(b["fld"][a_] == upd["fld"][a_])
            for a_ in self.locks:
                s.add(b["own"][a_] == upd["own"][a_])
            for a_ in a["cnt"]:
                s.add(b["cnt"][a_] == upd["cnt"][a_])
            s.add(b["nxt"] == upd["nxt"])
            s.add(b["flt"] == upd["flt"])
        self.solver = s
        return s

    # -- properties ------------------------------------------------------------------------
    def main_left(self, k):
        a = self.S[k]
        return z3.Or(a["mpc"] == self.P(END), a["mpc"] == self.P(ABORT))

    def any_running(self, k):
        return z3.Or(*[x == RUNNING for x in self.S[k]["ts"]]) if self.T else z3.BoolVal(False)

    def violation(self, k):
        a = self.S[k]
        if not self.T:
            return z3.BoolVal(False)
        return z3.And(self.main_left(k), z3.Not(self.any_running(k)), z3.Or(*[x == WAITING for x in a["ts"]]))

    def any_violation(self, faulted=None):
        """faulted=True: ... after an injected fault was raised; False: ... on a fault-free run"""
        if faulted is None:
            return z3.Or(*[self.violation(k) for k in range(self.B + 1)])
        if faulted:
            return z3.Or(*[z3.And(self.violation(k), self.S[k]["flt"]) for k in range(self.B + 1)])
        return z3.Or(*[z3.And(self.violation(k), z3.Not(self.S[k]["flt"])) for k in range(self.B + 1)])

    def overlap(self, seg):
        """some callback is RUNNING while the caller is inside top-level segment `seg` (after its first
        event, up to and including the state right after its last event)"""
        nm, lo, hi = seg
        if lo is None:
            return z3.BoolVal(False)
        out = []
        for k in range(1, self.B + 1):
            a = self.S[k]
            inside = z3.And(z3.UGT(a["mpc"], self.P(lo)), z3.ULT(a["mpc"], self.P(hi)))
            just_left = z3.And(self.who[k - 1] == self.MAINTID,
                               z3.UGE(self.S[k - 1]["mpc"], self.P(lo)), z3.ULT(self.S[k - 1]["mpc"], self.P(hi)),
                               z3.Not(z3.And(z3.UGE(a["mpc"], self.P(lo)), z3.ULT(a["mpc"], self.P(hi)))))
            out.append(z3.And(self.any_running(k), z3.Or(inside, just_left)))
        return z3.Or(*out)

    def reach_end(self):
        """reachability twin: the caller can run to completion and some timer did fire"""
        return z3.Or(*[self.main_left(k) for k in range(self.B + 1)])

    # -- model -> schedule -----------------------------------------------------------------
    def schedule(self, m):
        def ev(x):
            return m.eval(x, model_completion=True).as_long()
        out = []
        for k in range(self.B):
            a = self.S[k]
            w = ev(self.who[k])
            if w == self.STUT:
                break
            if w == self.MAINTID:
                pc = ev(a["mpc"])
                ins = self.main.code[pc]
                st = {"thread": "main", "op": ins.op, "pc": pc, "line": ins.pos}
                if ins.op == "fault":
                    if self.fault_any:
                        st["raises"] = bool(m.eval(self.fz[k], model_completion=True))
                        st["site"] = list(ins.a[0][3]) if len(ins.a[0]) > 3 and ins.a[0][3] else None
                        st["what"] = ins.a[0][1]
                    else:
                        f = ev(self.fk) if self.fk is not None else None
                        st["raises"] = bool(f is not None and any(s_[0] == f for s_ in ins.a))
                        st["sites"] = [s_[0] for s_ in ins.a]
                if ins.op == "nd":
                    st["taken"] = bool(m.eval(self.ndv[k], model_completion=True))
                out.append(st)
            else:
                if ev(a["ts"][w]) == WAITING:
                    out.append({"thread": "timer%d" % w, "op": "fire", "target": self.cbnames[ev(a["tg"][w])]})
                else:
                    pr = self.cbs[self.cbnames[ev(a["tg"][w])]]
                    pc = ev(a["cpc"][w])
                    ins = pr.code[pc]
                    st = {"thread": "timer%d" % w, "op": ins.op, "pc": pc, "line": ins.pos}
                    if ins.op == "fault":
                        st["raises"] = bool(self.fault_any == "all" and m.eval(self.fz[k], model_completion=True))
                        st["site"] = list(ins.a[0][3]) if len(ins.a[0]) > 3 and ins.a[0][3] else None
                        st["what"] = ins.a[0][1]
                    out.append(st)
        k_end = len(out)
        a = self.S[k_end]
        final = {"timers": [TS_NAMES[ev(x)] for x in a["ts"]], "main": "returned" if ev(a["mpc"]) == self.ENDPC else
                 ("raised" if ev(a["mpc"]) == self.ABORTPC else "pc%d" % ev(a["mpc"]))}
        # cut at the first violating state
        for k in range(k_end + 1):
            if z3.is_true(m.eval(self.violation(k), model_completion=True)):
                out = out[:k]
                a = self.S[k]
                final = {"timers": [TS_NAMES[ev(x)] for x in a["ts"]], "main": "returned" if ev(a["mpc"]) == self.ENDPC else "raised"}
                break
        return out, final


def merge_faults(prog):
    """adjacent fault instructions with the same handler (and no jump target in between) become one event:
    'one of these calls raises'"""
    code = prog.code
    targets = {getattr(prog, "entry", 0)}
    for i in code:
        if i.op in ("jmp", "cj", "nd") and isinstance(i.c, int):
            targets.add(i.c)
        if isinstance(i.err, int):
            targets.add(i.err)
    for (_, lo, hi) in prog.segs:
        if lo is not None:
            targets.add(lo)
    new, idx = [], {}
    for k, i in enumerate(code):
        if i.op == "fault" and new and new[-1].op == "fault" and k not in targets and new[-1].err == i.err and idx.get(k - 1) == len(new) - 1:
            new[-1].a = list(new[-1].a) + list(i.a)
            idx[k] = len(new) - 1
            continue
        idx[k] = len(new)
        new.append(i.copy())

    def m(t):
        return idx[t] if isinstance(t, int) else t
    for i in new:
        if i.op in ("jmp", "cj", "nd"):
            i.c = m(i.c)
        if i.err is not None:
            i.err = m(i.err)
    out = Program(prog.name)
    out.code = new
    out.entry = m(getattr(prog, "entry", 0))
    out.regs = list(prog.regs)
    out.segs = [(nm, m(lo) if lo is not None else None, (m(hi - 1) + 1) if hi is not None else None) for nm, lo, hi in prog.segs]
    return out


def longest_path(prog, cyclic=None):
    """max number of events on any path entry -> terminal (programs are DAGs after unrolling);
    `cyclic`: value returned for programs with loops (default: LoweringError)"""
    try:
        return _longest_path(prog)
    except LoweringError:
        if cyclic is None:
            raise
        return cyclic


def _longest_path(prog):
    code = prog.code
    memo = {}

    def f(p, stack=()):
        if p in (END, ABORT) or p is None or p >= len(code):
            return 0
        if p in memo:
            return memo[p]
        if p in stack:
            raise LoweringError("cycle in program %s: cannot bound the unrolling" % prog.name)
        i = code[p]
        st = stack + (p,)
        if i.op == "jmp":
            r = f(i.c, st)
        elif i.op == "cj":
            r = max(f(i.c, st), f(p + 1, st))
        elif i.op == "nop":
            r = f(p + 1, st)
        else:
            r = 1 + max(f(p + 1, st), f(i.c, st) if i.op == "nd" else 0, f(i.err, st) if i.err is not None else 0)
        memo[p] = r
        return r
    return f(getattr(prog, "entry", 0))


def max_news(prog):
    """greatest number of object constructions (`new`) on any path of a DAG program"""
    code = prog.code
    memo = {}

    def f(p, stack=()):
        if p in (END, ABORT) or p is None or p >= len(code):
            return 0
        if p in memo:
            return memo[p]
        if p in stack:
            raise LoweringError("cycle in program %s" % prog.name)
        i = code[p]
        st = stack + (p,)
        if i.op == "jmp":
            r = f(i.c, st)
        elif i.op == "cj":
            r = max(f(i.c, st), f(p + 1, st))
        else:
            r = (1 if i.op == "new" else 0) + max(f(p + 1, st), f(i.c, st) if i.op == "nd" else 0, f(i.err, st) if i.err is not None else 0)
        memo[p] = r
        return r
    return f(getattr(prog, "entry", 0))


def depth_windows(prog):
    """for a DAG program executed by a single thread: (dmin, dmax) = least/greatest number of events
    executed before event p can be reached"""
    code = prog.code

    def next_events(p, seen=()):
        if p in (END, ABORT) or p is None or p >= len(code) or p in seen:
            return set()
        i = code[p]
        if i.op == "jmp":
            return next_events(i.c, seen + (p,))
        if i.op == "nop":
            return next_events(p + 1, seen + (p,))
        if i.op == "cj":
            return next_events(i.c, seen + (p,)) | next_events(p + 1, seen + (p,))
        return {p}
    succ = {}
    for p, i in enumerate(code):
        if i.op in EVENT_OPS:
            sset = next_events(p + 1)
            if i.op == "nd":
                sset |= next_events(i.c)
            if i.err is not None:
                sset |= next_events(i.err)
            succ[p] = sset
    dmin, dmax = {}, {}
    start = next_events(getattr(prog, "entry", 0))
    work = [(q, 0) for q in start]
    # longest/shortest distances on a DAG by relaxation (programs are small)
    guard = 0
    while work:
        guard += 1
        if guard > 500000:
            raise LoweringError("depth analysis does not terminate (cycle?)")
        q, d = work.pop()
        ch = False
        if q not in dmin or d < dmin[q]:
            dmin[q] = d
            ch = True
        if q not in dmax or d > dmax[q]:
            dmax[q] = d
            ch = True
        if ch:
            for r in succ[q]:
                work.append((r, d + 1))
    return dmin, dmax


# ---------------------------------------------------------------------------------------
# AST lowering of an API function that creates progress objects
# ---------------------------------------------------------------------------------------
class Site:
    __slots__ = ("id", "label", "line", "pos", "kind")

    def __init__(self, id, label, line, pos, kind):
        self.id, self.label, self.line, self.pos, self.kind = id, label, line, pos, kind

    def as_dict(self):
        return {"id": self.id, "label": self.label, "line": self.line, "pos": list(self.pos) if self.pos else None, "kind": self.kind}


class _ApiAst(_AstLower):
    """every call expression is a fault site; calls on the target progress object are `call`s of the
    progress class' methods; other progress objects' calls are fault sites."""

    def __init__(self, fn, util_mod, target, unroll=2, enter_returns_self=True, exit_suppresses=False):
        _AstLower.__init__(self, fn)
        self.unroll = unroll
        self.util = util_mod
        self.target = target
        self.sites = []
        self.progsites = {}      # ast node id -> ordinal
        self.barrier = -1
        self.nplaced = 0
        self.enter_returns_self = enter_returns_self
        self.exit_suppresses = exit_suppresses
        a = self.node.args
        for x in a.posonlyargs + a.args + a.kwonlyargs:
            self.env[x.arg] = OTHER
        src_lines = inspect.getsource(fn).splitlines()
        first = src_lines[0] if src_lines else ""
        self.indent = len(first) - len(first.lstrip())

    def place(self, lab):
        _AstLower.place(self, lab)
        self.barrier = len(self.code)
        self.nplaced += 1

    def abs_pos(self, n):
        return (n.lineno + self.lineoff, n.col_offset + self.indent, n.end_lineno + self.lineoff, n.end_col_offset + self.indent)

    def fault(self, node, kind="call"):
        try:
            lab = ast.get_source_segment(self.src, node) or kind
        except Exception:
            lab = kind
        lab = " ".join(lab.split())[:70]
        s = Site(len(self.sites), lab, self.pos(node), self.abs_pos(node), kind)
        self.sites.append(s)
        ent = (s.id, lab, s.line)
        if self.code and self.code[-1].op == "fault" and self.barrier < len(self.code) and self.code[-1].err is self.err:
            self.code[-1].a.append(ent)
        else:
            self.emit(Ins("fault", [ent], pos=s.line))

    def may_raise(self, node, what):
        self.fault(node, what)

    def is_get_progress(self, obj):
        return obj is getattr(self.util, "get_progress", None)

    def is_progress_class(self, obj):
        base = getattr(self.util, "BaseProgress", None)
        return base is not None and inspect.isclass(obj) and issubclass(obj, base)

    def escape(self, v, node):
        if v and v[0] == "prog" and v[1] == self.target:
            raise LoweringError("line %s: the progress object escapes (stored/passed on): not modelled" % self.pos(node))

    def load_attr(self, recv, name, node):
        if recv[0] == "prog":
            return ("meth", recv, name)
        if recv[0] == "py":
            try:
                return ("py", getattr(recv[1], name))
            except AttributeError:
                return OTHER
        return OTHER

    def store_attr(self, recv, name, v, node):
        self.escape(v, node)

    def ev(self, n):
        t = type(n)
        if t is ast.Name:
            if n.id in self.env:
                return self.env[n.id]
            g = self.fn.__globals__
            if n.id in g:
                return ("py", g[n.id])
            if hasattr(_bi, n.id):
                return ("py", getattr(_bi, n.id))
            return OTHER
        if t is ast.Constant:
            return ("const", n.value)
        if t is ast.Attribute:
            return self.load_attr(self.ev(n.value), n.attr, n)
        if t is ast.Call:
            f = self.ev(n.func)
            args = []
            for a in n.args:
                v = self.ev(a.value if isinstance(a, ast.Starred) else a)
                args.append(v)
            for k in n.keywords:
                args.append(self.ev(k.value))
            for v in args:
                self.escape(v, n)
            if f[0] == "meth" and f[1][0] == "prog":
                if f[1][1] == self.target:
                    if f[2] in ("enter", "exit", "update", "__enter__", "__exit__"):
                        nargs = len(n.args)
                        ap = self.abs_pos(n)
                        self.emit(Ins("call", f[2], tuple(OTHER for _ in range(nargs)), d=(ap[2], ap[3]), pos=self.pos(n)))
                        if f[2] in ("enter", "__enter__") and self.enter_returns_self:
                            return f[1]
                        return OTHER
                    raise LoweringError("line %s: unknown method %s of the progress object" % (self.pos(n), f[2]))
                self.fault(n, "other-progress")
                return f[1] if f[2] in ("enter", "__enter__") else OTHER
            self.fault(n)
            if f[0] == "py" and self.is_get_progress(f[1]):
                return ("progcls",)
            if f[0] == "progcls" or (f[0] == "py" and self.is_progress_class(f[1])):
                key = (n.lineno, n.col_offset)
                if key not in self.progsites:
                    self.progsites[key] = len(self.progsites)
                return ("prog", self.progsites[key])
            return OTHER
        if t is ast.Compare:
            self.ev(n.left)
            for c in n.comparators:
                self.ev(c)
            return OTHER
        if t is ast.BoolOp:
            return self.ev_boolop(n)
        if t is ast.IfExp:
            return self.ev_ifexp(n)
        if t is ast.NamedExpr:
            v = self.ev(n.value)
            self.bind(n.target.id, v)
            return v
        if t is ast.Lambda:
            return OTHER
        if t in (ast.ListComp, ast.SetComp, ast.DictComp, ast.GeneratorExp):
            saved = dict(self.env)
            for g in n.generators:
                self.ev(g.iter)
                for nm in ast.walk(g.target):
                    if isinstance(nm, ast.Name):
                        self.env[nm.id] = OTHER
                for c in g.ifs:
                    self.ev(c)
            if t is ast.DictComp:
                self.ev(n.key)
                self.ev(n.value)
            else:
                self.ev(n.elt)
            self.env = saved
            return OTHER
        return self.ev_children(n)

    def with_enter(self, cm, node):
        if cm[0] == "prog" and cm[1] == self.target:
            self.emit(Ins("call", "__enter__", (), pos=self.pos(node)))
            return cm if self.enter_returns_self else OTHER
        self.fault(node, "with-enter")
        return cm if cm[0] == "prog" else OTHER

    def with_exit(self, cm, node, exc):
        if cm[0] == "prog" and cm[1] == self.target:
            ap = self.abs_pos(node)
            # the compiled `with` exit is a CALL located at the context expression: optional match in accepts()
            self.emit(Ins("call", "__exit__", (OTHER, OTHER, OTHER), d=("opt", (ap[2], ap[3])), pos=self.pos(node)))
            return self.exit_suppresses
        self.fault(node, "with-exit")
        return cm[0] != "prog"

    def handler_matches(self, tnode):
        v = self.ev(tnode)
        if v[0] == "py" and v[1] in (Exception, BaseException):
            return True
        return False

    # -- speculative "pure" lowering: a region that only contains fault sites needs no branching ------
    def _snapshot(self):
        lastn = len(self.code[-1].a) if self.code and self.code[-1].op == "fault" else None
        return (len(self.code), dict(self.env), len(self.sites), self.barrier, dict(self.progsites), lastn, self.nplaced)

    def _rollback(self, snap):
        del self.code[snap[0]:]
        if snap[5] is not None:
            del self.code[-1].a[snap[5]:]
        self.env = snap[1]
        del self.sites[snap[2]:]
        self.barrier = snap[3]
        self.progsites = snap[4]
        self.nplaced = snap[6]

    def _pure_since(self, snap):
        return self.nplaced == snap[6] and all(i.op == "fault" for i in self.code[snap[0]:])

    def s_If(self, s):
        snap = self._snapshot()
        try:
            self.ev(s.test)
            self.cleanup.append(("pure", None))
            try:
                self.block(s.body)
                self.block(s.orelse)
            finally:
                self.cleanup.pop()
            if self._pure_since(snap):
                return
        except _Impure:
            pass
        self._rollback(snap)
        _AstLower.s_If(self, s)

    def loop(self, s, head, _):
        snap = self._snapshot()
        try:
            self.cleanup.append(("pure", None))
            try:
                if isinstance(s, ast.While):
                    self.ev(s.test)
                else:
                    self.assign(s.target, OTHER)
                for n in ast.walk(s):
                    if isinstance(n, ast.Name) and isinstance(n.ctx, (ast.Store, ast.Del)):
                        self.env[n.id] = OTHER
                self.block(s.body)
                self.block(s.orelse)
            finally:
                self.cleanup.pop()
            if self._pure_since(snap):
                return
        except _Impure:
            pass
        self._rollback(snap)
        _AstLower.loop(self, s, head, _)

    def unwind(self, upto_loop):
        if any(c[0] == "pure" for c in self.cleanup):
            raise _Impure()
        return _AstLower.unwind(self, upto_loop)

    def s_Raise(self, s):
        if any(c[0] == "pure" for c in self.cleanup):
            raise _Impure()
        _AstLower.s_Raise(self, s)

    def lower(self):
        self.block(self.node.body)
        code = self.finalize()
        return MethodIR(self.fn.__qualname__, [], {}, code, how="ast-api")


class _Impure(Exception):
    pass


def lower_ast_api(fn, util_mod, target, unroll=2, enter_returns_self=True, exit_suppresses=False):
    lw = _ApiAst(fn, util_mod, target, unroll, enter_returns_self, exit_suppresses)
    mir = lw.lower()
    mir.sites = lw.sites
    mir.nprog = len(lw.progsites)
    return mir


def accepts(mir, observed):
    """does the lowered control-flow graph of an API function (lowered with unroll=None, i.e. with real
    loops) accept the sequence of call expressions that a real fault-free run executed?
    observed: [(end_lineno, end_col), ...] of the CALL events in the function's code object.
    Fault lists may match any number of their sites (pure regions are executed 0..n times).
    -> (ok, number of observed calls matched, number ignored because they are no call expression of the AST)"""
    code = mir.code
    site_pos = {s_.id: (s_.pos[2], s_.pos[3]) for s_ in mir.sites}
    known = set(site_pos.values()) | {(i.d[1] if i.d[0] == "opt" else i.d) for i in code if i.op == "call" and i.d}
    fkeys = {}
    for p, i in enumerate(code):
        if i.op == "fault":
            fkeys[p] = {site_pos[e[0]] for e in i.a}

    def closure(pcs):
        out, work = set(), list(pcs)
        while work:
            p = work.pop()
            if p in out or p is None or p >= len(code):
                continue
            out.add(p)
            i = code[p]
            if i.op == "jmp":
                work.append(i.c)
            elif i.op in ("cj", "nd"):
                work += [i.c, p + 1]
            elif i.op in ("nop", "fault"):
                work.append(p + 1)
            elif i.op == "call" and (not i.d or i.d[0] == "opt"):
                work.append(p + 1)
        return out
    cur = closure({0})
    matched = ignored = 0
    for k in observed:
        if k not in known:
            ignored += 1
            continue
        nxt = set()
        for p in cur:
            i = code[p]
            if i.op == "fault" and k in fkeys[p]:
                nxt.add(p)
            elif i.op == "call" and (i.d == k or i.d == ("opt", k)):
                nxt.add(p + 1)
        if not nxt:
            # the compiled exit of `with` is a CALL whose reported location is version dependent: it may consume k
            nxt = {p + 1 for p in cur if code[p].op == "call" and code[p].d and code[p].d[0] == "opt"}
        if not nxt:
            return False, matched, ignored
        matched += 1
        cur = closure(nxt)
    ok = any(code[p].op == "ret" for p in cur)
    return ok, matched, ignored


def discover_apis(pkg):
    """every function/method of the package whose body calls get_progress(...) -> [(qualified name, function)]"""
    import importlib
    import pkgutil
    out = []
    mods = [pkg]
    for m in pkgutil.walk_packages(pkg.__path__, pkg.__name__ + "."):
        try:
            mods.append(importlib.import_module(m.name))
        except Exception:
            continue
    seen = set()
    for mod in mods:
        try:
            tree = ast.parse(inspect.getsource(mod))
        except (OSError, TypeError, SyntaxError):
            continue

        def visit(node, prefix, owner):
            for ch in ast.iter_child_nodes(node):
                if isinstance(ch, ast.ClassDef):
                    visit(ch, prefix + [ch.name], getattr(owner, ch.name, None))
                elif isinstance(ch, (ast.FunctionDef, ast.AsyncFunctionDef)):
                    uses = False
                    for c in ast.walk(ch):
                        if isinstance(c, ast.Call):
                            f = c.func
                            nm = f.id if isinstance(f, ast.Name) else (f.attr if isinstance(f, ast.Attribute) else None)
                            if nm == "get_progress" or (nm and nm.startswith("Progress")):
                                uses = True
                    if uses and owner is not None:
                        try:
                            fobj = inspect.getattr_static(owner, ch.name)
                        except AttributeError:
                            continue
                        if isinstance(fobj, (staticmethod, classmethod)):
                            fobj = fobj.__func__
                        if inspect.isfunction(fobj) and fobj.__module__ == mod.__name__ and id(fobj) not in seen:
                            seen.add(id(fobj))
                            out.append((mod.__name__ + "." + ".".join(prefix + [ch.name]), fobj))
        visit(tree, [], mod)
    return sorted(out, key=lambda x: x[0])


# ---------------------------------------------------------------------------------------
# H3: concurrent.futures executors -- discovery, call chain, AST lowering
# ---------------------------------------------------------------------------------------
def _is_executor_class(obj):
    try:
        import concurrent.futures as cf
        return inspect.isclass(obj) and issubclass(obj, cf.Executor)
    except Exception:  # noqa
        return False


def _package_functions(pkg):
    """[(qualified name, function object, owner class or None, ast node)] of every def in the package"""
    import importlib
    import pkgutil
    mods = [pkg]
    for m in pkgutil.walk_packages(pkg.__path__, pkg.__name__ + "."):
        try:
            mods.append(importlib.import_module(m.name))
        except Exception:  # noqa
            continue
    out, seen = [], set()
    for mod in mods:
        try:
            tree = ast.parse(inspect.getsource(mod))
        except (OSError, TypeError, SyntaxError):
            continue

        def visit(node, prefix, owner, cls):
            for ch in ast.iter_child_nodes(node):
                if isinstance(ch, ast.ClassDef):
                    c = getattr(owner, ch.name, None)
                    visit(ch, prefix + [ch.name], c, c)
                elif isinstance(ch, (ast.FunctionDef, ast.AsyncFunctionDef)) and owner is not None:
                    try:
                        fobj = inspect.getattr_static(owner, ch.name)
                    except AttributeError:
                        continue
                    if isinstance(fobj, (staticmethod, classmethod)):
                        fobj = fobj.__func__
                    if isinstance(fobj, property):
                        continue
                    if inspect.isfunction(fobj) and fobj.__module__ == mod.__name__ and id(fobj) not in seen:
                        seen.add(id(fobj))
                        out.append((mod.__name__ + "." + ".".join(prefix + [ch.name]), fobj, cls, ch))
        visit(tree, [], mod, None)
    return out


def _resolve_dotted(node, g):
    """ast Name/Attribute chain -> python object through module globals, or None"""
    parts = []
    while isinstance(node, ast.Attribute):
        parts.append(node.attr)
        node = node.value
    if not isinstance(node, ast.Name):
        return None
    obj = g.get(node.id, getattr(_bi, node.id, None))
    for a in reversed(parts):
        if obj is None:
            return None
        obj = getattr(obj, a, None)
    return obj


def discover_executor_chains(pkg):
    """every function that constructs a concurrent.futures executor, with its call chain (name based) up to the
    outermost callers inside the package.
    -> [dict(site=qualname, top=qualname, chain={method name: (function, class)}, top_fn, top_cls)]"""
    funcs = _package_functions(pkg)
    makers = []
    for q, f, cls, node in funcs:
        for c in ast.walk(node):
            if isinstance(c, ast.Call) and _is_executor_class(_resolve_dotted(c.func, f.__globals__)):
                makers.append((q, f, cls))
                break
    out = []
    name_count = {}
    for q2, f2, cls2, node2 in funcs:
        name_count[f2.__name__] = name_count.get(f2.__name__, 0) + 1

    def calls(node2, f2, cls2, name, target_fn):
        """does function f2 call target_fn (named `name`)?  self.name(): resolved through the class;
        other receivers: only if the method name is unique in the package"""
        sn = node2.args.args[0].arg if node2.args.args else None
        for c in ast.walk(node2):
            if isinstance(c, ast.Call) and isinstance(c.func, ast.Attribute) and c.func.attr == name:
                recv = c.func.value
                if isinstance(recv, ast.Name) and recv.id == sn and cls2 is not None:
                    try:
                        if inspect.getattr_static(cls2, name) is target_fn:
                            return True
                    except AttributeError:
                        pass
                elif name_count.get(name, 0) == 1:
                    return True
        return False
    for q, f, cls in makers:
        chain = {f.__name__: (f, cls, q)}
        frontier = [f.__name__]
        tops = []
        guard = 0
        while frontier and guard < 8:
            guard += 1
            nxt = []
            for name in frontier:
                callers = [(q2, f2, cls2) for q2, f2, cls2, node2 in funcs
                           if f2 is not chain[name][0] and calls(node2, f2, cls2, name, chain[name][0])]
                if not callers:
                    tops.append(name)
                for q2, f2, cls2 in callers:
                    if f2.__name__ not in chain:
                        chain[f2.__name__] = (f2, cls2, q2)
                        nxt.append(f2.__name__)
            frontier = nxt
        tops += frontier
        for t in sorted(set(tops)):
            out.append({"site": q, "top": chain[t][2], "top_fn": chain[t][0], "top_cls": chain[t][1], "chain": chain})
    return out


def init_consts(cls):
    """attr -> ('const', None/True/False) for attributes that __init__ assigns a constant (and nothing else)"""
    out = {}
    if cls is None:
        return out
    try:
        fn = inspect.getattr_static(cls, "__init__")
        node, _, _ = _fn_ast(fn)
    except Exception:  # noqa
        return out
    selfname = node.args.args[0].arg if node.args.args else "self"
    for n in ast.walk(node):
        if isinstance(n, ast.Assign):
            for t in n.targets:
                if isinstance(t, ast.Attribute) and isinstance(t.value, ast.Name) and t.value.id == selfname:
                    v = n.value
                    val = ("const", v.value) if isinstance(v, ast.Constant) and (v.value is None or v.value is True or v.value is False) else OTHER
                    out[t.attr] = val if t.attr not in out or out[t.attr] == val else OTHER
    return out


class _ExecAst(_ApiAst):
    """API-style lowering (every call a fault site, loops unrolled, exception edges) that tracks executor objects:
    construction (`new`), map/submit (`xuse`), shutdown / leaving `with` (`xshut`), attributes of self (read / write,
    keyed by object path), and calls into other functions of the chain (`call`, inlined by link)."""

    def __init__(self, fn, util_mod, chain, selfpath, unroll):
        _ApiAst.__init__(self, fn, util_mod, None, unroll)
        self.chain = chain
        self.selfpath = selfpath
        a = self.node.args
        names = [x.arg for x in a.posonlyargs + a.args]
        self.selfname = names[0] if names and selfpath is not None else None
        if self.selfname:
            self.env[self.selfname] = ("selfobj", selfpath)
        self.regpath = {}
        self.newregs = set()

    def newreg(self):
        self.nreg += 1
        return ("reg", "x%d" % self.nreg)

    def bind(self, name, v):
        self.env[name] = v if v[0] in ("reg", "const", "selfobj", "py", "bx") else OTHER

    def escape(self, v, node):
        if v and v[0] == "reg" and v[1] in self.newregs:
            raise LoweringError("line %s: an executor object is passed on / stored in a container: not modelled" % self.pos(node))

    def load_attr(self, recv, name, node):
        if recv[0] == "selfobj":
            cls = self.owner_cls
            if cls is not None:
                try:
                    if inspect.isfunction(inspect.getattr_static(cls, name)):
                        return ("meth", recv, name)
                except AttributeError:
                    pass
            r = self.newreg()
            self.regpath[r[1]] = recv[1] + "." + name
            self.emit(Ins("read", r[1], recv[1] + "::" + name, pos=self.pos(node)))
            return r
        if recv[0] == "py":
            try:
                return ("py", getattr(recv[1], name))
            except AttributeError:
                return OTHER
        if recv[0] == "reg":
            return ("meth", recv, name)
        return OTHER

    def store_attr(self, recv, name, v, node):
        if recv[0] == "selfobj":
            self.emit(Ins("write", recv[1] + "::" + name, irval(v), pos=self.pos(node)))
        else:
            self.escape(v, node)

    def _with_items(self, s, k):
        # remember which `with` items are executor-like values
        return _ApiAst._with_items(self, s, k)

    def with_enter(self, cm, node):
        self.fault(node, "with-enter")
        return cm if cm[0] == "reg" else OTHER

    def with_exit(self, cm, node, exc):
        if cm[0] == "reg":
            # Executor.__exit__ = shutdown(wait=True); a no-op in the model if the value is not an executor
            self.emit(Ins("xshut", cm, pos=self.pos(node)))
            return False
        self.fault(node, "with-exit")
        return cm[0] != "prog"

    def ev(self, n):
        t = type(n)
        if t is ast.Attribute:
            return self.load_attr(self.ev(n.value), n.attr, n)
        if t is ast.Compare:
            return _AstLower.ev_compare(self, n)
        if t is ast.UnaryOp and isinstance(n.op, ast.Not):
            return self.ev_not(n)
        if t is ast.Call:
            f = self.ev(n.func)
            args = []
            for a in n.args:
                args.append(self.ev(a.value if isinstance(a, ast.Starred) else a))
            for k in n.keywords:
                args.append(self.ev(k.value))
            if f[0] == "py" and _is_executor_class(f[1]):
                self.fault(n)
                r = self.newreg()
                self.newregs.add(r[1])
                self.emit(Ins("new", r[1], "<executor>", "executor", pos=self.pos(n)))
                return r
            if f[0] == "meth":
                recv, name = f[1], f[2]
                if name in self.chain and recv[0] in ("selfobj", "reg"):
                    path = recv[1] if recv[0] == "selfobj" else self.regpath.get(recv[1])
                    if recv[0] == "selfobj":
                        try:
                            if inspect.getattr_static(self.owner_cls, name) is not self.chain[name][0]:
                                path = None
                        except (AttributeError, TypeError):
                            path = None
                    if path is not None:
                        self.emit(Ins("call", "%s|%s" % (path, name), (), pos=self.pos(n)))
                        return OTHER
                if recv[0] == "reg":
                    if name in ("map", "submit"):
                        self.emit(Ins("xuse", recv, pos=self.pos(n)))
                        self.fault(n)
                        return OTHER
                    if name == "shutdown":
                        self.emit(Ins("xshut", recv, pos=self.pos(n)))
                        return OTHER
            for v in args:
                self.escape(v, n)
            self.fault(n)
            return OTHER
        return _ApiAst.ev(self, n)

    def s_For(self, s):
        self.ev(s.iter)

        def head(lexit):
            self.fault(s.iter, "iteration")      # next() of the iterable may raise (e.g. a failed worker of executor.map)
            self.emit(Ins("nd", c=lexit, pos=self.pos(s)))
            self.assign(s.target, OTHER)
        self.loop(s, head, None)

    def _pure_since(self, snap):
        return self.nplaced == snap[6] and all(i.op in ("fault", "read") for i in self.code[snap[0]:])


def lower_ast_exec(fn, cls, util_mod, chain, selfpath, unroll):
    lw = _ExecAst(fn, util_mod, chain, selfpath, unroll)
    lw.owner_cls = cls
    mir = lw.lower()
    mir.sites = lw.sites
    return mir
